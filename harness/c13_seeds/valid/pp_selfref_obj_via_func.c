#define obj fn(ob, j)
#define fn(a, b) a ## b
int obj = 1;
