int a[4];
char m[2][3];
char t[4] = "abc";
int f(int i) { int b[8]; b[7] = 1; return a[3] + m[1][2] + b[i] + t[0]; }
