#if 1 2
#endif
