"""C03 part (a): bounded-exhaustive enumerator of structured statement trees, their C text, the node table for the
reference interpreter (harness/c03_rt.h), a static validity checker and the shrink moves.

Tree representation (nested tuples, hashable):
 statements
   ("T",)                      marker  T(k);            k assigned in textual order
   ("E",)                      empty statement ;
   ("brk",) ("cont",) ("ret",)
   ("goto", j)                 goto Lj;   j = 1-based index of a labelled statement in textual order (None = hole)
   ("cgoto",)                  goto *tab[SEL(n)];  n = number of labels of the function, tab = {&&L1..&&Ln}
   ("if", e, s) ("ife", e, s, s) ("while", e, s) ("do", s, e)
   ("for", v, e|None, s)       v: 0 for(;e;)  1 for(T;e;T)  2 for(int i=T;e;T)   e None = no condition
   ("blk", s, s[, s])          compound statement
   ("lab", s[, name])          Lj: s    with a name the label is spelled `name` instead of Lj everywhere (goto, &&name); the
                               interpreter still identifies it by its index j, so the NAME only matters to the compiler
   ("X",)                      gsink = *gnull;   a statement that traps whenever it is executed (dead code must stay dead)
   ("sw", e, shape, (s,..))    switch (e) { shape[i]: s_i ... }   shape[i] in 0,1,2 (case value) or "d" (default)
   ("V", e)                    V(e);  records the value of e
   ("swd", e, s)               switch (e) s     the body is ANY statement; its case labels are ("case", ..) nodes at any depth
   ("case", l, s)              case l: s / default: s   (l in 0,1,2,"d"; None = hole) - belongs to the innermost enclosing "swd";
                               costs nothing, so `switch (C2()) do { case 0: T(1); case 1: T(2); } while (C());` has size 3
 expressions
   ("C",) tape bit   ("C2",) two tape bits   ("Te",) T(k) value k   ("Ze",) Z(k) value 0
   typed tape bits (one tape bit b each, event 1000+b; the operand type decides how its truth value has to be tested):
   ("Cc",) char b ? -128 : 0        ("Cl",) long b ? 0x300000000 : 0 (only high bits set)   ("Cf",) float b ? 0.25f : 0
   ("Cd",) double b ? 0.5 : -0.0    ("Cld",) long double b ? 0.5L : 0    ("Cp",) void * b ? (void *)0x700000000 : 0
   trapping operands (no call, no event: evaluating one is observable ONLY by the trap it raises; valid when the tape bit
   read LAST equals the polarity p, otherwise the run is undefined and not judged):
   ("Dp1",) ("Dp0",) *gp<p>   null pointer unless valid, value p        ("Dx1",) ("Dx0",) ga[gi<p>]   index into an unmapped
   page unless valid, value p      ("Dv1",) ("Dv0",) (6 / gd<p>)   run-time zero divisor unless valid, value 2 resp. 1
   pure operands that never trap: ("K",) 7   ("G",) gz (a global, 0)   ("Sz",) (int)sizeof(ga[gbad])  (4, operand unevaluated)
   Expressions are statically typed (etype): ?: and a ?: b need two arithmetic or two pointer operands, a switch
   selector an integer type; V() of a pointer is written V((long)e).
   ("and",a,b) ("or",a,b) ("cond",a,b,c) ("elvis",a,b) ("comma",a,b) ("not",a) ("se", s|None, e)   ({ s e; })

Size of a tree = number of composite nodes + number of leaves other than the plain marker statement T and the plain
condition C()/C2() ("costly leaves": jumps, empty statement, T/Z and the typed tape bits used as operands; an alphabet
with "tfree" makes the typed tape bits free like C()).
"""
import functools, itertools, struct

ND = struct.Struct("<7hxxI")        # struct Nd of harness/c03_rt.h


def table_file(progs_meta, rows):
    """binary table read by harness/c03_tree_driver.c: header (nprogs, nnodes), per program (root, L), node records"""
    return struct.pack("<ii", len(progs_meta), len(rows)) + b"".join(struct.pack("<ii", r, L) for r, L in progs_meta) + b"".join(rows)

STMT_LEAVES = ("T", "E", "brk", "cont", "ret", "goto", "cgoto", "X")
TYPED_LEAVES = ("Cc", "Cl", "Cf", "Cd", "Cld", "Cp")
LEAF_TYPE = {"C": "int", "C2": "int", "Te": "int", "Ze": "int", "Cc": "char", "Cl": "long", "Cf": "float", "Cd": "double",
             "Cld": "ldouble", "Cp": "ptr"}
LEAF_DECL = ("char Cc(void); long Cl(void); float Cf(void); double Cd(void); long double Cld(void); void *Cp(void);")
RANK = {"char": 0, "int": 1, "long": 2, "float": 3, "double": 4, "ldouble": 5}
# trapping operands: C text, value when valid, polarity (valid iff the last tape bit read == polarity; None = always valid)
TRAP_TEXT = {"Dp1": ("(*gp1)", 1, 1), "Dp0": ("(*gp0)", 0, 0), "Dx1": ("ga[gi1]", 1, 1), "Dx0": ("ga[gi0]", 0, 0),
             "Dv1": ("(6 / gd1)", 2, 1), "Dv0": ("(6 / gd0)", 1, 0),
             "K": ("7", 7, None), "G": ("gz", 0, None), "Sz": ("(int)sizeof(ga[gbad])", 4, None)}
TRAP_LEAVES = tuple(TRAP_TEXT)
TRAP_DECL = "extern int *gp1, *gp0, *ga, *gnull; extern int gi1, gi0, gd1, gd0, gz, gbad, gsink;"
for _k in TRAP_LEAVES: LEAF_TYPE[_k] = "int"
EXPR_LEAVES = ("C", "C2", "Te", "Ze") + TYPED_LEAVES + TRAP_LEAVES
EXPR_KINDS = EXPR_LEAVES + ("and", "or", "cond", "elvis", "comma", "not", "se")

SWITCH_SHAPES = [(0,), ("d",), (0, 1), ("d", 0), (0, "d"), (0, 1, 2), ("d", 0, 1), (0, "d", 1), (0, 1, "d")]


def is_expr(t):
    return t[0] in EXPR_KINDS


@functools.lru_cache(maxsize=None)
def etype(t):
    """static type of an expression tree (C11 6.5.15p5/6, 6.5.17, usual arithmetic conversions); ValueError = constraint violation"""
    k = t[0]
    if k in LEAF_TYPE: return LEAF_TYPE[k]
    if k in ("and", "or", "not"):
        for c in t[1:]: etype(c)
        return "int"
    if k == "comma":
        etype(t[1]); return etype(t[2])
    if k == "se":
        return etype(t[2])
    if k in ("cond", "elvis"):
        etype(t[1])
        a, b = etype(t[-2]), etype(t[-1])
        if a == "ptr" or b == "ptr":
            if a != b: raise ValueError("pointer and arithmetic operand")
            return "ptr"
        r = max(RANK[a], RANK[b], RANK["int"])
        return [n for n, v in RANK.items() if v == r][0]
    raise ValueError(k)


def typed_ok(t):
    try:
        etype(t)
    except ValueError:
        return False
    return True


def _splits(n, k):
    """all k-tuples of non-negative ints summing to n"""
    if k == 1:
        yield (n,)
        return
    for a in range(n + 1):
        for rest in _splits(n - a, k - 1):
            yield (a,) + rest


class Gen:
    """alphabet keys: trapstmt (statement that traps when executed), trapleaves (tuple of trapping / pure operands, free),
    empty ret goto cgoto label (leaves / labelled statements), for (tuple of for variants), fornocond, blk3,
    switch (list of shapes), exprs (set of expression composites), exprleaves (T/Z operands), tleaves (tuple of typed tape
    bits), tfree (typed tape bits cost nothing), swd (switch with a free-form body and case labels at any depth),
    noloops / noblk (drop while/do/for resp. compound statements)"""

    def __init__(self, alphabet):
        self.al = alphabet
        self._s = {}
        self._e = {}

    def stmts(self, n, ctx):
        key = (n, ctx)
        if key not in self._s:
            self._s[key] = self._gen_s(n, ctx)
        return self._s[key]

    def exprs(self, n, ctx, sel=False):
        key = (n, ctx, sel)
        if key not in self._e:
            self._e[key] = self._gen_e(n, ctx, sel)
        return self._e[key]

    def _gen_s(self, n, ctx):
        brk, cont, lab, incase = ctx
        al = self.al
        out = []
        if n == 0:
            out = [("T",)]
        if n == 1:
            if "empty" in al: out.append(("E",))
            if brk: out.append(("brk",))
            if cont: out.append(("cont",))
            if "ret" in al: out.append(("ret",))
            if "goto" in al: out.append(("goto", None))
            if "cgoto" in al: out.append(("cgoto",))
            if "trapstmt" in al: out.append(("X",))
        m = n - 1
        ectx = (brk, cont, False, False)    # expression evaluated as part of a non-loop statement
        lctx = (False, False, False, False) # loop / switch controlling expression: break/continue not generated there
        body = (True, True, lab, incase)
        for a, b in (_splits(m, 2) if n >= 1 else ()):
            for e in self.exprs(a, ectx):
                for s in self.stmts(b, ctx):
                    out.append(("if", e, s))
            if "noloops" not in al:
                for e in self.exprs(a, lctx):
                    for s in self.stmts(b, body):
                        out.append(("while", e, s))
                        out.append(("do", s, e))
                        for v in al.get("for", (0,)):
                            out.append(("for", v, e, s))
            if "noblk" not in al:
                for s1 in self.stmts(a, ctx):
                    for s2 in self.stmts(b, ctx):
                        out.append(("blk", s1, s2))
            if "swd" in al:
                for e in self.exprs(a, lctx, True):
                    for s in self.stmts(b, (True, cont, lab, True)):
                        out.append(("swd", e, s))
        if n >= 1 and "fornocond" in al:
            for s in self.stmts(m, body):
                out.append(("for", 1, None, s))
        for a, b, c in (_splits(m, 3) if n >= 1 else ()):
            for e in self.exprs(a, ectx):
                for s1 in self.stmts(b, ctx):
                    for s2 in self.stmts(c, ctx):
                        out.append(("ife", e, s1, s2))
            if "blk3" in al:
                for s1 in self.stmts(a, ctx):
                    for s2 in self.stmts(b, ctx):
                        for s3 in self.stmts(c, ctx):
                            out.append(("blk", s1, s2, s3))
        if n >= 1 and lab and "label" in al:
            for s in self.stmts(m, ctx):
                out.append(("lab", s))
        if n >= 1 and "switch" in al:
            sctx = (True, cont, lab, False)
            for shape in al["switch"]:
                k = len(shape)
                for sp in _splits(m, k + 1):
                    for e in self.exprs(sp[0], lctx, True):
                        for secs in itertools.product(*[self.stmts(x, sctx) for x in sp[1:]]):
                            out.append(("sw", e, shape, tuple(secs)))
        if "exprs" in al:
            # V(e) itself is free; e is composite (size >= 1)
            for e in (self.exprs(n, ectx) if n >= 1 else ()):
                if e[0] not in EXPR_LEAVES:
                    out.append(("V", e))
        if incase:
            out += [("case", None, s) for s in out]      # a case label costs nothing; at most 3 per switch (see fill_cases)
        return out

    def _gen_e(self, n, ctx, sel):
        al = self.al
        tl = al.get("tleaves", ())
        INT = ("char", "int", "long")
        if n == 0:
            out = [("C2",)] if sel else [("C",)]
            if "tfree" in al:
                out += [(k,) for k in tl if not sel or LEAF_TYPE[k] in INT]
            if not sel:
                out += [(k,) for k in al.get("trapleaves", ())]      # trapping / pure operands cost nothing, like C()
            return out
        out = []
        if n == 1 and "exprleaves" in al:
            out += [("Te",), ("Ze",)]
        if n == 1 and "tfree" not in al:
            out += [(k,) for k in tl if not sel or LEAF_TYPE[k] in INT]
        if "exprs" not in al:
            return out
        m = n - 1
        ops = al["exprs"]
        for a, b in _splits(m, 2):
            A = self.exprs(a, ctx); B = self.exprs(b, ctx)
            for op in ("and", "or", "elvis", "comma"):
                if op in ops:
                    for x in A:
                        for y in B:
                            out.append((op, x, y))
            if "se" in ops:
                for s in self.stmts(a, ctx):
                    for y in B:
                        out.append(("se", s, y))
        if "not" in ops:
            for x in self.exprs(m, ctx):
                out.append(("not", x))
        if "cond" in ops:
            for a, b, c in _splits(m, 3):
                for x in self.exprs(a, ctx):
                    for y in self.exprs(b, ctx):
                        for z in self.exprs(c, ctx):
                            out.append(("cond", x, y, z))
        if tl:
            out = [e for e in out if typed_ok(e) and (not sel or etype(e) in INT)]
        return out

    def programs(self, n):
        """all complete programs of size exactly n: goto holes filled with every label, jumps need a label; the case
        holes of every free-form switch filled with every shape of that length"""
        for t in self.stmts(n, (False, False, True, False)):
            for p in fill_gotos(t):
                for q in fill_cases(p, self.al.get("swdshapes", SWITCH_SHAPES)):
                    yield q


def count_labels(t):
    k = t[0]
    n = 1 if k == "lab" else 0
    for c in t[1:]:
        if isinstance(c, tuple) and c and isinstance(c[0], str) and c[0] != "d":
            n += count_labels(c)
        elif isinstance(c, tuple):
            for x in c:
                if isinstance(x, tuple):
                    n += count_labels(x)
    return n


def _count(t, kind):
    n = 1 if t[0] == kind else 0
    for c in t[1:]:
        if isinstance(c, tuple):
            if c and isinstance(c[0], str) and c[0] != "d":
                n += _count(c, kind)
            else:
                for x in c:
                    if isinstance(x, tuple):
                        n += _count(x, kind)
    return n


def _fill(t, it):
    if t[0] == "goto":
        return ("goto", next(it))
    out = [t[0]]
    for c in t[1:]:
        if isinstance(c, tuple) and c and isinstance(c[0], str) and c[0] != "d":
            out.append(_fill(c, it))
        elif isinstance(c, tuple) and c and isinstance(c[0], tuple):
            out.append(tuple(_fill(x, it) for x in c))
        else:
            out.append(c)
    return tuple(out)


def fill_gotos(t):
    g = _count(t, "goto")
    cg = _count(t, "cgoto")
    nl = count_labels(t)
    if (g or cg) and nl == 0:
        return
    if g == 0:
        yield t
        return
    for choice in itertools.product(range(1, nl + 1), repeat=g):
        yield _fill(t, iter(choice))


def _kids(t):
    """child nodes of t in textual order"""
    for c in t[1:]:
        if isinstance(c, tuple) and c:
            if isinstance(c[0], str) and c[0] != "d":
                yield c
            elif isinstance(c[0], tuple):
                for x in c:
                    yield x


def _case_holes(t, out):
    """pre-order list of the numbers of case holes of every free-form switch"""
    if t[0] == "swd":
        out.append(0)
        me = len(out) - 1
        _case_holes(t[1], out)
        _holes_in(t[2], out, me)
    else:
        for c in _kids(t):
            _case_holes(c, out)


def _holes_in(t, out, me):
    if t[0] == "swd":
        _case_holes(t, out)
        return
    if t[0] == "case" and t[1] is None:
        out[me] += 1
    for c in _kids(t):
        _holes_in(c, out, me)


def _fill_cases(t, shapes, stack):
    k = t[0]
    if k == "swd":
        sh = next(shapes)
        e = _fill_cases(t[1], shapes, stack)
        stack.append(iter(sh))
        b = _fill_cases(t[2], shapes, stack)
        stack.pop()
        return ("swd", e, b)
    if k == "case" and t[1] is None:
        l = next(stack[-1])
        return ("case", l, _fill_cases(t[2], shapes, stack))
    out = [k]
    for c in t[1:]:
        if isinstance(c, tuple) and c and isinstance(c[0], str) and c[0] != "d":
            out.append(_fill_cases(c, shapes, stack))
        elif isinstance(c, tuple) and c and isinstance(c[0], tuple):
            out.append(tuple(_fill_cases(x, shapes, stack) for x in c))
        else:
            out.append(c)
    return tuple(out)


def fill_cases(t, shapes=None):
    """every assignment of case labels to the holes of the free-form switches: a switch with k holes gets, in textual
    order, every shape of length k (k = 0: the body has no label and is never entered; k > 3: not generated)"""
    shapes = SWITCH_SHAPES if shapes is None else shapes
    holes = []
    _case_holes(t, holes)
    if not holes:
        yield t
        return
    if max(holes) > 3:
        return
    opts = [[sh for sh in shapes if len(sh) == k] if k else [()] for k in holes]
    for choice in itertools.product(*opts):
        # a nested switch is numbered after its parent in _case_holes and entered after it in _fill_cases: same order
        yield _fill_cases(t, iter(choice), [])


def size(t):
    k = t[0]
    if k in ("T", "C", "C2"):
        return 0
    n = 0 if k in ("V", "case") else 1
    for c in t[1:]:
        if isinstance(c, tuple):
            if c and isinstance(c[0], str) and c[0] != "d":
                n += size(c)
            else:
                for x in c:
                    if isinstance(x, tuple):
                        n += size(x)
    return n


# ---- validity (independent of the generator; used for shrink candidates and as a generator self-check) ----
def valid(t):
    nl = count_labels(t)
    try:
        _valid(t, False, False, True, nl)
    except ValueError:
        return False
    return True


def _valid(t, brk, cont, lab, nl, cs=None):
    """cs: the set of case labels already used by the innermost enclosing free-form switch (None: not inside one)"""
    k = t[0]
    if k in ("T", "E", "ret", "X") or k in LEAF_TYPE:
        return
    if is_expr(t):
        etype(t)                    # raises ValueError on a constraint violation
    if k == "brk":
        if not brk: raise ValueError
    elif k == "cont":
        if not cont: raise ValueError
    elif k == "goto":
        if t[1] is None or not (1 <= t[1] <= nl): raise ValueError
    elif k == "cgoto":
        if nl == 0: raise ValueError
    elif k == "if":
        _valid(t[1], brk, cont, False, nl); _valid(t[2], brk, cont, lab, nl, cs)
    elif k == "ife":
        _valid(t[1], brk, cont, False, nl); _valid(t[2], brk, cont, lab, nl, cs); _valid(t[3], brk, cont, lab, nl, cs)
    elif k == "while":
        _valid(t[1], False, False, False, nl); _valid(t[2], True, True, lab, nl, cs)
    elif k == "do":
        _valid(t[1], True, True, lab, nl, cs); _valid(t[2], False, False, False, nl)
    elif k == "for":
        if t[2] is not None: _valid(t[2], False, False, False, nl)
        _valid(t[3], True, True, lab, nl, cs)
    elif k == "blk":
        for c in t[1:]: _valid(c, brk, cont, lab, nl, cs)
    elif k == "lab":
        if not lab: raise ValueError
        _valid(t[1], brk, cont, lab, nl, cs)
    elif k == "sw":
        _valid(t[1], False, False, False, nl)
        if etype(t[1]) not in ("char", "int", "long"): raise ValueError
        if len(t[2]) != len(t[3]) or len(set(t[2])) != len(t[2]): raise ValueError
        for c in t[3]: _valid(c, True, cont, lab, nl)
    elif k == "swd":
        _valid(t[1], False, False, False, nl)
        if etype(t[1]) not in ("char", "int", "long"): raise ValueError
        _valid(t[2], True, cont, lab, nl, set())
    elif k == "case":
        if cs is None or t[1] is None or t[1] in cs or len(cs) >= 3: raise ValueError
        cs.add(t[1])
        _valid(t[2], brk, cont, lab, nl, cs)
    elif k == "V":
        _valid(t[1], brk, cont, False, nl)
    elif k in ("and", "or", "elvis", "comma"):
        _valid(t[1], brk, cont, False, nl); _valid(t[2], brk, cont, False, nl)
    elif k == "not":
        _valid(t[1], brk, cont, False, nl)
    elif k == "cond":
        for c in t[1:]: _valid(c, brk, cont, False, nl)
    elif k == "se":
        if t[1] is not None: _valid(t[1], brk, cont, False, nl)
        _valid(t[2], brk, cont, False, nl)
    else:
        raise ValueError(k)


# ---- label names ---------------------------------------------------------------------
# The label name space as an enumeration dimension: names that are prefixes / suffixes / case variants of each other and
# names that differ only in their 63rd (last significant, C11 5.2.4.1) character.
_LONG = "M" + "_123456789" * 6 + "_"          # 62 characters
LABEL_NAMES_CORE = ("L", "L1", "L10", "l1")
LABEL_NAMES = LABEL_NAMES_CORE + ("XL1", _LONG + "a", _LONG + "b")


def label_names(t):
    """names of the labelled statements in textual order (None = default Lj)"""
    out = []
    def walk(x):
        if x[0] == "lab":
            out.append(x[2] if len(x) > 2 else None)
        for c in _kids(x):
            walk(c)
    walk(t)
    return out


def name_labels(t, names):
    """the tree with its labelled statements named names[0], names[1].. in textual order (None: all names removed)"""
    it = iter(names) if names is not None else None
    def walk(x):
        if x[0] == "lab":
            nm = next(it) if it is not None else None       # pre-order = textual order: the label precedes its statement
            body = walk(x[1])
            return ("lab", body, nm) if nm else ("lab", body)
        out = [x[0]]
        for c in x[1:]:
            if isinstance(c, tuple) and c and isinstance(c[0], str) and c[0] != "d":
                out.append(walk(c))
            elif isinstance(c, tuple) and c and isinstance(c[0], tuple):
                out.append(tuple(walk(y) for y in c))
            else:
                out.append(c)
        return tuple(out)
    return walk(t)


def name_relations(names):
    """relations between the spellings of the labels i < j (textual order), for signatures"""
    rel = []
    nm = [n or "L%d" % (j + 1) for j, n in enumerate(names)]
    for i in range(len(nm)):
        for j in range(i + 1, len(nm)):
            a, b = nm[i], nm[j]
            if a == b: continue
            if b.startswith(a): rel.append("L%d=prefix-of-L%d" % (i + 1, j + 1))
            elif a.startswith(b): rel.append("L%d=prefix-of-L%d" % (j + 1, i + 1))
            elif len(a) > 32 and a[:32] == b[:32]: rel.append("L%d=long-common-prefix-L%d" % (i + 1, j + 1))
            if b.endswith(a): rel.append("L%d=suffix-of-L%d" % (i + 1, j + 1))
            elif a.endswith(b): rel.append("L%d=suffix-of-L%d" % (j + 1, i + 1))
            if a.lower() == b.lower(): rel.append("L%d=case-variant-of-L%d" % (i + 1, j + 1))
    return ",".join(rel) or "unrelated"


def name_tuples(nl, wide):
    """every ordered selection of nl distinct names: definition order = textual order, so each related pair occurs in both
    orders.  wide: all 7 names for 2 (and 3) labels, else the 4 core names"""
    if nl < 2 or nl > 4: return []
    pool = LABEL_NAMES if wide and nl <= (3 if wide > 1 else 2) else LABEL_NAMES_CORE
    return list(itertools.permutations(pool, nl))


# ---- C text and interpreter table -------------------------------------------------
class Emit:
    """One pass assigns marker numbers and label numbers in textual order and produces both the C text and the
    node table rows, so that the two cannot drift apart."""
    K = dict(S_EXPR=1, S_V=2, S_EMPTY=3, S_BREAK=4, S_CONT=5, S_RET=6, S_GOTO=7, S_CGOTO=8, S_IF=9, S_WHILE=10, S_DO=11,
             S_FOR=12, S_BLOCK=13, S_LABEL=14, S_SWITCH=15, S_CASE=16,
             E_C=32, E_C2=33, E_T=34, E_Z=35, E_AND=36, E_OR=37, E_COND=38, E_ELVIS=39, E_COMMA=40, E_NOT=41, E_STMT=42,
             E_CC=43, E_CL=44, E_CF=45, E_CD=46, E_CLD=47, E_CP=48, E_TRAP=49, S_TRAP=17)

    def __init__(self, tree, rows=None):
        self.rows = rows if rows is not None else []
        self.mark = 0
        self.label = 0
        self.nlabels = count_labels(tree)
        self.names = [nm or "L%d" % (j + 1) for j, nm in enumerate(label_names(tree))]
        self.pseudo = self.nlabels      # case labels get ids after the real labels
        self.uses_tab = False
        self.text, self.root, _ = self.stmt(tree)
        if self.pseudo > 30:
            raise ValueError("too many labels for the mask")

    def node(self, kind, a=0, b=0, c=(), lab=0):
        c = list(c) + [-1] * (4 - len(c))
        self.rows.append(ND.pack(self.K[kind], a, b, c[0], c[1], c[2], c[3], lab))
        return len(self.rows) - 1

    def m(self):
        self.mark += 1
        return self.mark

    def stmt(self, t):
        """returns (text, node index, label mask)"""
        k = t[0]
        if k == "T":
            n = self.m(); e = self.node("E_T", n)
            return "T(%d);" % n, self.node("S_EXPR", c=[e]), 0
        if k == "E": return ";", self.node("S_EMPTY"), 0
        if k == "brk": return "break;", self.node("S_BREAK"), 0
        if k == "cont": return "continue;", self.node("S_CONT"), 0
        if k == "ret": return "return;", self.node("S_RET"), 0
        if k == "X": return "gsink = *gnull;", self.node("S_TRAP"), 0
        if k == "goto": return "goto %s;" % self.names[t[1] - 1], self.node("S_GOTO", t[1]), 0
        if k == "cgoto":
            self.uses_tab = True
            return "goto *tab[SEL(%d)];" % self.nlabels, self.node("S_CGOTO", self.nlabels), 0
        if k == "V":
            et, en = self.expr(t[1])
            if etype(t[1]) == "ptr":
                et = "(long)" + et
            return "V(%s);" % et, self.node("S_V", c=[en]), 0
        if k == "swd":
            et, en = self.expr(t[1]); st, sn, sm = self.stmt(t[2])
            return "switch (%s) %s" % (et, st), self.node("S_SWITCH", c=[en, sn], lab=sm), sm
        if k == "case":
            self.pseudo += 1
            pid = self.pseudo
            st, sn, sm = self.stmt(t[2])
            cm = sm | (1 << pid)
            return ("default: %s" if t[1] == "d" else "case %d: %%s" % t[1]) % st, self.node("S_CASE", pid, -1 if t[1] == "d" else t[1], c=[sn], lab=cm), cm
        if k == "if":
            et, en = self.expr(t[1]); st, sn, sm = self.stmt(t[2])
            return "if (%s) %s" % (et, st), self.node("S_IF", c=[en, sn, -1], lab=sm), sm
        if k == "ife":
            et, en = self.expr(t[1]); st, sn, sm = self.stmt(t[2]); ut, un, um = self.stmt(t[3])
            if t[2][0] not in STMT_LEAVES and t[2][0] not in ("blk", "V"):
                st = "{ %s }" % st          # avoid the dangling else; the braces are a compound statement with one child
            return "if (%s) %s else %s" % (et, st, ut), self.node("S_IF", c=[en, sn, un], lab=sm | um), sm | um
        if k == "while":
            et, en = self.expr(t[1]); st, sn, sm = self.stmt(t[2])
            return "while (%s) %s" % (et, st), self.node("S_WHILE", c=[en, sn], lab=sm), sm
        if k == "do":
            st, sn, sm = self.stmt(t[1]); et, en = self.expr(t[2])
            return "do %s while (%s);" % (st, et), self.node("S_DO", c=[sn, en], lab=sm), sm
        if k == "for":
            v = t[1]
            it = ct = nt = ""
            i_n = c_n = n_n = -1
            if v:
                a = self.m(); i_n = self.node("E_T", a)
                it = ("int i = T(%d)" if v == 2 else "T(%d)") % a
            if t[2] is not None:
                ct, c_n = self.expr(t[2])
            if v:
                b = self.m(); n_n = self.node("E_T", b); nt = "T(%d)" % b
            st, sn, sm = self.stmt(t[3])
            return "for (%s; %s; %s) %s" % (it, ct, nt, st), self.node("S_FOR", v, c=[i_n, c_n, n_n, sn], lab=sm), sm
        if k == "blk":
            parts = [self.stmt(c) for c in t[1:]]
            mask = 0
            for p in parts: mask |= p[2]
            return "{ %s }" % " ".join(p[0] for p in parts), self.node("S_BLOCK", len(parts), c=[p[1] for p in parts], lab=mask), mask
        if k == "lab":
            self.label += 1
            j = self.label
            st, sn, sm = self.stmt(t[1])
            mask = sm | (1 << j)
            return "%s: %s" % (self.names[j - 1], st), self.node("S_LABEL", j, c=[sn], lab=mask), mask
        if k == "sw":
            et, en = self.expr(t[1])
            texts, nodes, mask = [], [], 0
            for lab, s in zip(t[2], t[3]):
                self.pseudo += 1
                pid = self.pseudo
                st, sn, sm = self.stmt(s)
                cm = sm | (1 << pid)
                nodes.append(self.node("S_CASE", pid, -1 if lab == "d" else lab, c=[sn], lab=cm))
                texts.append(("default: %s" if lab == "d" else "case %d: %%s" % lab) % st)
                mask |= cm
            body = self.node("S_BLOCK", len(nodes), c=nodes, lab=mask)
            return "switch (%s) { %s }" % (et, " ".join(texts)), self.node("S_SWITCH", c=[en, body], lab=mask), mask
        raise ValueError(k)

    def expr(self, t):
        k = t[0]
        if k == "C": return "C()", self.node("E_C")
        if k == "C2": return "C2()", self.node("E_C2")
        if k == "Te":
            n = self.m(); return "T(%d)" % n, self.node("E_T", n)
        if k == "Ze":
            n = self.m(); return "Z(%d)" % n, self.node("E_Z", n)
        if k in TYPED_LEAVES:
            return "%s()" % k, self.node("E_" + k.upper())
        if k in TRAP_TEXT:
            text, val, pol = TRAP_TEXT[k]
            return text, self.node("E_TRAP", val, -1 if pol is None else pol)
        if k in ("and", "or", "elvis", "comma"):
            at, an = self.expr(t[1]); bt, bn = self.expr(t[2])
            op = {"and": "&&", "or": "||", "elvis": "?:", "comma": ","}[k]
            return "(%s %s %s)" % (at, op, bt), self.node({"and": "E_AND", "or": "E_OR", "elvis": "E_ELVIS", "comma": "E_COMMA"}[k], c=[an, bn])
        if k == "not":
            at, an = self.expr(t[1]); return "!%s" % at, self.node("E_NOT", c=[an])
        if k == "cond":
            at, an = self.expr(t[1]); bt, bn = self.expr(t[2]); ct, cn = self.expr(t[3])
            return "(%s ? %s : %s)" % (at, bt, ct), self.node("E_COND", c=[an, bn, cn])
        if k == "se":
            sn = -1; st = ""
            if t[1] is not None:
                st, sn, sm = self.stmt(t[1])
            et, en = self.expr(t[2])
            return "({ %s %s; })" % (st, et), self.node("E_STMT", c=[sn, en])
        raise ValueError(k)

    def function(self, name):
        tab = ""
        if self.uses_tab:
            tab = "void *tab[%d] = {%s}; " % (self.nlabels, ", ".join("&&" + nm for nm in self.names))
        return "void %s(void) { %s%s }" % (name, tab, self.text)


def canon(t):
    """whitespace-free canonical C text of a tree (for signatures)"""
    nms = label_names(t)
    named = any(nms)
    s = Emit(name_labels(t, None) if named else t).text
    if named:
        s += "|labels:" + name_relations(nms)
    s = s.replace("gsink = *gnull", "gsink=*gnull").replace("(int)sizeof", "sizeof")
    s = s.replace("int i", "int_i").replace("goto ", "goto_").replace("case ", "case_").replace("else ", "else_")
    return "".join(s.split())


# ---- shrinking ------------------------------------------------------------------
def _children(t):
    """(path, subtree) for every node; a path is a tuple of indices"""
    yield (), t
    for i, c in enumerate(t[1:], 1):
        if isinstance(c, tuple) and c:
            if isinstance(c[0], str) and c[0] != "d":
                for p, s in _children(c):
                    yield (i,) + p, s
            elif isinstance(c[0], tuple):
                for j, x in enumerate(c):
                    for p, s in _children(x):
                        yield (i, j) + p, s


def _replace(t, path, new):
    if not path:
        return new
    i = path[0]
    c = t[i]
    if isinstance(c[0], tuple):
        j = path[1]
        c2 = c[:j] + (_replace(c[j], path[2:], new),) + c[j + 1:]
        return t[:i] + (c2,) + t[i + 1:]
    return t[:i] + (_replace(c, path[1:], new),) + t[i + 1:]


def _relabel(t):
    """after a structural change goto indices may dangle; keep only trees whose gotos are in range"""
    return t if valid(t) else None


def shrink_candidates(t):
    """strictly smaller valid trees obtained by one move: replace a statement by T / ; or by one of its statement
    children, replace an expression by C() or one of its expression operands, drop a switch section."""
    seen = set()
    out = []
    def add(x):
        if x is not None and x != t and x not in seen and valid(x):
            seen.add(x); out.append(x)
    for path, s in _children(t):
        if is_expr(s):
            if s[0] in ("C", "C2"):
                continue
            repl = [("C2",) if s[0] == "C2" else ("C",)]
            repl += [c for c in s[1:] if isinstance(c, tuple) and c and is_expr(c)]
            if s[0] in TRAP_TEXT:       # normalise operands: any -> the pure global, a trapping one -> the dereference of its polarity
                pol = TRAP_TEXT[s[0]][2]
                if s[0] != "G": repl.append(("G",))
                if pol is not None and s[0] != "Dp%d" % pol: repl.append(("Dp%d" % pol,))
        else:
            if s[0] == "T":
                continue
            repl = [("T",)]
            for c in s[1:]:
                if isinstance(c, tuple) and c:
                    if isinstance(c[0], str) and c[0] != "d" and not is_expr(c):
                        repl.append(c)
                    elif isinstance(c[0], tuple):
                        repl += list(c)
            if s[0] == "sw" and len(s[2]) > 1:
                for j in range(len(s[2])):
                    repl.append(("sw", s[1], s[2][:j] + s[2][j + 1:], s[3][:j] + s[3][j + 1:]))
            if s[0] == "blk" and len(s) == 4:
                for j in (1, 2, 3):
                    repl.append(s[:j] + s[j + 1:])
            if s[0] == "for" and s[1] > 0:
                repl.append(("for", 0, s[2], s[3]) if s[2] is not None else ("for", 1, ("C",), s[3]))
            if s[0] == "ife":
                repl.append(("if", s[1], s[2]))
        for r in repl:
            try:
                cand = _replace(t, path, r)
            except Exception:
                continue
            # a removed label shifts label numbering: renumber gotos conservatively by validity only
            add(cand)
    out.sort(key=lambda x: (size(x), canon(x)))
    return out
