int (*f(void))[3] { static int a[3]; return &a; }
int (*(*g)(void))[3] = f;
char *(*h[2])(int);
