int f(int x) {
  switch (x) {
  case 0: return 1;
  case 1 ... 3: x++; break;
  default: x = 9;
  }
  return x;
}
