enum { A = 7 % 0 };
