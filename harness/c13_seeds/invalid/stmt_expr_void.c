int f(void) { return ({ ; }); }
