#else
