struct S { long a; };
struct S f(struct S s) { return s; }
long h(void) { struct {} s = {}; return f(s).a; }
