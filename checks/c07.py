"""C07 translation-time constant evaluation equals run-time evaluation.

Every constant expression of the bounded grammar (all integer operators x all 81 operand type pairs x threshold value
tuples; unary operators; casts among the 12 arithmetic types; ?: ; two-operator compositions; floating folding) is
placed (a) in a static initializer, (b) as ordinary code in a function of the same unit and, through a fixed range
adapter, in every other constant-demanding position (array bound, local static array bound, case label, enumerator,
bit-field width, _Alignas, array designator index).  Folded value == run-time value == gcc twin == models/cint.py.
Constant division by zero must give a located diagnostic, never a signal.
"""
import os, re, struct
from vlib import core, twin
from models import cint
from models.cint import TN, TYPES, SIZE, UNS, ev, text

LEVEL = "exploration"
BUDGET = {"quick": 900, "thorough": 3600}     # deadlines, not expected times (a loaded machine is 5-8x slower)
BINOPS = ["+", "-", "*", "/", "%", "&", "|", "^", "<<", ">>", "<", "<=", ">", ">=", "==", "!=", "&&", "||"]
UNOPS = ["-", "~", "!", "+"]
GENERIC = "_Bool:0, char:1, short:2, int:3, long:4, unsigned char:5, unsigned short:6, unsigned int:7, unsigned long:8, default:99"
POSITIONS = ["array-bound", "local-static-array-bound", "case-label", "enumerator", "bitfield-width", "alignas", "designator-index",
             "case-label-of-narrow-switch"]


def values(t, kind):
    lo, hi = cint.tmin(t), cint.tmax(t)
    if kind == "pair":
        base = [0, 1, 2, 3, 7, 31, 32, 63, 64, 127, 128, 255, 256, 32767, 32768, 65535, 65536, 2147483647, 2147483648,
                4294967295, 4294967296, lo, lo + 1, hi, hi - 1, -1, -2, -128, -129, -32768, -32769, -2147483648, -2147483649]
    elif kind == "one":
        base = list(range(-3, 70)) + [lo, lo + 1, lo + 2, hi, hi - 1, hi - 2]
        for p in (7, 8, 15, 16, 31, 32, 63):
            base += [(1 << p) - 1, 1 << p, (1 << p) + 1, -(1 << p) - 1, -(1 << p), -(1 << p) + 1]
    else:  # tiny
        base = [0, 1, -1, 2, lo, hi, 31, 255, 65536]
    return sorted(set(v for v in base if lo <= v <= hi))


def K(v, t): return ("const", v, t)


def gen_int_cases(tier):
    out = []
    T = range(9)
    for op in BINOPS:
        for a in T:
            for b in T:
                for x in values(a, "pair"):
                    for y in values(b, "pair"):
                        out.append(("bin/%s/%s,%s" % (op, TN[a], TN[b]), ("bin", op, K(x, a), K(y, b))))
    for op in UNOPS:
        for a in T:
            for x in values(a, "one"):
                out.append(("un/%s/%s" % (op, TN[a]), ("un", op, K(x, a))))
    for d in T:
        for s in T:
            for x in values(s, "one"):
                out.append(("cast/%s<-%s" % (TN[d], TN[s]), ("cast", d, K(x, s))))
    for a in T:
        for b in T:
            for c in (0, 1, -1):
                for x in values(a, "tiny")[:4]:
                    for y in values(b, "tiny")[-3:]:
                        out.append(("cond/%s,%s" % (TN[a], TN[b]), ("cond", K(c, 3), K(x, a), K(y, b))))
    # operands that are not evaluated may divide by zero (6.6p3 footnote: only evaluated operands count)
    DZ = [("bin", "/", K(1, 3), K(0, 3)), ("bin", "%", K(7, 4), K(0, 4)), ("bin", "/", K(5, 7), ("bin", "-", K(2, 7), K(2, 7)))]
    for dz in DZ:
        for t in (3, 4, 7, 8):
            out.append(("uneval/&&/%s" % TN[t], ("bin", "&&", K(0, t), dz)))
            out.append(("uneval/||/%s" % TN[t], ("bin", "||", K(1, t), dz)))
            out.append(("uneval/?:then/%s" % TN[t], ("cond", K(0, t), dz, K(2, 3))))
            out.append(("uneval/?:else/%s" % TN[t], ("cond", K(1, t), K(2, 3), dz)))
            out.append(("uneval/nested/%s" % TN[t], ("bin", "&&", K(0, t), ("bin", "||", K(0, 3), dz))))
            out.append(("uneval/sum/%s" % TN[t], ("bin", "+", ("bin", "||", K(1, t), dz), K(3, 3))))
    # two-operator compositions over rank-representative types
    R = [1, 3, 7, 4, 8] if tier == "quick" else [1, 6, 3, 7, 4, 8]
    ops2 = BINOPS if tier == "thorough" else ["+", "-", "*", "/", "%", "&", "<<", ">>", "<", "==", "&&"]
    tv = {t: [v for v in (cint.tmax(t), 1, cint.tmin(t) if not UNS[t] else 3, 2) ][:3] for t in T}
    for o1 in ops2:
        for o2 in ops2:
            for a in R:
                for b in R:
                    for c in R:
                        for i, (x, y, z) in enumerate(((tv[a][0], tv[b][1], tv[c][2]), (tv[a][2], tv[b][0], tv[c][1]), (tv[a][1], tv[b][2], tv[c][0]))):
                            out.append(("comp/%s/%s/%s,%s,%s" % (o1, o2, TN[a], TN[b], TN[c]), ("bin", o2, ("bin", o1, K(x, a), K(y, b)), K(z, c))))
                            if tier == "thorough":
                                out.append(("compr/%s/%s/%s,%s,%s" % (o1, o2, TN[a], TN[b], TN[c]), ("bin", o1, K(x, a), ("bin", o2, K(y, b), K(z, c)))))
    for u in UNOPS:
        for o in ops2:
            for a in R:
                for b in R:
                    for (x, y) in ((tv[a][0], tv[b][1]), (tv[a][2], tv[b][0]), (tv[a][1], tv[b][2])):
                        out.append(("un-of-bin/%s/%s/%s,%s" % (u, o, TN[a], TN[b]), ("un", u, ("bin", o, K(x, a), K(y, b)))))
                        out.append(("bin-of-un/%s/%s/%s,%s" % (o, u, TN[a], TN[b]), ("bin", o, ("un", u, K(x, a)), K(y, b))))
    for d in T:
        for o in ops2[:8]:
            for a in R:
                for b in R:
                    for (x, y) in ((tv[a][0], tv[b][1]), (tv[a][2], tv[b][0])):
                        out.append(("cast-of-bin/%s/%s/%s,%s" % (TN[d], o, TN[a], TN[b]), ("cast", d, ("bin", o, K(x, a), K(y, b)))))
    return out


# ---- floating folding ----------------------------------------------------
FT = ["float", "double", "long double"]
FSUF = ["f", "", "L"]
FCONST = ["0.1", "0.5", "1.0", "3.0", "1e10", "16777216.0", "16777217.0", "0.3", "1e-10", "2.5", "1.5", "0.0", "9007199254740993.0", "4294967296.0", "2147483648.0", "1e19"]


def gen_float_cases(tier):
    """(cid, expr text, dest kinds) ; dest kinds subset of 'fdlI' (float/double/long double/long)."""
    out = []
    cs = [(c + s, i) for c in FCONST for i, s in enumerate(FSUF)]
    sm = [(c + s, i) for c in ("0.1", "3.0", "16777217.0", "1.5", "1e10") for i, s in enumerate(FSUF)]
    for op in "+-*/":
        for (a, ta) in sm:
            for (b, tb) in sm:
                if op == "/" and float(b.rstrip("fL")) == 0.0:
                    continue
                out.append(("f/bin/%s/%s,%s" % (op, FT[ta], FT[tb]), "(%s %s %s)" % (a, op, b), "fdl"))
    for op in ("<", "<=", ">", ">=", "==", "!=", "&&", "||"):
        for (a, ta) in sm:
            for (b, tb) in sm[::2]:
                out.append(("f/cmp/%s/%s,%s" % (op, FT[ta], FT[tb]), "(%s %s %s)" % (a, op, b), "I"))
    for (a, ta) in cs:
        out.append(("f/neg/%s" % FT[ta], "(-%s)" % a, "fdl"))
        out.append(("f/not/%s" % FT[ta], "(!%s)" % a, "I"))
        out.append(("f/cond/%s" % FT[ta], "(%s ? 1.25 : 2)" % a, "d"))
        out.append(("f/condarm/%s" % FT[ta], "(1 ? %s : 2)" % a, "fdl"))
        for d in range(3):
            out.append(("f/cast/%s<-%s" % (FT[d], FT[ta]), "((%s)%s)" % (FT[d], a), "fdl"))
        v = float(a.rstrip("fL"))
        for t in range(9):
            tr = int(v)
            if t == 0 or cint.fits(tr, t):
                out.append(("f/cast/%s<-%s" % (TN[t], FT[ta]), "((%s)%s)" % (TYPES[t], a), "I"))
    # special values made by constant arithmetic: NaN, infinities, negative zero; every comparison and logical operator in
    # both operand orders (an unordered comparison is false except !=), arithmetic, truth value, conversions between the types
    spec = [(t.replace("%s", sfx), i) for i, sfx in enumerate(FSUF) for t in ("(0.0%s/0.0%s)", "(-(0.0%s/0.0%s))", "(1.0%s/0.0%s)", "(-1.0%s/0.0%s)", "(-0.0%s)", "(1e300%s*1e300%s)")
            if not (i == 0 and t.startswith("(1e300"))]
    spec += [("(1e30f*1e30f)", 0)]
    norm = [("1.0", 1), ("0.0", 1), ("-1.5f", 0), ("2.0L", 2)]
    for op in ("<", "<=", ">", ">=", "==", "!=", "&&", "||"):
        for (a, ta) in spec:
            for (b, tb) in spec[::3] + norm:
                out.append(("f/special-cmp/%s/%s,%s" % (op, FT[ta], FT[tb]), "(%s %s %s)" % (a, op, b), "I"))
                out.append(("f/special-cmp/%s/%s,%s" % (op, FT[tb], FT[ta]), "(%s %s %s)" % (b, op, a), "I"))
    for (a, ta) in spec:
        out.append(("f/special/not/%s" % FT[ta], "(!%s)" % a, "I"))
        out.append(("f/special/cond/%s" % FT[ta], "(%s ? 3 : 4)" % a, "I"))
        out.append(("f/special/neg/%s" % FT[ta], "(-%s)" % a, "fdl"))
        for d in range(3):
            out.append(("f/special/cast/%s<-%s" % (FT[d], FT[ta]), "((%s)%s)" % (FT[d], a), "fdl"))
        for op in "+-*/":
            for (b, tb) in spec[::4] + norm[:2]:
                out.append(("f/special-bin/%s/%s,%s" % (op, FT[ta], FT[tb]), "(%s %s %s)" % (a, op, b), "fdl"))
    # double arithmetic folded in a wider format and rounded twice is off by one ulp for about 1 in 2000 operand pairs:
    # a dense family of quotients and products makes that visible (and checks FLT_EVAL_METHOD 0 folding in general)
    nb = 200 if tier == "quick" else 500
    for a in range(1, 41):
        for b in range(2001, 2001 + 2 * nb, 2):
            out.append(("f/dense/div/double", "(%d.0 / %d.0)" % (a, b), "d"))
    for a in range(1, 41):
        for b in range(1, nb // 2):
            out.append(("f/dense/mul/double", "(0.%03d * %d.%d)" % (a * 7 + 1, b % 17 + 1, b), "d"))
            out.append(("f/dense/add/double", "(0.%03d + %d.%de-3)" % (a * 7 + 1, b % 17 + 1, b), "d"))
    # a narrowing conversion under another conversion must still round (cast chains, casts as operands)
    src = [(c + sfx, i) for c in ("0.1", "16777217.0", "33554433.0", "9007199254740993.0", "0.3", "1e10", "1.0000000596046448") for i, sfx in enumerate(FSUF)]
    src += [(cint.lit(v, t), 9) for v, t in ((16777217, 3), (33554433, 3), (9007199254740993, 4), (18446744073709551615, 8), (-16777217, 3))]
    for (a, ta) in src:
        for d1 in range(3):
            for d2 in range(3):
                out.append(("f/castchain/%s<-%s<-%s" % (FT[d2], FT[d1], FT[ta] if ta < 3 else "int"), "((%s)(%s)%s)" % (FT[d2], FT[d1], a), "fdl"))
            out.append(("f/cast-eq/%s/%s" % (FT[d1], FT[ta] if ta < 3 else "int"), "(((%s)%s) == %s)" % (FT[d1], a, a), "I"))
            out.append(("f/cast-plus/%s/%s" % (FT[d1], FT[ta] if ta < 3 else "int"), "(((%s)%s) + 1.0)" % (FT[d1], a), "dl"))
            out.append(("f/cast-times/%s/%s" % (FT[d1], FT[ta] if ta < 3 else "int"), "(((%s)%s) * 1.0L)" % (FT[d1], a), "l"))
            out.append(("f/cast-bound/%s/%s" % (FT[d1], FT[ta] if ta < 3 else "int"), "((((%s)%s) == %s) + 2)" % (FT[d1], a, a), "I"))
    ints = [(cint.lit(v, t), t) for t in range(9) for v in values(t, "tiny")]
    ints += [(cint.lit(v, t), t) for t in (3, 4, 7, 8) for v in (16777217, 2147483647, 4294967295, 9007199254740993, 9223372036854775807, 18446744073709551615, -16777217, -9007199254740993) if cint.fits(v, t)]
    for (s, t) in ints:
        for d in range(3):
            out.append(("f/cast/%s<-%s" % (FT[d], TN[t]), "((%s)%s)" % (FT[d], s), "fdl"))
            out.append(("f/implicit/%s<-%s" % (FT[d], TN[t]), s, "fdl"[d]))
        for (b, tb) in sm[:6]:
            out.append(("f/mixed/+/%s,%s" % (TN[t], FT[tb]), "(%s + %s)" % (s, b), "fdl"))
            out.append(("f/mixed/div/%s,%s" % (FT[tb], TN[t]), "(%s * %s)" % (b, s), "fdl"))
    return out


# ---- unit construction -----------------------------------------------------
def adapter(e): return "(((%s) & 15) + 1)" % e


def build_int_batch(cases, with_types=True):
    """cases: [(cid, tree, want_long, want_type)]"""
    u = []
    E = [text(t) for _, t, _, _ in cases]
    u.append("long FN(st)[] = {%s};" % ",\n".join(E))
    u.append("int FN(ty)[] = {%s};" % ",\n".join("_Generic(%s, %s)" % (e, GENERIC) for e in E))
    u.append("void FN(rt)(long *out) {\n%s\n}" % "\n".join("out[%d] = %s;" % (i, e) for i, e in enumerate(E)))
    d = ["#include <stdio.h>", "extern long cc_st[], ref_st[]; extern int cc_ty[], ref_ty[]; void cc_rt(long*), ref_rt(long*);",
         "static const long want[] = {%s};" % ",".join(cl(w) for _, _, w, _ in cases),
         "static const int wty[] = {%s};" % ",".join(str(t) for _, _, _, t in cases),
         "static long a[%d], b[%d];" % (len(cases), len(cases)),
         "int main(void) { int n = %d; cc_rt(a); ref_rt(b);" % len(cases),
         " for (int i = 0; i < n; i++) {",
         "  if (ref_st[i] != want[i] || b[i] != want[i] || ref_ty[i] != wty[i]) { printf(\"O %d ref_st=%ld ref_rt=%ld want=%ld ty=%d/%d\\n\", i, ref_st[i], b[i], want[i], ref_ty[i], wty[i]); continue; }",
         "  if (cc_st[i] != want[i]) printf(\"V %d fold got=%ld want=%ld rt=%ld\\n\", i, cc_st[i], want[i], a[i]);",
         "  else if (a[i] != want[i]) printf(\"V %d rt got=%ld want=%ld\\n\", i, a[i], want[i]);",
         "  if (cc_ty[i] != wty[i]) printf(\"T %d got=%d want=%d\\n\", i, cc_ty[i], wty[i]);",
         " } return 0; }"]
    return "\n".join(u) + "\n", "\n".join(d) + "\n"


def cl(v):
    v = cint.conv(v, 4)
    return "(-9223372036854775807L-1)" if v == -(1 << 63) else "%dL" % v


def build_pos_batch(cases):
    """Each case placed in every other constant-demanding position through the adapter. cases: [(cid, tree, w)] w = adapted value 1..16"""
    u, d = [], ["#include <stdio.h>"]
    n = len(cases)
    for i, (cid, tree, w) in enumerate(cases):
        A = adapter(text(tree))
        u.append("char FN(ab%d)[%s];" % (i, A))
        u.append("long FN(lsab%d)(void) { static char a[%s]; return sizeof(a); }" % (i, A))
        u.append("int FN(sw%d)(long v) { switch (v) { case %s: return 1; case 40: return 2; } return 0; }" % (i, A))
        u.append("int FN(swn%d)(unsigned char v) { switch (v) { case %s + 256: return 1; case 40: return 2; } return 0; }" % (i, A))
        u.append("enum { FN(en%d) = %s };" % (i, A))
        u.append("struct FN(bf%d) { unsigned long f : %s; };" % (i, A))
        u.append("long FN(bfw%d)(void) { struct FN(bf%d) s; s.f = -1; return s.f; }" % (i, i))
        u.append("struct FN(al%d) { char c; _Alignas(1 << ((%s) & 3)) char d; };" % (i, text(tree)))
        u.append("char FN(ad%d)[20] = { [%s] = 7 };" % (i, A))
    u.append("long FN(pos)[][8] = {%s};" % ",\n".join(
        "{sizeof(FN(ab%d)), 0, 0, FN(en%d), 0, sizeof(struct FN(al%d)), 0, 0}" % (i, i, i) for i in range(n)))
    u.append("void FN(posrt)(long (*o)[8]) {\n%s\n}" % "\n".join(
        "o[%d][1] = FN(lsab%d)(); o[%d][2] = FN(sw%d)(%d) * 10 + FN(sw%d)(%d); o[%d][4] = FN(bfw%d)(); "
        "{ int k; for (k = 0; k < 20 && FN(ad%d)[k] != 7; k++); o[%d][6] = k; } o[%d][7] = FN(swn%d)(%d);" % (i, i, i, i, w, i, w + 1 if w + 1 != 40 else 41, i, i, i, i, i, i, w)
        for i, (cid, tree, w) in enumerate(cases)))
    d.append("extern long cc_pos[][8], ref_pos[][8]; void cc_posrt(long (*)[8]), ref_posrt(long (*)[8]);")
    d.append("static const long want[][8] = {%s};" % ",".join(
        "{%d,%d,10,%d,%d,%d,%d,0}" % (w, w, w, (1 << w) - 1, 2 * (1 << al), w) for (cid, tree, w), al in cases_al(cases)))
    d.append("static long a[%d][8], b[%d][8];" % (n, n))
    d.append("int main(void) { int n = %d; cc_posrt(a); ref_posrt(b);" % n)
    d.append(" for (int i = 0; i < n; i++) for (int p = 0; p < 8; p++) { long c = (p == 0 || p == 3 || p == 5) ? cc_pos[i][p] : a[i][p], r = (p == 0 || p == 3 || p == 5) ? ref_pos[i][p] : b[i][p];")
    d.append("  if (r != want[i][p]) { printf(\"O %d %d ref=%ld want=%ld\\n\", i, p, r, want[i][p]); continue; }")
    d.append("  if (c != want[i][p]) printf(\"P %d %d got=%ld want=%ld\\n\", i, p, c, want[i][p]); }")
    d.append(" return 0; }")
    return "\n".join(u) + "\n", "\n".join(d) + "\n"


def cases_al(cases):
    for c in cases:
        v, t, _ = ev(c[1])
        a, _, _ = cint.binop("&", (v, t), (3, 3))
        yield c, a


def build_float_batch(cases):
    u, d = [], ["#include <stdio.h>", "#include <string.h>"]
    groups = {"f": "float", "d": "double", "l": "long double", "I": "long"}
    idx = {k: [] for k in groups}
    for i, (cid, e, dests) in enumerate(cases):
        for k in dests:
            idx[k].append(i)
    for k, ty in groups.items():
        es = [cases[i][1] for i in idx[k]] or ["0"]
        u.append("%s FN(fst_%s)[] = {%s};" % (ty, k, ",\n".join(es)))
        u.append("void FN(frt_%s)(%s *out) {\n%s\n}" % (k, ty, "\n".join("out[%d] = %s;" % (j, e) for j, e in enumerate(es))))
        n = len(es)
        d.append("extern %s cc_fst_%s[], ref_fst_%s[]; void cc_frt_%s(%s*), ref_frt_%s(%s*); static %s a_%s[%d], b_%s[%d];" % (ty, k, k, k, ty, k, ty, ty, k, n, k, n))
    d.append("static int same(const void *x, const void *y, int n, int isnan_x, int isnan_y) { if (isnan_x && isnan_y) return 1; return !memcmp(x, y, n); }")
    d.append("static void hex(const void *p, int n) { for (int i = n - 1; i >= 0; i--) printf(\"%02x\", ((const unsigned char *)p)[i]); }")
    d.append("int main(void) {")
    for k, ty in groups.items():
        n = max(1, len(idx[k]))
        nb = {"f": 4, "d": 8, "l": 10, "I": 8}[k]
        nan = "(x != x)" if k != "I" else "0"
        d.append(" cc_frt_%s(a_%s); ref_frt_%s(b_%s);" % (k, k, k, k))
        d.append(" for (int i = 0; i < %d; i++) {" % n)
        d.append("  %s rs = ref_fst_%s[i], rr = b_%s[i], cs = cc_fst_%s[i], cr = a_%s[i];" % (ty, k, k, k, k))
        d.append("  #define NANP(x) %s" % nan)
        d.append("  if (!same(&rs, &rr, %d, NANP(rs), NANP(rr))) { printf(\"O %s %%d\\n\", i); continue; }" % (nb, k))
        d.append("  if (!same(&cs, &rs, %d, NANP(cs), NANP(rs))) { printf(\"F %s %%d fold got=\", i); hex(&cs, %d); printf(\" want=\"); hex(&rs, %d); printf(\" rt=\"); hex(&cr, %d); printf(\"\\n\"); }" % (nb, k, nb, nb, nb))
        d.append("  else if (!same(&cr, &rs, %d, NANP(cr), NANP(rs))) { printf(\"F %s %%d rt got=\", i); hex(&cr, %d); printf(\" want=\"); hex(&rs, %d); printf(\"\\n\"); }" % (nb, k, nb, nb))
        d.append("  #undef NANP")
        d.append(" }")
    d.append(" return 0; }")
    return "\n".join(u) + "\n", "\n".join(d) + "\n", idx


def gen_sbf_cases():
    """static initializers of bit-field members: (cid, base type, width, expression text)"""
    out = []
    vals = ["0x123456789a", "-1", "0x7fffffff", "0x80000000", "0xffffffffff", "1", "0x5555555555555555", "-0x123456789aL", "(1L << 62) + 5", "255"]
    for base, maxw in (("long", 64), ("unsigned long", 64), ("int", 32), ("unsigned", 32), ("short", 16), ("unsigned char", 8)):
        for w in (1, 7, 8, 15, 16, 31, 32, 33, 40, 63, 64):
            if w > maxw:
                continue
            for v in vals:
                out.append(("sbf/%s:%d" % (base.replace(" ", ""), w), base, w, v))
    return out


def build_sbf_batch(cases):
    u, d = [], ["#include <stdio.h>"]
    for i, (cid, base, w, v) in enumerate(cases):
        u.append("struct FN(sb%d) { char lead; %s f : %d; %s g : 3; };" % (i, base, w, "unsigned" if "unsigned" in base else "int"))
        u.append("struct FN(sb%d) FN(sbv%d) = { 1, %s, 2 };" % (i, i, v))
        # (the field is copied to a long first: arithmetic directly on a bit-field wider than int is implementation-defined)
        u.append("long FN(sbs%d)(void) { long f = FN(sbv%d).f, g = FN(sbv%d).g; return (f ^ (f >> 7)) * 8 + (g & 7); }" % (i, i, i))
        u.append("long FN(sbr%d)(void) { struct FN(sb%d) s; s.lead = 1; s.f = %s; s.g = 2; long f = s.f, g = s.g; return (f ^ (f >> 7)) * 8 + (g & 7); }" % (i, i, v))
        d.append("long cc_sbs%d(void), cc_sbr%d(void), ref_sbs%d(void), ref_sbr%d(void);" % (i, i, i, i))
    d.append("int main(void) {")
    for i in range(len(cases)):
        d.append(" { long rs = ref_sbs%d(), rr = ref_sbr%d(), cs = cc_sbs%d(), cr = cc_sbr%d();" % (i, i, i, i))
        d.append("   if (rs != rr) printf(\"O %d\\n\"); else if (cs != rs) printf(\"B %d fold got=%%ld want=%%ld rt=%%ld\\n\", cs, rs, cr); else if (cr != rs) printf(\"B %d rt got=%%ld want=%%ld\\n\", cr, rs); }" % (i, i, i))
    d.append(" return 0; }")
    return "\n".join(u) + "\n", "\n".join(d) + "\n"


class _C:
    chibicc = None


def _run(args):
    chibicc, wd, name, kind, cases = args
    c = _C(); c.chibicc = chibicc
    idx = None
    if kind == "int":
        unit, drv = build_int_batch(cases)
    elif kind == "pos":
        unit, drv = build_pos_batch(cases)
    elif kind == "sbf":
        unit, drv = build_sbf_batch(cases)
    else:
        unit, drv, idx = build_float_batch(cases)
    res = twin.twin_run(c, wd, name, unit, drv, run_timeout=300)
    return name, kind, res, idx


def _compiles(chibicc, wd, kind, cases):
    c = _C(); c.chibicc = chibicc
    unit = (build_int_batch(cases)[0] if kind == "int" else build_pos_batch(cases)[0] if kind == "pos" else
            build_sbf_batch(cases)[0] if kind == "sbf" else build_float_batch(cases)[0])
    p = os.path.join(wd, "bis.c")
    with open(p, "w") as f:
        f.write(twin.PRELUDE + unit)
    ok, stage, st, err = twin.cc_compile(c, p, os.path.join(wd, "bis.o"), ["-DPFX=cc_"], cwd=wd)
    return ok, stage, st, err, twin.PRELUDE + unit


def bisect(chibicc, wd, kind, cases, limit=60):
    bad, stack, n = [], [cases], 0
    while stack and n < limit:
        cs = stack.pop(); n += 1
        ok, stage, st, err, src = _compiles(chibicc, wd, kind, cs)
        if ok:
            continue
        if len(cs) == 1:
            bad.append((cs[0], stage, st, err, src))
        else:
            stack += [cs[len(cs) // 2:], cs[:len(cs) // 2]]
    return bad


def cls_of(cid):
    return cid


REPLAY = ("$CHIBICC -DPFX=cc_ -c -o cc.o unit.c || exit 1\n"
          "gcc -O0 -fwrapv -fno-pie -w -DPFX=ref_ -c -o ref.o unit.c || exit 0\n"
          "gcc -O1 -w -fno-pie -no-pie -o drv driver.c cc.o ref.o -Wl,-z,noexecstack || exit 0\n"
          "./drv | grep -q '^[VTPF] ' && exit 1\nexit 0")


def single(kind, case):
    if kind == "int":
        u, d = build_int_batch([case])
    elif kind == "pos":
        u, d = build_pos_batch([case])
    elif kind == "sbf":
        u, d = build_sbf_batch([case])
    else:
        u, d, _ = build_float_batch([case])
    return {"unit.c": twin.PRELUDE + u, "driver.c": d}


def run(ctx):
    raw = gen_int_cases(ctx.tier)
    icases, skipped = [], 0
    seen = set()
    for cid, tree in raw:
        key = text(tree)
        if key in seen:
            continue
        seen.add(key)
        v, t, d = ev(tree)
        if not d:
            skipped += 1
            continue
        icases.append((cid, tree, v, t))
    # position cases: first 3 defined value tuples of every size-1 class
    pos, cnt = [], {}
    for cid, tree, v, t in icases:
        if cid.startswith("comp") or cid.startswith("cast-of") or cid.startswith("un-of") or cid.startswith("bin-of"):
            if cnt.get(cid, 0) >= 1:
                continue
        if cnt.get(cid, 0) >= 3:
            continue
        cnt[cid] = cnt.get(cid, 0) + 1
        w = cint.binop("+", cint.binop("&", (v, t), (15, 3))[:2], (1, 3))[0]
        pos.append((cid, tree, w))
    fcases = gen_float_cases(ctx.tier)
    jobs = []
    for i, b in enumerate(core.chunks(icases, 2500)):
        jobs.append((ctx.chibicc, os.path.join(ctx.work, "i%d" % i), "i%d" % i, "int", b))
    for i, b in enumerate(core.chunks(pos, 400)):
        jobs.append((ctx.chibicc, os.path.join(ctx.work, "p%d" % i), "p%d" % i, "pos", b))
    for i, b in enumerate(core.chunks(fcases, 1500)):
        jobs.append((ctx.chibicc, os.path.join(ctx.work, "f%d" % i), "f%d" % i, "flt", b))
    sbf = gen_sbf_cases()
    for i, b in enumerate(core.chunks(sbf, 300)):
        jobs.append((ctx.chibicc, os.path.join(ctx.work, "s%d" % i), "s%d" % i, "sbf", b))
    jobmap = {j[2]: j for j in jobs}
    judged = odis = 0
    classes = set()
    done = 0
    for grp in core.chunks(jobs, core.NPROC * 2):
        if ctx.out_of_time(reserve=45):
            ctx.incomplete("deadline: %d of %d batches finished" % (done, len(jobs)))
            break
        for name, kind, res, idx in core.pmap(_run, grp):
            done += 1
            cases = jobmap[name][4]
            if res["status"] == "harness":
                raise core.HarnessError("reference side failed in %s (%s): %s" % (name, res["stage"], res["stderr"][-1500:]))
            if res["status"] == "cc-fail":
                for c, stage, st, err, src in bisect(ctx.chibicc, ctx.mkdir("bis_" + name), kind, cases):
                    first = (err.strip().splitlines() or [""])[0][-160:]
                    how = "signal%d" % -st if isinstance(st, int) and st < 0 else "%s-rejects" % stage
                    ctx.violation("C07|%s|%s|%s" % ("position" if kind == "pos" else "fold", c[0], how),
                                  "valid constant expression %s: %s (%s)" % (how, c[1] if kind == "flt" else text(c[1]), first),
                                  files={"unit.c": src}, replay="$CHIBICC -DPFX=cc_ -c -o cc.o unit.c && exit 0; exit 1")
                continue
            if res["code"] != 0:
                raise core.HarnessError("driver crashed in %s: %s %s" % (name, res["code"], res["stderr"][-300:]))
            judged += len(cases) * (8 if kind == "pos" else 1)
            for c in cases:
                classes.add(c[0])
            for line in res["stdout"].splitlines():
                f = line.split()
                if f[0] == "O":
                    if kind == "sbf":      # gcc's static and run-time values differ (out-of-range signed conversion): not judged
                        ctx.cover(sbf_not_judged=1)
                        continue
                    odis += 1
                    ctx.sample({"oracle_disagreement": line, "case": str(cases[int(f[2] if kind == "flt" else f[1])][:2])}, limit=10)
                elif f[0] in ("V", "T"):
                    c = cases[int(f[1])]
                    if f[0] == "T":
                        dev = "%s,%s" % (f[2], f[3])
                    else:
                        g, w = int(f[3][4:]), int(f[4][5:])
                        dev = ("zext32" if g == (w & 0xffffffff) else "sext32" if g == cint.conv(w, 3) else "trunc-to-bool" if g in (0, 1) and w not in (0, 1)
                               else "bool-inverted" if {g, w} == {0, 1} else "other")
                    sig = "C07|%s|%s|%s" % ("type" if f[0] == "T" else f[2], c[0], dev)
                    ctx.violation(sig, "%s: %s -> %s" % (c[0], text(c[1]), line), files=single("int", c), replay=REPLAY)
                elif f[0] == "P":
                    c = cases[int(f[1])]
                    p = POSITIONS[int(f[2])]
                    ctx.violation("C07|position:%s|%s|%s,%s" % (p, c[0], f[3], f[4]), "%s in %s: %s -> %s" % (c[0], p, adapter(text(c[1])), line),
                                  files=single("pos", c), replay=REPLAY)
                elif f[0] == "B":
                    c = cases[int(f[1])]
                    ctx.violation("C07|static-bitfield-%s|%s" % (f[2], c[0]), "%s: static initializer %s of a %s bit-field of width %d -> %s" % (c[0], c[3], c[1], c[2], line),
                                  files=single("sbf", c), replay=REPLAY.replace("[VTPF]", "[VTPFB]"))
                elif f[0] == "F":
                    k, j = f[1], int(f[2])
                    c = cases[idx[k][j]]
                    ctx.violation("C07|float-%s|%s|dest=%s" % (f[3], c[0], k), "%s: %s as %s -> %s" % (c[0], c[1], k, line),
                                  files=single("flt", (c[0], c[1], k)), replay=REPLAY)
    # ---- division by zero in constant expressions must be diagnosed -----
    dz = ["1/0", "1%0", "5/(2-2)", "7%(0*3)", "1L/0", "1U%0", "(char)1/0", "1/0L", "1/(1>2)", "0/0"]
    ub = ["(-9223372036854775807L-1)/-1", "(-9223372036854775807L-1)%-1", "(-2147483647-1)/-1"]
    forms = {"static-init": "long g = %s;", "array-bound": "char g[(%s) + 1];", "case-label": "int f(int v) { switch (v) { case %s: return 1; } return 0; }",
             "enumerator": "enum { g = %s };", "bitfield-width": "struct s { int f : (%s) + 1; };", "alignas": "_Alignas((%s) + 4) char g;",
             "designator": "int g[4] = { [%s] = 1 };", "local-static": "int f(void) { static int g = %s; return g; }"}
    wd = ctx.mkdir("dz")
    ndz = 0
    for e in dz + ub:
        for pname, form in forms.items():
            src = os.path.join(wd, "z.c")
            with open(src, "w") as f:
                f.write("\n\n" + form % e + "\n")
            st, out, err = ctx.cc1(src, os.path.join(wd, "z.s"))
            ndz += 1
            first = (err.splitlines() or [""])[0]
            located = re.match(r".*z\.c:3: ", first) is not None
            files = {"z.c": "\n\n" + form % e + "\n"}
            rp = "$CHIBICC -cc1 -cc1-input z.c -cc1-output z.s z.c 2>err.txt; rc=$?; "
            if isinstance(st, int) and st < 0 or st == "timeout":
                ctx.violation("C07|divzero|%s|%s|%s" % (pname, "zero" if e in dz else "min/-1", "signal%s" % (-st if isinstance(st, int) else st)),
                              "constant expression %s in %s kills the compiler (%s)" % (e, pname, st), files=files, replay=rp + "[ $rc -gt 128 ] && exit 1; exit 0")
            elif e in dz and (st == 0 or not located):
                ctx.violation("C07|divzero|%s|%s" % (pname, "accepted" if st == 0 else "unlocated-diagnostic"),
                              "division by zero in %s: %s -> status %s, stderr %r" % (pname, e, st, first[:100]), files=files,
                              replay=rp + ("[ $rc -eq 0 ] && exit 1; exit 0" if st == 0 else "head -1 err.txt | grep -q 'z.c:3: ' && exit 0; exit 1"))
    if odis:
        raise core.HarnessError("model/gcc disagree on %d cases (see samples)" % odis)
    ctx.cover(evaluations=judged + ndz, distinct_nontrivial=len(classes), skipped_undefined=skipped, int_cases=len(icases), position_cases=len(pos) * 7,
              float_cases=len(fcases), static_bitfield_cases=len(sbf), divzero_runs=ndz,
              rule="case = constant expression with literal operands (operator x operand types x threshold value tuple); distinct = distinct "
                   "(operator, operand-type tuple) classes with at least one C11-defined tuple; each judged in static-initializer and run-time form, "
                   "a per-class subset in 7 further constant positions; floating folding compared bytewise with gcc (static and run-time)")
    for c in (icases[0], icases[len(icases) // 2], icases[-1]):
        ctx.sample({"case": c[0], "expr": text(c[1]), "model_value": c[2], "model_type": TN[c[3]]})
    ctx.sample({"position_case": adapter(text(pos[len(pos) // 2][1])), "positions": POSITIONS})
    ctx.sample({"float_case": fcases[len(fcases) // 2][:2]})
    ctx.assume("gcc 12 -O0 and models/cint.py agree on every judged integer case (enforced); floating cases are judged against gcc's folded and run-time values, which must agree with each other")
    ctx.assume("operand values are taken from threshold grids; nesting deeper than two operators is not explored")
