/* C03 runtime (compiled by gcc into the driver): tape, trace recorder with event budget, watchdog, and the boring
 * reference interpreter of statement trees (see models/c03_trees.py for the tree language).
 *
 * Events:  T(k)/Z(k) -> k      C() -> 1000+bit      C2() -> 1010+v      SEL(n) -> 1020+index     V(x) -> 2000+(x mod 9973)
 *          typed tape bits Cc/Cl/Cf/Cd/Cld/Cp -> 1000+bit (the value returned has the operand's type; its truth value is
 *          the bit, but testing it with the compare of another type class gives a different answer: char 0x80, a long and a
 *          pointer with only high bits set, 0.25f, 0.5 / -0.0, 0.5L)
 * End states of one run: 0 returned, 2 event budget exhausted, 3 tape exhausted, 4 watchdog (no progress), 5 signal,
 * 6 interpreter step limit (silent loop: no events are produced any more; such a run is not judged),
 * 7 undefined: the abstract machine evaluates a trapping operand while it is invalid (such a run is not judged).
 *
 * Trapping operands (evaluation observable only by a trap): every tape read sets the trap state to the LAST bit b read:
 *   gp<p>  -> a valid int holding p if b == p, else a null pointer                          (*gp1, *gp0)
 *   gi<p>  -> index of the element of ga holding p if b == p, else an index into the PROT_NONE page after ga (ga[gi1], ga[gi0])
 *   gd<p>  -> 3 resp. 6 if b == p, else 0                                                   (6 / gd1 == 2, 6 / gd0 == 1)
 * Before the first tape read of a run both polarities are invalid.  gnull is always null, gbad always out of range, gz is 0.
 */
#include <sys/mman.h>
#include <stdio.h>
#include <stdlib.h>
#include <string.h>
#include <setjmp.h>
#include <signal.h>
#include <sys/time.h>
#include <unistd.h>

#define BUDGET 200
#define MAXSTEPS 20000
enum { ST_RET = 0, ST_BUDGET = 2, ST_TAPE = 3, ST_HANG = 4, ST_SIGNAL = 5, ST_SILENT = 6, ST_UNDEF = 7 };

typedef struct { int n, end; int ev[BUDGET + 2]; } Trace;
static Trace *cur;
static sigjmp_buf out_jb;
static int tape[64], tlen, tpos;
static volatile int in_run;

int *gp1, *gp0, *ga, *gnull; int gi1, gi0, gd1, gd0, gz, gbad = 1 << 20, gsink;
static int g_one = 1, g_zero = 0, last_bit = -1;
static void trapstate(int b) {
  last_bit = b;
  gp1 = b == 1 ? &g_one : 0;     gp0 = b == 0 ? &g_zero : 0;
  gi1 = b == 1 ? 1 : 8 + 512;    gi0 = b == 0 ? 0 : 8 + 768;
  gd1 = b == 1 ? 3 : 0;          gd0 = b == 0 ? 6 : 0;
}
static void trap_init(void) {
  long pg = sysconf(_SC_PAGESIZE);
  char *m = mmap(0, 3 * pg, PROT_READ | PROT_WRITE, MAP_PRIVATE | MAP_ANONYMOUS, -1, 0);
  if (m == MAP_FAILED || mprotect(m + pg, 2 * pg, PROT_NONE)) { fprintf(stderr, "trap_init: no guard pages\n"); exit(72); }
  ga = (int *)(m + pg) - 8;        /* ga[0..7] are the last ints of a mapped page; ga[8..] is unmapped */
  ga[0] = 0; ga[1] = 1;
  trapstate(-1);
}
static void rec(int e) { if (cur->n >= BUDGET) siglongjmp(out_jb, ST_BUDGET); cur->ev[cur->n++] = e; }
int T(int k) { rec(k); return k; }
int Z(int k) { rec(k); return 0; }
int C(void) { if (tpos >= tlen) siglongjmp(out_jb, ST_TAPE); int b = tape[tpos++]; rec(1000 + b); trapstate(b); return b; }
int C2(void) { if (tpos + 2 > tlen) siglongjmp(out_jb, ST_TAPE); int v = tape[tpos] * 2 + tape[tpos + 1]; tpos += 2; rec(1010 + v); trapstate(v & 1); return v; }
int SEL(int n) { if (tpos + 2 > tlen) siglongjmp(out_jb, ST_TAPE); int v = (tape[tpos] * 2 + tape[tpos + 1]) % n; trapstate(tape[tpos + 1]); tpos += 2; rec(1020 + v); return v; }
void V(long x) { rec(2000 + (int)((unsigned long)x % 9973)); }
static int bit(void) { if (tpos >= tlen) siglongjmp(out_jb, ST_TAPE); int b = tape[tpos++]; rec(1000 + b); trapstate(b); return b; }
#define CL_TRUE 0x300000000L
#define CP_TRUE 0x700000000L
char Cc(void) { return bit() ? -128 : 0; }
long Cl(void) { return bit() ? CL_TRUE : 0; }
float Cf(void) { return bit() ? 0.25f : 0.0f; }
double Cd(void) { return bit() ? 0.5 : -0.0; }
long double Cld(void) { return bit() ? 0.5L : 0.0L; }
void *Cp(void) { return bit() ? (void *)CP_TRUE : (void *)0; }

static void on_sig(int sig) {
  if (!in_run) _exit(70);
  siglongjmp(out_jb, sig == SIGVTALRM ? ST_HANG : ST_SIGNAL);
}
static void rt_init(void) {
  signal(SIGSEGV, on_sig); signal(SIGBUS, on_sig); signal(SIGILL, on_sig); signal(SIGFPE, on_sig); signal(SIGVTALRM, on_sig);
  trap_init();
}
static void watchdog(int on) {
  struct itimerval it = {{0, 0}, {0, on ? 250000 : 0}};   /* 250 ms of CPU time for all runs of one program (each run <= 200 events, microseconds) */
  setitimer(ITIMER_VIRTUAL, &it, 0);
}
/* run one compiled function on the current tape */
/* a defective twin may leave values on the x87 stack (long double operands): start every run from a clean FPU */
static void fpu_reset(void) { __asm__ volatile("fninit"); }
static void run_fn(void (*fn)(void), Trace *t) {
  cur = t; t->n = 0; tpos = 0; fpu_reset(); trapstate(-1);
  int st = sigsetjmp(out_jb, 1);
  if (st == 0) { in_run = 1; fn(); st = ST_RET; }
  in_run = 0;
  if (st == ST_HANG) watchdog(1);          /* one-shot timer fired: re-arm for the rest of this program */
  t->end = st;
}
static int same(const Trace *a, const Trace *b) { return a->n == b->n && a->end == b->end && !memcmp(a->ev, b->ev, a->n * sizeof(int)); }
static void show(const Trace *t) { for (int i = 0; i < t->n; i++) printf("%s%d", i ? "," : "", t->ev[i]); printf("/%d", t->end); }

/* ---------------- reference interpreter ---------------- */
typedef struct { short kind, a, b; short c[4]; unsigned lab; } Nd;
enum { S_EXPR = 1, S_V, S_EMPTY, S_BREAK, S_CONT, S_RET, S_GOTO, S_CGOTO, S_IF, S_WHILE, S_DO, S_FOR, S_BLOCK, S_LABEL, S_SWITCH, S_CASE,
       E_C = 32, E_C2, E_T, E_Z, E_AND, E_OR, E_COND, E_ELVIS, E_COMMA, E_NOT, E_STMT, E_CC, E_CL, E_CF, E_CD, E_CLD, E_CP, E_TRAP,
       S_TRAP = 17 };
enum { R_NORMAL = 0, R_BRK, R_CONT, R_RETURN, R_GOTO };
static const Nd *IN;
static int i_seek, i_ab, i_target;
static long i_steps;
static int i_exec(int n);
static void i_step(void) { if (++i_steps > MAXSTEPS) siglongjmp(out_jb, ST_SILENT); }

/* A value is the pair (v, t): v = the value converted to long (what V() records, what a switch compares), t = its truth
 * value.  For the values that occur (tape bits and marker numbers, the typed constants above) every conversion the
 * usual arithmetic conversions of ?: can apply preserves both components, so operators only select and combine pairs. */
typedef struct { long v; int t; } Val;
static Val mk(long v, int t) { Val r = {v, t}; return r; }
static Val i_eval(int n) {
  const Nd *d = &IN[n];
  Val v; int b;
  i_step();
  switch (d->kind) {
  case E_C: b = C(); return mk(b, b);
  case E_C2: b = C2(); return mk(b, b != 0);
  case E_T: b = T(d->a); return mk(b, b != 0);
  case E_Z: Z(d->a); return mk(0, 0);
  case E_CC: b = bit(); return mk(b ? -128 : 0, b);
  case E_CL: b = bit(); return mk(b ? CL_TRUE : 0, b);
  case E_CF: case E_CD: case E_CLD: b = bit(); return mk(0, b);          /* (long)0.25f == (long)0.5 == (long)-0.0 == 0 */
  case E_CP: b = bit(); return mk(b ? CP_TRUE : 0, b);
  case E_TRAP:                       /* a = value when valid, b = polarity (-1: never traps) */
    if (d->b >= 0 && d->b != last_bit) siglongjmp(out_jb, ST_UNDEF);
    return mk(d->a, d->a != 0);
  case E_AND: v = i_eval(d->c[0]); if (i_ab || !v.t) return mk(0, 0); v = i_eval(d->c[1]); if (i_ab) return mk(0, 0); return mk(v.t, v.t);
  case E_OR: v = i_eval(d->c[0]); if (i_ab) return mk(0, 0); if (v.t) return mk(1, 1); v = i_eval(d->c[1]); if (i_ab) return mk(0, 0); return mk(v.t, v.t);
  case E_COND: v = i_eval(d->c[0]); if (i_ab) return mk(0, 0); return i_eval(v.t ? d->c[1] : d->c[2]);
  case E_ELVIS: v = i_eval(d->c[0]); if (i_ab) return mk(0, 0); if (v.t) return v; return i_eval(d->c[1]);
  case E_COMMA: i_eval(d->c[0]); if (i_ab) return mk(0, 0); return i_eval(d->c[1]);
  case E_NOT: v = i_eval(d->c[0]); if (i_ab) return mk(0, 0); return mk(!v.t, !v.t);
  case E_STMT:
    if (d->c[0] >= 0) { int r = i_exec(d->c[0]); if (r != R_NORMAL) { i_ab = r; return mk(0, 0); } }
    return i_eval(d->c[1]);
  }
  fprintf(stderr, "interp: bad expr kind %d\n", d->kind); exit(71);
}

/* label id of the case of this switch body that matches v (0 = none); dflt receives the default's id */
static int i_find_case(int n, long v, int *dflt) {
  const Nd *d = &IN[n];
  int r;
  switch (d->kind) {
  case S_CASE:
    if (d->b < 0) *dflt = d->a; else if (d->b == v) return d->a;
    return i_find_case(d->c[0], v, dflt);
  case S_SWITCH: return 0;                    /* case labels of a nested switch belong to that switch */
  case S_IF: if ((r = i_find_case(d->c[1], v, dflt))) return r; return d->c[2] >= 0 ? i_find_case(d->c[2], v, dflt) : 0;
  case S_WHILE: return i_find_case(d->c[1], v, dflt);
  case S_DO: return i_find_case(d->c[0], v, dflt);
  case S_FOR: return i_find_case(d->c[3], v, dflt);
  case S_LABEL: return i_find_case(d->c[0], v, dflt);
  case S_BLOCK: for (int i = 0; i < d->a; i++) if ((r = i_find_case(d->c[i], v, dflt))) return r; return 0;
  }
  return 0;
}

#define CHECKAB do { if (i_ab) { int r_ = i_ab; i_ab = 0; return r_; } } while (0)
static int i_exec(int n) {
  const Nd *d = &IN[n];
  Val v; int r;
  i_step();
  if (i_seek && !(d->lab & (1u << i_seek))) return R_NORMAL;     /* label sought is not in here: skipped */
  switch (d->kind) {
  case S_EXPR: i_eval(d->c[0]); CHECKAB; return R_NORMAL;
  case S_V: v = i_eval(d->c[0]); CHECKAB; V(v.v); return R_NORMAL;
  case S_EMPTY: return R_NORMAL;
  case S_TRAP: siglongjmp(out_jb, ST_UNDEF);
  case S_BREAK: return R_BRK;
  case S_CONT: return R_CONT;
  case S_RET: return R_RETURN;
  case S_GOTO: i_target = d->a; return R_GOTO;
  case S_CGOTO: i_target = SEL(d->a) + 1; return R_GOTO;
  case S_LABEL: case S_CASE:
    if (i_seek == d->a) i_seek = 0;
    return i_exec(d->c[0]);
  case S_IF:
    if (i_seek) return i_exec((IN[d->c[1]].lab & (1u << i_seek)) ? d->c[1] : d->c[2]);
    v = i_eval(d->c[0]); CHECKAB;
    if (v.t) return i_exec(d->c[1]);
    return d->c[2] >= 0 ? i_exec(d->c[2]) : R_NORMAL;
  case S_WHILE:
    for (;;) {
      if (!i_seek) { v = i_eval(d->c[0]); CHECKAB; if (!v.t) break; }
      r = i_exec(d->c[1]);
      if (r == R_BRK) break;
      if (r == R_RETURN || r == R_GOTO) return r;
    }
    return R_NORMAL;
  case S_DO:
    for (;;) {
      r = i_exec(d->c[0]);
      if (r == R_BRK) break;
      if (r == R_RETURN || r == R_GOTO) return r;
      v = i_eval(d->c[1]); CHECKAB; if (!v.t) break;
    }
    return R_NORMAL;
  case S_FOR:
    if (!i_seek && d->c[0] >= 0) { i_eval(d->c[0]); CHECKAB; }
    for (;;) {
      if (!i_seek && d->c[1] >= 0) { v = i_eval(d->c[1]); CHECKAB; if (!v.t) break; }
      r = i_exec(d->c[3]);
      if (r == R_BRK) break;
      if (r == R_RETURN || r == R_GOTO) return r;
      if (d->c[2] >= 0) { i_eval(d->c[2]); CHECKAB; }
    }
    return R_NORMAL;
  case S_BLOCK:
    for (int i = 0; i < d->a; i++) { r = i_exec(d->c[i]); if (r != R_NORMAL) return r; }
    return R_NORMAL;
  case S_SWITCH:
    if (!i_seek) {
      int dflt = 0, id;
      v = i_eval(d->c[0]); CHECKAB;
      id = i_find_case(d->c[1], v.v, &dflt);
      if (!id) id = dflt;
      if (!id) return R_NORMAL;
      i_seek = id;
    }
    r = i_exec(d->c[1]);
    return r == R_BRK ? R_NORMAL : r;
  }
  fprintf(stderr, "interp: bad stmt kind %d\n", d->kind); exit(71);
}

static void run_interp(const Nd *nodes, int root, Trace *t) {
  cur = t; t->n = 0; tpos = 0; IN = nodes; i_seek = 0; i_ab = 0; i_steps = 0; fpu_reset(); trapstate(-1);
  int st = sigsetjmp(out_jb, 1);
  if (st == 0) {
    in_run = 1;
    int r = i_exec(root);
    while (r == R_GOTO) { i_seek = i_target; r = i_exec(root); if (i_seek) { fprintf(stderr, "interp: label %d not found\n", i_seek); exit(71); } }
    if (r == R_BRK || r == R_CONT) { fprintf(stderr, "interp: stray break/continue\n"); exit(71); }
    st = ST_RET;
  }
  in_run = 0;
  t->end = st;
}

/* ---------------- exploration of all tapes up to length L (every path once) ---------------- */
typedef struct { int root; void (*cc)(void); void (*ref)(void); } Prog;
static long n_runs, n_judged, n_silent, n_odis, n_paths, n_budget, n_undef;

/* returns number of distinct complete traces seen (capped), reports V/O lines */
static int explore(int idx, const Nd *nodes, const Prog *p, int L, int only_cc_report) {
  static int stack[4096][16]; static int slen[4096];
  static Trace ti, tr, tc;
  int sp = 0, nbad = 0, ndistinct = 0;
  unsigned long seenhash[8]; int nseen = 0;
  slen[sp++] = 0;
  watchdog(1);                             /* armed once per program: CPU time for all its runs */
  while (sp) {
    sp--; tlen = slen[sp]; memcpy(tape, stack[sp], sizeof(int) * 16);
    run_interp(nodes, p->root, &ti);
    n_runs++;
    if (ti.end == ST_SILENT) { n_silent++; continue; }
    if (ti.end == ST_UNDEF) { n_undef++; continue; }      /* undefined behaviour on this tape (and on every extension of it) */
    run_fn(p->ref, &tr);
    if (!same(&ti, &tr)) {
      n_odis++;
      printf("O %d tape=", idx); for (int i = 0; i < tlen; i++) printf("%d", tape[i]);
      printf(" model="); show(&ti); printf(" ref="); show(&tr); printf("\n");
    } else {
      run_fn(p->cc, &tc);
      n_judged++;
      if (!same(&ti, &tc)) {
        if (nbad++ < 1) {
          printf("V %d tape=", idx); for (int i = 0; i < tlen; i++) printf("%d", tape[i]);
          printf(" want="); show(&ti); printf(" got="); show(&tc); printf("\n");
        }
        if (tc.end == ST_HANG) break;        /* one watchdog period per program at most */
      }
      if (ti.end != ST_TAPE) {
        unsigned long h = 1469598103934665603UL;
        for (int i = 0; i < ti.n; i++) h = (h ^ (unsigned)ti.ev[i]) * 1099511628211UL;
        h ^= ti.end;
        int k; for (k = 0; k < nseen; k++) if (seenhash[k] == h) break;
        if (k == nseen && nseen < 8) seenhash[nseen++] = h;
        n_paths++;
        if (ti.end == ST_BUDGET) n_budget++;
      }
    }
    if (ti.end == ST_TAPE && tlen < L && sp + 2 < 4096) {
      memcpy(stack[sp], tape, sizeof(int) * 16); stack[sp][tlen] = 1; slen[sp] = tlen + 1; sp++;
      memcpy(stack[sp], tape, sizeof(int) * 16); stack[sp][tlen] = 0; slen[sp] = tlen + 1; sp++;
    }
  }
  watchdog(0);
  ndistinct = nseen;
  if (nbad) printf("N %d %d\n", idx, nbad);
  return ndistinct;
}
