#!/usr/bin/env python3
"""Regenerates the `fixed:` lines of known_findings.txt from /repo's fix commits (property attribution below) and
merges findings.d/*.txt `finding:` lines into the same file, so that one committed file lists everything."""
import subprocess, re, glob, os
V = os.path.dirname(os.path.dirname(os.path.abspath(__file__)))
BASE = "659c5ec"
# property attribution by subject keyword (first match wins)
RULES = [("#include nested more than 200 deep", "C13"),
  ("compound literal may be followed by postfix", "C13"), ("_Alignof of a variable length array", "C08"),
  ("_Atomic is accepted as a pointer qualifier", "C13"), ("expression of another struct or union type initializes", "C05"), ("designator into a union overrides", "C05"),
 ("in #if the results of relational", "C10"), ("postfix ++/-- on an atomic _Bool", "C16"), ("atomic read-modify-write on an object that is not", "C13"),
  ("'struct T;' declares a new incomplete", "C03"), ("selection and iteration statements", "C03"), ("function prototype scope for every", "C03"), ("outermost block of a function body are one scope", "C03"),
 ("tag is in scope inside its own member list", "C03"), ("parameter is in scope for the rest", "C03"),
 ("difference of two pointers to a variable length", "C04"), ("typedef'd variable length array type is evaluated once", "C04"),
 ("#line inside an open conditional", "C10"), ("one void arm discards", "C20"), ("struct-valued statement expression", "C20"),
 ("_Alignas specifiers the strictest", "C08"), ("_Alignof applied to an object", "C08"),
 ("atomic operations on float and double", "C16"),
 ("address of a sub-array element", "C05"), ("reached by brace elision initializes", "C05"), ("unnamed bit-fields take no initializer", "C05"), ("static bit-field of width 64", "C05"),
 ("completed later gets the completed size", "C15"), ("function that is not emitted are not emitted", "C15"), ("static _Thread_local", "C15"),
 ("only inside string literals and character constants", "C09"),
 ("evaluates binary operands left to right", "C12"), ("hashmap", "C17"), ("promotions to operands", "C01"), ("operand of unary +", "C01"), ("bit-field operands by their width", "C01"), ("enumerated type are converted", "C01"),
 ("constant expressions in the type", "C07"), ("negative array designator", "C13"), ("-E separates", "C19"), ("-E prints", "C19"),
 ("long double to short", "C02"), ("unsigned long and floating", "C02"), ("NaN is nonzero", "C02"), ("floating constants once", "C02"), ("postfix ++/-- on floating", "C02"),
 ("va_arg(ap, long double)", "C06"), ("x87 register of a discarded", "C20"), ("caller's buffer in RAX", "C20"),
 ("bit-field stores", "C04"), ("member lookup skips", "C04"), ("union can be initialized from", "C04"),
 ("psABI layout of unnamed", "C08"), ("max_align_t", "C08"), ("_Alignas on a static local", "C08"),
 ("case labels", "C03"), ("parameter list have function scope", "C03"),
 ("_Atomic struct member", "C16"), ("atomic_fetch_", "C16"), ("atomic_exchange", "C16"),
 ("assembly input in link mode", "C14"), ("do not run the linker", "C14"), ("read error", "C14"),
 ("## with empty operands", "C09"), ("newline between argument tokens", "C09"), ("# produced by macro expansion", "C09"), ("pre-expansion works on a copy", "C09"),
 ("__VA_OPT__", "C09"), ("## in the replacement list of an object-like", "C09"), ("pp-number may contain", "C09"),
 ("skip_line()", "C10"), ("empty macro expansion at the end of a line", "C10"), ("#if arithmetic", "C10"), ("include-guard detection", "C10"), ("-idirafter", "C10"),
 ("#include_next", "C10"), ("-D'F(x)", "C10"), ("u8 prefix", "C11"), ("wchar_t", "C11"),
 ("static inline functions are always emitted", "C15"), ("tentative definitions", "C15"), (".bss/.tbss", "C15"), ("external definition (C11 6.7.4p7)", "C15"), ("function declarators may appear", "C15"),
 ("struct arguments take exactly", "C06"), ("va_list register save area", "C06"), ("16-byte alignment (long double", "C06"), ("aggregates containing long double", "C06"), ("va_arg of a struct", "C06"),
 ("continuation lines of a backslash-spliced", "C18"), ("tokens made by the preprocessor", "C18"), ("pair the physical line", "C18"),
 ("static struct initializer continues", "C05"), ("positional initializers may follow", "C05"), ("string literal initializing a character array may be", "C05"), ("braced scalar initializer", "C05"),
 ("static initializers are converted", "C05"), ("after a range designator", "C05"), ("braced union initializer", "C05")]
log = subprocess.run(["git", "-C", "/repo", "log", "--reverse", "--format=%h\t%s", BASE + "..HEAD"], capture_output=True, text=True).stdout.strip().splitlines()
out = ["# Known findings for rui314/chibicc at the pinned commit (this file is never written at run time by a check).",
       "#   finding: property=<id> sig=<signature pattern> -- <what fails; minimal reproducer>   (the checks print KNOWN-FINDING for these and exit 0)",
       "#   fixed:   property=<id> <repo commit> -- <what failed>          (suppresses nothing: the check reports the violation again if it returns)",
       "# A defect observed by several properties is listed under the property whose check (or builder) found it.", ""]
for l in log:
    h, s = l.split("\t")
    if not s.startswith("fix: "):
        continue
    prop = next((p for k, p in RULES if k in s), None)
    if prop is None:
        prop = "C13"   # remaining repairs turn compiler crashes / silent acceptance into diagnostics
    body = subprocess.run(["git", "-C", "/repo", "log", "-1", "--format=%b", h], capture_output=True, text=True).stdout.strip()
    body = re.sub(r"\s+", " ", body)[:420]
    out.append("fixed: property=%s %s -- %s%s" % (prop, h, s[5:], (" :: " + body) if body else ""))
out.append("")
for f in sorted(glob.glob(os.path.join(V, "findings.d", "C*.txt"))):
    for line in open(f):
        if line.startswith("finding:"):
            out.append(line.rstrip("\n"))
open(os.path.join(V, "known_findings.txt"), "w").write("\n".join(out) + "\n")
print("fixed:", sum(1 for x in out if x.startswith("fixed:")), "findings:", sum(1 for x in out if x.startswith("finding:")))
