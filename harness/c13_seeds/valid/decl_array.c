int a[3][2];
int f(int n, int v[]) {
  int b[] = {1, 2, 3};
  return sizeof(a) + b[n] + v[0];
}
