enum E { A = 2147483648 };
int x = A;
