"""C14 driver process discipline under failure and concurrency (fault enumeration).

Part 1 (shapes x faults): every command shape (mode x -o x input-kind list x output location) of
models/c14_driver.py is run through the real driver with no fault, then once per (observed subprocess step x
fault kind).  cc1 faults are injected by an argv[0] shim, as/ld faults by PATH shims (harness/c14_shim.c); files
created and removed by the whole process tree are observed with an LD_PRELOAD interposer
(harness/c14_preload.c), per invocation.
  Input lists: all lists of 1 and 2 (thorough: 3) inputs over the alphabets in ALPHABET - 13 kinds, among them every
  way a unit can fail: in the front end (c_pp, c_parse, c_gen), in the assembler (c_asm: inline asm the assembler
  rejects; s_bad), in the linker (o_bad), unreadable / missing (c_dir, *_nx) - so each failure kind stands before a
  good unit and after one; plus EXTRA_LISTS: three inputs with one failing unit in first, middle and last position.
  A driver may run steps of independent translation units concurrently.  The shims then see steps that overlap
  (B/E records of steps.log, written under a lock); for such a shape the enumeration is redone under the step
  scheduler of part 2 with one driver: every completion order of the simultaneously waiting steps, without fault and
  with a fault at every step (addressed by step kind + the input it works on, not by ordinal).
  Standard input and library arguments (STDIN_LISTS): "-" with -xc / -x assembler as an input (good text and text
  that fails in the front end), alone, before and after a named file, and "-lm" between / after inputs - in every
  mode x -o {absent, file, -} x output location, the lists of STDIN_FAULT_LISTS also with every fault at every step.
  Naming family (path_family; good inputs, no injected fault): how inputs and -o are WRITTEN - directory part
  {none, ./, sub/, d.1/, ../, ../up.2/, absolute through ab.3/} x last component {name.ext, no extension (with -x),
  a.v2.ext, all extension (.c), the same name in every slot} = 35 forms: every form alone in every mode (also with -MD,
  and with a sentinel at the documented output), every ordered pair over PAIR_FORMS (thorough: all 35 x 35, and
  triples), five spellings of the -o path with and without -MD, -MD -MF.  The model's output names (last component,
  extension replaced, in the cwd; acceptable alternatives where conventions differ) are arbitrated by running gcc
  on the same single-input command; a command on which gcc and the model disagree is not judged.
  Driver-fault family (driver_family): failures that originate in the DRIVER itself, possibly after it has run steps
  for earlier inputs.  A word the driver must refuse or cannot use - a file whose extension names no language (unk),
  an unknown option (opt_unk), -x with an unknown language (opt_badx), a missing input of each language (c_nx s_nx
  o_nx), an unreadable input (c_dir) - at EVERY POSITION (first, middle, last) of lists of two (the other member c, s
  or o) and three (quick: the others c c; thorough: every pair over c s o), -o without its argument as the last word
  (opt_noarg), and each of these words alone; in every mode x -o {absent, file} x {writable directory, sentinel at
  every output}.  One -o for several inputs with -o written after the 1st .. n-th input (OPOS_LISTS), all modes.
  Whether such a command must fail is arbitrated by gcc on the same command (disagreement = shape not judged);
  leftover temporaries, outputs and exit status are judged exactly as for subprocess faults.
  `tmp` fault: the driver's own k-th temporary-file creation fails (ENOSPC from the mkstemp family, injected by the
  interposer in the driver process only), for every k, in every -c / link shape that has step faults (writable
  directory) and in good lists of three (GOOD3): a failure inside the driver after k-1 temporaries exist.  Exit 0
  under this fault is held against the outputs (all must exist), non-zero exit against temporaries and outputs.
  What is judged never depends on seeing the front end start as a program: files created and removed by a child the
  driver forks WITHOUT exec are attributed to the driver ("<exe> (forked)") and judged like all others.  A driver
  whose front end is not a program of its own has no cc1 step to observe or to fail: counted as
  `cc1_steps_not_observable` (of `cc1_steps_expected_in_successful_commands`) and recorded as incompleteness of the
  fault enumeration - never a deviation, never exit 2.
Part 2 (schedules): two (thorough: also three) drivers in one directory.  Every subprocess step blocks in its shim on
a unix socket; the orchestrator waits until the whole process tree is quiescent, grants ONE of the blocked steps
(any driver may have several blocked at once - each is an enabled transition), waits for that process to be gone, and
repeats.  The tree of grant orders is walked exhaustively (stateless depth-first search by re-execution), with and
without one injected fault; each driver's exit status and outputs must equal those of its solo run.

Judged (only what the property states): exit status != 0 when a step fails / input is bad / output is unwritable
and == 0 otherwise; status 0 is not returned while a started step has yet to run; the output of a translation unit
whose front end failed is neither created nor changed; no temporary left; the directory changes by exactly the
requested outputs (one per translation unit under its documented name, dependency files included, nothing else
anywhere in the tree); concurrent runs == solo runs.
One output file for several translation units (one -o under -E/-S/-c with several inputs - named files, standard
input; or default names that coincide): the property leaves the driver free to refuse the command, so a non-zero
exit is never a deviation there; but exit status 0 means no unit's output was lost: every unit must be found in the
output (`tu-output-lost`).  Only for coinciding DEFAULT names the conventional "last one wins" (gcc) is accepted.

Harness trouble is exit 2 - unless part 1 has violations that were reproduced serially: those are reported, and the
trouble (which can only concern part 2 or the scheduler) is recorded as incompleteness in the evidence.
"""
import itertools, json, os, select, shutil, socket, subprocess, sys, time

if __name__ == "__main__":
    sys.path.insert(0, os.path.dirname(os.path.dirname(os.path.abspath(__file__))))
from vlib import core
from models import c14_driver as M

LEVEL = "fault_enumeration"
BUDGET = {"quick": 1200, "thorough": 6000}      # global deadlines, not targets (quick: ~4 CPU-min, thorough: ~25 CPU-min)
PART2_RESERVE = {"quick": 90, "thorough": 600}   # part 1 stops submitting work when less than this is left for part 2

FAULTS = {"quick": ["exit1", "exit3", "segv", "kill", "noexec", "partial"],
          "thorough": ["exit1", "exit3", "segv", "kill", "noexec", "partial"]}
ALL_KINDS = ["c", "c_pp", "c_parse", "c_gen", "c_asm", "c_nx", "c_dir", "s", "s_bad", "s_nx", "o", "o_bad", "o_nx"]
# input-kind alphabets per list length: every list of that length over that alphabet, in every mode / -o / output
# location.  Lists of two contain every way a unit can fail (front end: c_pp c_gen; assembler: c_asm s_bad; linker:
# o_bad; unreadable/missing) in first position before a good unit and in last position after one.
ALPHABET = {
    "quick": {1: ALL_KINDS, 2: ["c", "c_pp", "c_gen", "c_asm", "c_nx", "c_dir", "s", "s_bad", "o", "o_bad"]},
    "thorough": {1: ALL_KINDS, 2: ALL_KINDS, 3: ["c", "c_gen", "c_asm", "c_nx", "s", "o"]},
}
# Failure kinds that must occur in a non-last position followed by good units only (vacuity guard): a failing step in
# the middle of a command whose later steps succeed is where a driver that collects statuses late loses one.
NONLAST_FAILURE_KINDS = frozenset(["c_pp", "c_asm", "s_bad", "o_bad"])


def _one_failing_unit_lists(n, fill):
    """Lists of n inputs with exactly one failing unit (each failure kind, each position), the rest `fill`."""
    return [tuple(bad if i == pos else f for i in range(n)) for bad in sorted(NONLAST_FAILURE_KINDS)
            for pos in range(n) for f in fill]


# Further input lists, run in the modes that start an assembler / linker (-c, link) x -o {absent, file}, writable
# directory: three inputs with one failing unit in first, middle and last position.
EXTRA_LISTS = {
    "quick": _one_failing_unit_lists(3, ["c"]),
    "thorough": [l for l in _one_failing_unit_lists(3, ["c", "s", "o"]) if not set(l) <= set(ALPHABET["thorough"][3])],
}
GOOD_KINDS = frozenset(["c", "s", "o"])
RUN_TIMEOUT = 60
TMP_FAULT = "enospc"


# ----------------------------------------------------------------------------------------------------
# tools: shim, interposer, input materials
# ----------------------------------------------------------------------------------------------------
def build_tools(chibicc, include, workroot):
    """Build shim + interposer + input materials; returns the picklable configuration for workers."""
    tools = os.path.join(workroot, "tools")
    os.makedirs(tools, exist_ok=True)
    h = os.path.join(core.VERIF, "harness")
    core.sh(["gcc", "-O2", "-shared", "-fPIC", "-o", os.path.join(tools, "c14_preload.so"),
             os.path.join(h, "c14_preload.c"), "-ldl"], check=True)
    core.sh(["gcc", "-O2", "-o", os.path.join(tools, "c14_shim"), os.path.join(h, "c14_shim.c")], check=True)
    real_as, real_ld = shutil.which("as"), shutil.which("ld")
    if not real_as or not real_ld:
        raise core.HarnessError("as/ld not found on PATH")
    mats = {}
    for slot in range(3):
        # "main:" variants: the unit of slot 1 / 2 defines main() (when the inputs before it are library arguments)
        for pre, main in [("", None)] + ([("main:", True)] if slot else []):
            for k in ("c", "c_pp", "c_parse", "c_gen", "c_asm"):
                mats[pre + M.in_name(k, slot)] = M.c_source(k, slot, main).encode()
            for k in ("s", "s_bad"):
                mats[pre + M.in_name(k, slot)] = M.s_source(k, slot, main).encode()
            for k in ("o", "o_bad"):
                sp = os.path.join(tools, "m.s")
                with open(sp, "w") as f:
                    f.write(M.s_source(k, slot, main))
                op = os.path.join(tools, "m.o")
                core.sh([real_as, "-o", op, sp], check=True)
                mats[pre + M.in_name(k, slot)] = open(op, "rb").read()
        mats[M.in_name("unk", slot)] = M.UNK_TEXT % slot
    cfg = {"chibicc": chibicc, "include": include, "shim": os.path.join(tools, "c14_shim"),
           "preload": os.path.join(tools, "c14_preload.so"), "as": real_as, "ld": real_ld,
           "root": workroot, "mats": mats}
    selftest_interposer(cfg)
    return cfg


def selftest_interposer(cfg):
    """The interposer must load and see the whole family; otherwise the check is broken (exit 2)."""
    d = os.path.join(cfg["root"], "selftest")
    os.makedirs(d, exist_ok=True)
    src = os.path.join(d, "t.c")
    with open(src, "w") as f:
        f.write('#define _GNU_SOURCE\n#include <stdio.h>\n#include <stdlib.h>\n#include <unistd.h>\n#include <fcntl.h>\n#include <sys/wait.h>\n'
                'int main(int c,char**v){char a[256],b[256],e[300];snprintf(a,256,"%s/ta-XXXXXX",v[1]);snprintf(b,256,"%s/tb",v[1]);\n'
                'int fd=mkstemp(a);close(fd);FILE*f=fopen(b,"w");fclose(f);snprintf(e,300,"%s2",b);rename(b,e);unlink(a);\n'
                'fd=open(b,O_CREAT|O_WRONLY,0600);close(fd);remove(b);\n'
                'pid_t p=fork();if(!p)_exit(0);pid_t q=fork();if(!q)_exit(0);waitpid(q,0,0);wait(0);return 0;}\n')
    exe = os.path.join(d, "t")
    core.sh(["gcc", "-o", exe, src], check=True)
    log = os.path.join(d, "trace.log")
    env = {"LD_PRELOAD": cfg["preload"], "C14_TRACE": log, "PATH": "/usr/bin:/bin"}
    p = subprocess.run([exe, d], env=env, stdout=subprocess.PIPE, stderr=subprocess.PIPE)
    recs = read_trace(log)
    ops = [r[1] for r in recs]
    kids = [r[2] for r in recs if r[1] == "fk"]
    if (p.returncode != 0 or p.stderr or ops != ["init", "mk", "cr", "mv", "rm", "cr", "rm", "fk", "fk", "wt", "wt"]
            or [r[2] for r in recs if r[1] == "wt"] != kids[::-1]):
        raise core.HarnessError("LD_PRELOAD interposer self-test failed: rc=%s err=%r ops=%s" % (p.returncode, p.stderr[:200], ops))
    os.unlink(os.path.join(d, "tb2"))


def read_trace(path):
    recs = []
    try:
        with open(path, "rb") as f:
            for line in f.read().decode("utf-8", "surrogateescape").splitlines():
                parts = line.split("\t")
                if len(parts) >= 3 and parts[0].isdigit():
                    recs.append((int(parts[0]), parts[1], parts[2], parts[3] if len(parts) > 3 else None))
    except FileNotFoundError:
        pass
    return recs


# ----------------------------------------------------------------------------------------------------
# private /tmp per worker process
# ----------------------------------------------------------------------------------------------------
_ISOLATED = None


def isolate_tmp(cfg):
    """Give this (pool worker) process a private, empty /tmp through a mount namespace, with the check's work
    directory still visible at its usual path.  Drivers run by different workers then cannot meet in /tmp, so
    part 1 is deterministic even for a driver with colliding temporary names (interference between drivers is
    explored deliberately, and deterministically, in part 2).  Returns False where namespaces are unavailable;
    the check then relies on serial confirmation of every violation."""
    global _ISOLATED
    if _ISOLATED is not None:
        return _ISOLATED
    _ISOLATED = False
    if os.environ.get("C14_NO_ISOLATION"):
        return False
    import ctypes
    libc = ctypes.CDLL(None, use_errno=True)
    CLONE_NEWNS, MS_BIND, MS_REC, MS_PRIVATE = 0x00020000, 0x1000, 0x4000, 1 << 18
    root = cfg["root"]
    import tempfile
    priv = tempfile.mkdtemp(prefix="ptmp", dir=root)
    rel = os.path.relpath(root, "/tmp")
    os.makedirs(priv if rel.startswith("..") else os.path.join(priv, rel), exist_ok=True)
    if libc.unshare(CLONE_NEWNS) != 0:
        return False
    if libc.mount(b"none", b"/", None, MS_REC | MS_PRIVATE, None) != 0:
        return False
    if not rel.startswith(".."):
        if libc.mount(root.encode(), os.path.join(priv, rel).encode(), None, MS_BIND, None) != 0:
            return False
    if libc.mount(priv.encode(), b"/tmp", None, MS_BIND | MS_REC, None) != 0:
        raise core.HarnessError("could not mount a private /tmp")
    if not os.path.exists(cfg["chibicc"]) or len(os.listdir("/tmp")) > 1:
        raise core.HarnessError("private /tmp is not set up as intended")
    _ISOLATED = True
    return True


# ----------------------------------------------------------------------------------------------------
# one driver invocation in a sandbox
# ----------------------------------------------------------------------------------------------------
def snapshot(d):
    snap = {}
    for root, dirs, files in os.walk(d):
        for n in dirs:
            snap[os.path.relpath(os.path.join(root, n), d)] = ("d",)
        for n in files:
            p = os.path.join(root, n)
            try:
                with open(p, "rb") as f:
                    snap[os.path.relpath(p, d)] = ("f", f.read())
            except OSError:
                snap[os.path.relpath(p, d)] = ("?",)
    return snap


class Sandbox:
    """<run>/d (cwd), <run>/tmp (TMPDIR), <run>/bin (shim dir), steps.log, trace.log"""

    def __init__(self, cfg, run):
        self.cfg, self.run = cfg, run
        shutil.rmtree(run, ignore_errors=True)
        self.d = os.path.join(run, "d")
        self.cwd = self.d
        os.makedirs(self.d)
        os.mkdir(os.path.join(run, "tmp"))
        self.nruns = 0

    def populate(self, shape):
        for sub in shape.layout_dirs():
            os.makedirs(os.path.join(self.d, sub), exist_ok=True)
        self.cwd = os.path.join(self.d, shape.cwd_rel) if shape.cwd_rel else self.d
        for rel, kind, key in shape.materials():
            p = os.path.join(self.d, rel)
            if kind == "c_dir":
                os.mkdir(p)
            elif kind.endswith("_nx"):
                pass
            else:
                with open(p, "wb") as f:
                    f.write(self.cfg["mats"][key])
        sm = shape.stdin_material()
        if sm:      # the text that arrives on the driver's standard input (kept outside the observed tree)
            with open(os.path.join(self.run, "stdin.dat"), "wb") as f:
                f.write(self.cfg["mats"][sm[1]])
        if shape.outloc == "sent":
            for o in shape.possible_outputs():
                with open(os.path.join(self.d, o), "wb") as f:
                    f.write(M.SENTINEL)
        elif shape.outloc == "unw" and not shape.o:
            for o in shape.possible_outputs():
                os.mkdir(os.path.join(self.d, o))

    def stdin_file(self):
        """The driver's standard input: the prepared text, or /dev/null."""
        p = os.path.join(self.run, "stdin.dat")
        return open(p, "rb") if os.path.exists(p) else open(os.devnull, "rb")

    def prepare_invocation(self, tag, fault=None, sched=None, ident=None):
        """Returns (argv prefix, env, paths) for one driver invocation sharing this sandbox's directory.
        `fault` = (kind, ordinal, how) is handed to the shims through the environment (under a scheduler the
        orchestrator delivers every fault except noexec itself, in its reply to the step's announcement)."""
        cfg = self.cfg
        inv = os.path.join(self.run, "inv_" + tag)
        os.makedirs(inv)
        bindir = os.path.join(inv, "bin")
        os.mkdir(bindir)
        os.symlink(cfg["include"], os.path.join(bindir, "include"))
        missing = None
        if fault and fault[2] == "noexec" and fault[1] == 1:
            missing = "chibicc" if fault[0] == "cc1" else fault[0]
        for n in ("chibicc", "as", "ld"):
            if n != missing:
                os.symlink(cfg["shim"], os.path.join(bindir, n))
        open(os.path.join(inv, "steps.log"), "w").close()
        env = {"PATH": bindir, "LD_PRELOAD": cfg["preload"], "C14_TRACE": os.path.join(inv, "trace.log"),
               "C14_RUN": inv, "C14_REAL_CHIBICC": cfg["chibicc"], "C14_REAL_AS": cfg["as"], "C14_REAL_LD": cfg["ld"],
               "C14_SHIMDIR": bindir, "TMPDIR": os.path.join(self.run, "tmp"), "LC_ALL": "C"}
        if fault:
            env["C14_FAULT"] = "%s:%d:%s" % tuple(fault)
        if sched:
            env["C14_SCHED"] = sched
            env["C14_ID"] = ident
        prefix = [cfg["shim"], "--launch", cfg["chibicc"], os.path.join(bindir, "chibicc")]
        return prefix, env, inv

    def collect(self, inv, status, out, err):
        steps, ends = [], {}
        open_steps, overlap = set(), False      # B/E records are in event order (written under a lock)
        with open(os.path.join(inv, "steps.log"), errors="replace") as f:
            for line in f:
                w = line.split()
                if w[:1] == ["B"]:
                    steps.append({"kind": w[1], "k": int(w[2]), "out": w[3], "argv": w[5:]})
                    overlap = overlap or bool(open_steps)
                    open_steps.add((w[1], int(w[2])))
                elif w[:1] == ["E"]:
                    ends[(w[1], int(w[2]))] = w[3]
                    open_steps.discard((w[1], int(w[2])))
        trace = read_trace(os.path.join(inv, "trace.log"))
        exes = {}
        temps = {}
        run_prefix = self.run + "/"
        tmpdir = os.path.join(self.run, "tmp") + "/"

        def is_temp_loc(p):
            if p.startswith(tmpdir):
                return True
            return (p.startswith("/tmp/") or p.startswith("/var/tmp/")) and not p.startswith(run_prefix)
        driver_seen = False
        unreaped = {}       # pid of a process running the driver binary -> children forked and not yet reaped
        real_driver = os.path.realpath(self.cfg["chibicc"])
        nforks = driver_mks = 0
        mkfail = False
        for pid, op, a, b in trace:
            if op == "init":
                exes[pid] = os.path.basename(a)
                if os.path.realpath(a) == real_driver:
                    driver_seen = True
                    unreaped.setdefault(pid, set())
                continue
            if op == "fk":
                if pid in unreaped:
                    # a second child while one is unreaped: the driver runs steps concurrently (program order of
                    # the driver itself - does not depend on how fast the steps are)
                    overlap = overlap or bool(unreaped[pid])
                    unreaped[pid].add(a)
                    nforks += 1
                if a.isdigit() and int(a) not in exes:
                    # until (unless) the child executes a program it is a copy of its parent: what it creates and
                    # removes is judged like everything else
                    exes[int(a)] = exes.get(pid, "?").replace(" (forked)", "") + " (forked)"
            elif op == "mkfail":
                mkfail = True
            elif op == "wt":
                if pid in unreaped:
                    unreaped[pid].discard(a)
                    unreaped[pid].discard("0")
            elif op == "mk":
                temps[a] = exes.get(pid, "?")
                driver_mks += pid in unreaped
            elif op == "cr":
                if is_temp_loc(a):
                    temps.setdefault(a, exes.get(pid, "?"))
            elif op == "rm":
                temps.pop(a, None)
            elif op == "mv":
                who = temps.pop(a, None)
                if is_temp_loc(b):
                    temps[b] = who or exes.get(pid, "?")
        leaks = sorted((who, p) for p, who in temps.items() if os.path.lexists(p))
        for p, who in list(temps.items()):    # do not litter the machine with what a defective driver leaves
            if os.path.lexists(p) and not p.startswith(run_prefix):
                try:
                    os.unlink(p)
                except OSError:
                    pass
        ntemps = len(set(r[2] for r in trace if r[1] == "mk" or (r[1] == "cr" and is_temp_loc(r[2]))))
        # children the driver never reaped: it may have left before they were done (looked at under the scheduler)
        overlap = overlap or any(unreaped.values())
        return {"status": status, "stdout": out, "stderr": err, "steps": steps, "ends": ends, "leaks": leaks,
                "driver_seen": driver_seen, "ntemps": ntemps, "overlap": overlap, "nforks": nforks,
                "driver_mks": driver_mks, "mkfail": mkfail}

    def run_one(self, shape_argv, fault=None):
        self.nruns += 1
        prefix, env, inv = self.prepare_invocation("%d" % self.nruns, fault)
        with self.stdin_file() as fin:
            try:
                p = subprocess.run(prefix + shape_argv, cwd=self.cwd, env=env, stdin=fin,
                                   stdout=subprocess.PIPE, stderr=subprocess.PIPE, timeout=RUN_TIMEOUT)
                status, out, err = p.returncode, p.stdout, p.stderr
            except subprocess.TimeoutExpired as e:
                status, out, err = "timeout", e.stdout or b"", e.stderr or b""
        obs = self.collect(inv, status, out, err)
        obs["tmpdir_left"] = sorted(os.listdir(os.path.join(self.run, "tmp")))
        return obs

    def destroy(self):
        shutil.rmtree(self.run, ignore_errors=True)


# ----------------------------------------------------------------------------------------------------
# judging one observation against the model
# ----------------------------------------------------------------------------------------------------
def elf_type(b):
    if len(b) < 18 or b[:4] != b"\x7fELF":
        return None
    return b[16] | (b[17] << 8)


def fault_fired(fault, obs, base_steps):
    """fault = (kind, ordinal, how): k-th step of that kind, injected through the environment (free-running
    driver); (kind, unit name, how): the step of that kind working on that input, injected by the orchestrator."""
    if not fault:
        return False
    kind, k, how = fault
    if kind == "tmp":       # the driver's own k-th temporary-file creation was made to fail (by the interposer)
        return bool(obs.get("mkfail"))
    if isinstance(k, str):
        return bool(obs.get("fault_delivered"))
    seen = set((s["kind"], s["k"]) for s in obs["steps"])
    if how != "noexec":
        return obs["ends"].get((kind, k)) == "fault:" + how
    if (kind, k) in seen or (kind, k) not in base_steps:
        return False
    idx = base_steps.index((kind, k))
    return all(s in seen for s in base_steps[:idx])


def judge(shape, fault, obs, before, after, base_steps=None, cc1_slots=None):
    """Returns (list of (deviation, detail), counters)."""
    devs, cnt = [], {}
    if obs["status"] == "timeout":
        return [], {"timeouts": 1}
    if not obs["driver_seen"]:
        raise core.HarnessError("the interposer did not load into the driver process (no init record for %s)" % shape.key())
    if str(97 << 8) in obs["ends"].values() or b"c14_shim:" in obs["stderr"]:
        raise core.HarnessError("shim failure in %s: %s" % (shape.key(), obs["stderr"][-300:]))
    st = obs["status"]
    fired = fault_fired(fault, obs, base_steps or [])
    if fault and not fired:
        cnt["fault_not_reached"] = 1
    faulted_slots = set()
    if fired and fault[0] == "cc1":
        if isinstance(fault[1], str):
            if shape.slot_of_input(fault[1]) is not None:
                faulted_slots.add(shape.slot_of_input(fault[1]))
        elif cc1_slots and fault[1] - 1 < len(cc1_slots) and cc1_slots[fault[1] - 1] is not None:
            faulted_slots.add(cc1_slots[fault[1] - 1])

    # 1. exit status
    # (a driver that cannot create a temporary may still do what was asked by other means: under a `tmp` fault exit
    # status 0 is held against the outputs - all of them must be there - instead of being a deviation by itself)
    tmp_fault = bool(fault) and fault[0] == "tmp"
    if (shape.ok is False or (fired and not tmp_fault)) and st == 0:
        devs.append(("exit0-despite-failure", "exit status 0"))
    elif st == 0 and obs.get("outstanding_at_exit"):
        # seen only under the step scheduler: the driver left with status 0 while a step it had started was still
        # waiting to run, so neither its status nor its output can be what the exit status promises
        devs.append(("exit0-with-step-outstanding", "exit status 0 before %s had run" % ", ".join(obs["outstanding_at_exit"])))
    if shape.ok is True and not fault and st != 0:
        devs.append(("nonzero-exit-without-failure", "exit status %s; stderr: %s" % (st, obs["stderr"][-300:].decode("utf-8", "replace"))))

    # 2. outputs of translation units that failed to compile
    failed_outs = shape.failed_tu_outputs(faulted_slots)
    if shape.mode != "link":
        # an output path shared with a translation unit that compiled is legitimately written by that one
        good = set(shape.tu_out[i] for i in shape.tu_out
                   if not (M.cc1_fails(shape.kinds[i], shape.mode) or i in faulted_slots))
        failed_outs -= good
    flagged = set()
    for p in sorted(failed_outs):
        if before.get(p) != after.get(p):
            if fired and fault[2] == "partial" and fault[0] == "cc1" and shape.mode in ("S", "E"):
                cnt["unjudged_partial_write_is_the_fault"] = 1   # the injected fault itself is the write
                flagged.add(p)
                continue
            if p in before and p not in after:
                # a driver may delete a stale output when its translation unit fails (gcc does); the property
                # forbids creating and overwriting, not this
                cnt["failed_tu_stale_output_removed"] = cnt.get("failed_tu_stale_output_removed", 0) + 1
                flagged.add(p)
                continue
            devs.append(("failed-tu-output-created" if p not in before else "failed-tu-output-overwritten",
                         "%s: %s -> %s" % (p, show(before.get(p)), show(after.get(p)))))
            flagged.add(p)

    # 3. temporaries
    if obs["leaks"]:
        devs.append(("temp-left", "left behind: %s" % ", ".join("%s (made by %s)" % (p, w) for w, p in obs["leaks"])))
    elif obs.get("tmpdir_left"):
        devs.append(("temp-left", "left in $TMPDIR: %s" % obs["tmpdir_left"]))

    # 4. the directory changes by exactly the requested outputs
    success = (not fault or tmp_fault) and st == 0 and shape.ok is not False
    devs += naming_devs(shape, before, after, flagged, success=success)
    if success:
        # Success was reported (also where the property lets the driver refuse - one -o for several inputs,
        # coinciding default names): then every translation unit's output is there, none was lost
        for p in shape.outputs:
            q = present_alt(shape, p, after)
            if q is None:
                continue        # reported as missing-output
            bad = content_problem(shape, p, after[q][1])
            if bad:
                devs.append(bad if isinstance(bad, tuple) else ("output-wrong-content", "%s: %s" % (q, bad)))
        names = [os.path.basename(a).encode() for a, k in zip(shape.inputs, shape.kinds) if k in M.C_KINDS]
        for alts, slot in shape.deps:
            q = next((a for a in alts if is_output_file(after.get(a)) and before.get(a) != after.get(a)), None)
            if q is not None and not any(n in after[q][1] for n in names):
                devs.append(("output-wrong-content", "dependency file %s names none of the inputs" % q))
        if shape.to_stdout:
            for i in [j for j, k in enumerate(shape.kinds) if k in M.C_KINDS]:
                if M.sym(i).encode() not in obs["stdout"]:
                    devs.append(("output-wrong-content", "stdout lacks the text of input %d" % i))
                    break
        if shape.name_collision:
            cnt["default_names_coincide_by_the_documented_rule"] = 1
    return devs, cnt


def file_ext(p):
    """'.o' for 'x.o', '..o' and '.o'; '' without a dot"""
    b = os.path.basename(p)
    return "." + b.rsplit(".", 1)[1] if "." in b and not b.endswith(".") else ""


def is_output_file(x):
    return x is not None and x[0] == "f" and x[1] != M.SENTINEL and bool(x[1])


def present_alt(shape, p, after):
    """The acceptable spelling of requested output p that exists (as a non-empty file that is not the sentinel)."""
    return next((q for q in shape.alts.get(p, (p,)) if is_output_file(after.get(q))), None)


def naming_devs(shape, before, after, flagged=(), success=False):
    """Clause 'the directory changes by exactly the requested outputs': every changed path is a requested output
    (in one of its acceptable spellings), inputs are untouched; on success every requested output exists.  Looks at
    names only, so it can also be applied to what another driver (gcc) does with the same command."""
    devs = []
    changed = sorted(p for p in set(before) | set(after) if before.get(p) != after.get(p))
    allowed = shape.allowed_paths()
    for p in changed:
        if p in flagged:
            continue
        if p in shape.in_files:
            devs.append(("input-modified", "%s: %s -> %s" % (p, show(before.get(p)), show(after.get(p)))))
        elif p not in allowed:
            ext = "-o-path" if p == shape.opath else "a.out" if os.path.basename(p) == "a.out" else (file_ext(p) or "other")
            devs.append(("unexpected-file|%s" % ext, "%s: %s -> %s (requested outputs: %s)" % (p, show(before.get(p)), show(after.get(p)), shape.outputs)))
    if success:
        missing = []
        for p in shape.outputs:
            if present_alt(shape, p, after) is None:
                missing.append(("missing-output", "%s: %s" % (p, show(after.get(p))), file_ext(p)))
        for alts, slot in shape.deps:
            if not any(is_output_file(after.get(a)) for a in alts):
                missing.append(("missing-output|.d", "dependency file of %s: none of %s exists" % (shape.inputs[slot], list(alts)), ".d"))
        # a requested output is absent and a file of the same type appeared under another name: one deviation
        for ext in sorted(set(m[2] for m in missing if m[2])):
            stray = [d for d in devs if d[0] == "unexpected-file|%s" % ext and ": absent -> " in d[1]]
            if stray:
                gone = [m for m in missing if m[2] == ext]
                devs = [d for d in devs if d not in stray]
                missing = [m for m in missing if m not in gone]
                devs.append(("output-misnamed|%s" % ext, "expected %s; created instead: %s" % (
                    "; ".join(m[1] for m in gone), "; ".join(d[1].split(" (requested")[0] for d in stray))))
        devs += [(m[0], m[1]) for m in missing]
    return devs


def show(x):
    if x is None:
        return "absent"
    if x[0] == "d":
        return "directory"
    if x[0] == "f":
        return "sentinel" if x[1] == M.SENTINEL else "file(%d bytes)" % len(x[1])
    return "?"


def content_problem(shape, p, data):
    """None, a text (wrong content), or a (deviation, detail) pair."""
    slots = [i for i in shape.tu_out if shape.tu_out[i] == p]
    if shape.mode == "link":
        if elf_type(data) not in (2, 3):
            return "not an ELF executable"
        slots = [i for i, k in enumerate(shape.kinds) if k != "lib"]
    elif shape.mode == "c":
        if elf_type(data) != 1:
            return "not a relocatable ELF object"
    have = [i for i in slots if M.sym(i).encode() in data]
    if shape.mode != "link" and len(slots) > 1:
        # One file is the output of several translation units (one -o, or coinciding default names) and the driver
        # reported success.  With coinciding DEFAULT names conventional drivers let the last unit win (gcc does):
        # not judged beyond "it is one of them".  With one -o the command either is refused or loses nothing.
        if shape.name_collision:
            return None if have else "contains none of the inputs %s" % slots
        if len(have) < len(slots):
            lost = [i for i in slots if i not in have]
            return ("tu-output-lost|units-share-one-output-file",
                    "exit status 0, but %s is the only output of %d translation units and lacks %s" % (
                        p, len(slots), ", ".join("input %d (%s)" % (i, shape.inputs[i]) for i in lost)))
        return None
    for i in slots:
        if i not in have:
            return "does not contain input %d (%s)" % (i, shape.inputs[i])
    return None


# ----------------------------------------------------------------------------------------------------
# step scheduler: N drivers in one directory, their subprocess steps granted one at a time in a chosen order
# ----------------------------------------------------------------------------------------------------
class OrchTimeout(core.HarnessError):
    pass


_SUBREAPER = False


def become_subreaper():
    """Orphans of the drivers (a step still blocked in its shim when its driver exits) are re-parented to this
    process, so they stay visible in its process tree and can be granted, awaited and reaped."""
    global _SUBREAPER
    if not _SUBREAPER:
        import ctypes
        ctypes.CDLL(None, use_errno=True).prctl(36, 1, 0, 0, 0)      # PR_SET_CHILD_SUBREAPER
        _SUBREAPER = True


def _pstate(pid):
    try:
        with open("/proc/%d/stat" % pid, "rb") as f:
            st = f.read()
    except OSError:
        return None
    i = st.rfind(b")")
    return chr(st[i + 2]) if 0 <= i and i + 2 < len(st) else None


def _pchildren(pid):
    out = []
    try:
        for t in os.listdir("/proc/%d/task" % pid):
            try:
                with open("/proc/%d/task/%s/children" % (pid, t)) as f:
                    out += [int(x) for x in f.read().split()]
            except (OSError, ValueError):
                pass
    except OSError:
        pass
    return out


class _Pending:
    __slots__ = ("conn", "pid", "driver", "kind", "k", "unit", "label")


def label_text(label):
    return "%d:%s(%s)" % tuple(label)


class Orchestrator:
    """Runs N drivers in one directory.  Every subprocess step of every driver blocks in its shim until granted;
    a driver may have any number of steps blocked at once (one that overlaps the steps of independent
    translation units has).  The orchestrator lets the system run until it is quiescent - every live process below
    this one is a blocked shim, or sleeps waiting for live children - and then grants exactly one of the blocked
    steps (a transition), waits until that step's process is gone, and repeats.  A run is therefore a function of the
    sequence of choices; `prefix` prescribes the first choices, afterwards the smallest label is taken.
    A step is labelled (driver, kind, unit): unit = the command-line input the step works on, followed through
    the outputs of earlier steps ('*' for ld), which does not depend on the order in which steps start."""

    QUIESCE_PATIENCE = 20.0     # s without quiescence after which a blocked step is granted anyway (counted)

    def __init__(self, cfg, rundir):
        self.cfg, self.rundir = cfg, rundir

    def run(self, prepare, cmds, prefix=(), faults=None, user_files=()):
        """prepare(sandbox) populates the directory; cmds: argv per driver; prefix: sequence of labels (or bare
        driver indices = that driver's smallest blocked step); faults: {driver: (kind, unit | ordinal, how)}.
        Returns a dict: obs (per driver), before, after, trace [(enabled labels, chosen)], granted [(label, k)],
        tmpleft, diverged (the prefix could not be followed), degraded."""
        faults = faults or {}
        user_files = set(user_files)
        by_base = {}
        for u in user_files:
            by_base.setdefault(os.path.basename(u), []).append(u)
        by_base = {b: us[0] for b, us in by_base.items() if len(us) == 1 and not b.startswith("-")}
        become_subreaper()
        me = os.getpid()
        foreign = set(_pchildren(me))       # children this process had before: not ours to watch or reap
        driver_pids = set()
        sb = Sandbox(self.cfg, self.rundir)
        procs, pending, orphans = [], {}, set()
        srv = None
        try:
            prepare(sb)
            before = snapshot(sb.d)
            sockp = os.path.join(sb.run, "sched.sock")
            srv = socket.socket(socket.AF_UNIX, socket.SOCK_STREAM)
            srv.bind(sockp)
            srv.listen(64)
            invs = []
            for i, argv in enumerate(cmds):
                f = faults.get(i)
                envf = f if f and (f[2] == "noexec" or f[0] == "tmp") else None    # the others are delivered in grant()
                pre, env, inv = sb.prepare_invocation("d%d" % i, envf, sched=sockp, ident=str(i))
                invs.append(inv)
                with open(os.path.join(inv, "stdout"), "wb") as so, open(os.path.join(inv, "stderr"), "wb") as se, sb.stdin_file() as fin:
                    procs.append(subprocess.Popen(pre + argv, cwd=sb.cwd, env=env, stdin=fin, stdout=so, stderr=se))
            driver_pids.update(p.pid for p in procs)
            deadline = time.time() + RUN_TIMEOUT
            stepinfo = [[] for _ in cmds]       # per driver: dict(kind, k, out, unit) of every announced step
            used = set()
            trace, granted = [], []
            delivered, cancelled = set(), []
            outstanding = {}
            state = {"degraded": 0, "diverged": False}

            def unit_of(i, kind, k):
                argv, out = [], "-"
                with open(os.path.join(invs[i], "steps.log"), errors="replace") as f:
                    for line in f:
                        w = line.split()
                        if w[:3] == ["B", kind, str(k)]:
                            out, argv = w[3], w[6:]
                if kind == "ld":
                    return "*", out
                skip = set(j + 1 for j, a in enumerate(argv) if a in ("-o", "-cc1-output"))
                cand = None
                # the input as written on the command line (inputs in different directories may share their last
                # component), else - a driver may rewrite the path - its last component when that is unambiguous
                if "-cc1-input" in argv[:-1]:
                    c = argv[argv.index("-cc1-input") + 1]
                    cand = c if c in user_files else by_base.get(os.path.basename(c))
                if cand is None:
                    hits = set(a for j, a in enumerate(argv) if j not in skip and a in user_files and (a == "-" or not a.startswith("-")))
                    if not hits:
                        hits = set(by_base[os.path.basename(a)] for j, a in enumerate(argv)
                                   if j not in skip and not a.startswith("-") and by_base.get(os.path.basename(a)))
                    if len(hits) == 1:
                        cand = hits.pop()
                if cand is None:
                    for j, a in enumerate(argv):
                        if j in skip or a == "-":
                            continue
                        src = [t for t in stepinfo[i] if t["out"] == a]
                        if src:
                            cand = src[-1]["unit"]
                            break
                return cand or "k%d" % k, out

            def announce(c):
                buf = b""
                c.settimeout(5.0)
                try:
                    while not buf.endswith(b"\n"):
                        ch = c.recv(256)
                        if not ch:
                            break
                        buf += ch
                except socket.timeout:
                    pass
                c.settimeout(None)
                w = buf.decode("ascii", "replace").split()
                if len(w) != 4 or not w[0].isdigit() or not w[1].isdigit() or not w[3].isdigit() or int(w[0]) >= len(cmds):
                    raise core.HarnessError("bad step announcement %r" % buf)
                p = _Pending()
                p.conn, p.driver, p.pid, p.kind, p.k = c, int(w[0]), int(w[1]), w[2], int(w[3])
                base, out = unit_of(p.driver, p.kind, p.k)
                p.unit, n = base, 1
                while (p.driver, p.kind, p.unit) in used:
                    n += 1
                    p.unit = "%s#%d" % (base, n)
                p.label = (p.driver, p.kind, p.unit)
                used.add(p.label)
                stepinfo[p.driver].append({"kind": p.kind, "k": p.k, "out": out, "unit": p.unit})
                pending[p.label] = p

            def live(pid):
                return _pstate(pid) not in (None, "Z", "X")

            def quiet_below(pid, blocked):
                st = _pstate(pid)
                if st in (None, "Z", "X") or pid in blocked:
                    return True
                if st != "S":
                    return False
                kids = [c for c in _pchildren(pid) if live(c)]
                return bool(kids) and all(quiet_below(c, blocked) for c in kids)

            def tree_quiet():
                blocked = set(p.pid for p in pending.values())
                for c in _pchildren(me):
                    if c in foreign:
                        continue
                    if c not in driver_pids:
                        orphans.add(c)
                    if not quiet_below(c, blocked):
                        return False
                return True

            def settle():
                quiet, t0 = 0, time.time()
                while True:
                    now = time.time()
                    if now > deadline:
                        raise OrchTimeout("step scheduling timed out (%d steps blocked)" % len(pending))
                    conns = [p.conn for p in pending.values()]
                    r, _, _ = select.select([srv] + conns, [], [], 0.0004)
                    if r:
                        quiet = 0
                        for x in r:
                            if x is srv:
                                c, _ = srv.accept()
                                announce(c)
                            else:       # a blocked shim died (its driver killed it): the step is withdrawn
                                for lab, p in list(pending.items()):
                                    if p.conn is x:
                                        x.close()
                                        del pending[lab]
                                        cancelled.append(lab)
                        continue
                    if tree_quiet():
                        quiet += 1
                        if quiet >= 2:
                            return
                    else:
                        quiet = 0
                        if pending and now - t0 > self.QUIESCE_PATIENCE:
                            state["degraded"] += 1
                            return

            def grant(label):
                p = pending.pop(label)
                f = faults.get(p.driver)
                how = None
                if f and f[2] != "noexec" and f[0] == p.kind and (f[1] == p.unit or f[1] == p.k) and p.driver not in delivered:
                    how = f[2]
                    delivered.add(p.driver)
                p.conn.sendall(("fault:%s\n" % how if how else "go\n").encode())
                while True:                 # end of file = the shim's process has closed its descriptors (is exiting)
                    if time.time() > deadline:
                        raise OrchTimeout("step %s timed out" % label_text(label))
                    r, _, _ = select.select([p.conn], [], [], 1.0)
                    if r and not p.conn.recv(64):
                        break
                p.conn.close()
                while live(p.pid):
                    if time.time() > deadline:
                        raise OrchTimeout("step %s does not terminate" % label_text(label))
                    time.sleep(0.0002)
                granted.append((label, p.k))

            while True:
                settle()
                for i, pr in enumerate(procs):
                    if i not in outstanding and pr.poll() is not None:
                        outstanding[i] = [label_text(l) for l in sorted(pending) if l[0] == i]
                if not pending:
                    if all(pr.poll() is not None for pr in procs):
                        break
                    continue
                enabled = tuple(sorted(pending))
                choice = enabled[0]
                if len(trace) < len(prefix):
                    want = prefix[len(trace)]
                    if isinstance(want, int):
                        want = next((l for l in enabled if l[0] == want), None)
                    else:
                        want = tuple(want)
                    if want in pending:
                        choice = want
                    else:
                        state["diverged"] = True
                trace.append((enabled, choice))
                grant(choice)
            obs = []
            for i, pr in enumerate(procs):
                pr.wait()
                with open(os.path.join(invs[i], "stdout"), "rb") as f:
                    out = f.read()
                with open(os.path.join(invs[i], "stderr"), "rb") as f:
                    err = f.read()
                o = sb.collect(invs[i], pr.returncode, out, err)
                o["outstanding_at_exit"] = outstanding.get(i, [])
                o["fault_delivered"] = i in delivered
                obs.append(o)
            after = snapshot(sb.d)
            tmpleft = sorted(os.listdir(os.path.join(sb.run, "tmp")))
            return {"obs": obs, "before": before, "after": after, "trace": trace, "granted": granted, "tmpleft": tmpleft,
                    "diverged": state["diverged"] or len(trace) < len(prefix), "degraded": state["degraded"],
                    "cancelled": cancelled}
        finally:
            for p in pending.values():
                try:
                    os.kill(p.pid, 9)
                except OSError:
                    pass
                p.conn.close()
            for pr in procs:
                if pr.poll() is None:
                    pr.kill()
                    pr.wait()
            for c in set(_pchildren(me)) | orphans:
                if c in foreign or c in driver_pids:
                    continue
                try:
                    if _pstate(c) not in (None, "Z", "X"):
                        os.kill(c, 9)
                    os.waitpid(c, 0)
                except OSError:
                    pass
            if srv is not None:
                srv.close()
            sb.destroy()


def orch_run(orch, *args):
    """Orchestrator.run, once more after a harness timeout; then a result marked `timeout` (never judged)."""
    for _ in range(2):
        try:
            return orch.run(*args)
        except OrchTimeout:
            pass
    return {"timeout": True, "diverged": True, "degraded": 0, "trace": [], "granted": []}


def explore(run_once, root=(), path_only=False, max_runs=6000):
    """Stateless depth-first exploration of the choice tree below `root`: returns ([(prefix, result)], truncated).
    run_once(prefix) -> Orchestrator.run() result.  path_only: just the default path below root (the caller
    splits the rest with siblings())."""
    out, stack = [], [tuple(root)]
    while stack:
        pre = stack.pop()
        res = run_once(pre)
        for _ in range(2):      # an overloaded machine can make a run miss its prefix (see QUIESCE_PATIENCE): try again
            if not res.get("diverged") or res.get("timeout"):
                break
            res = run_once(pre)
        out.append((pre, res))
        if path_only:
            break
        if len(out) + len(stack) > max_runs:
            return out, True
        stack += reversed(siblings(pre, res))
    return out, False


def siblings(pre, res):
    """The roots of the unexplored subtrees hanging off the path of one run (disjoint, and with the path itself a
    partition of the subtree below `pre`)."""
    if res.get("diverged") or res.get("timeout"):
        return []
    tr = res["trace"]
    out = []
    for idx in range(len(pre), len(tr)):
        enabled, chosen = tr[idx]
        for alt in enabled:
            if alt != chosen:
                out.append(tuple(c for _, c in tr[:idx]) + (alt,))
    return out


# ----------------------------------------------------------------------------------------------------
# part 1 worker: one shape, no fault + every (step x fault)
# ----------------------------------------------------------------------------------------------------
def run_shape(cfg, shape, faults, rundir, force_orch=False):
    """Returns dict(runs, viol=[(fault, deviation, detail, via)], counters, base_steps).  via = "free" (the driver
    ran unhindered) or "orch" (under the step scheduler, used when the driver overlaps its own steps)."""
    res = {"runs": 0, "viol": [], "cnt": {}, "steps": [], "ntemps": 0, "status": None, "orch_error": None,
           "forks": 0, "fault_points": 0}
    # "enospc" is not a way for a step to fail: it asks for the driver's own k-th temporary-file creation to fail
    tmp_faults = [h for h in faults if h == TMP_FAULT]
    faults = [h for h in faults if h != TMP_FAULT]

    def bump(cnt):
        for k, v in cnt.items():
            res["cnt"][k] = res["cnt"].get(k, 0) + v

    def one(fault, base_steps, cc1_slots):
        sb = Sandbox(cfg, rundir)
        try:
            sb.populate(shape)
            before = snapshot(sb.d)
            obs = sb.run_one(shape.argv(sb.d), fault)
            after = snapshot(sb.d)
        finally:
            sb.destroy()
        res["runs"] += 1
        res["ntemps"] += obs["ntemps"]
        devs, cnt = judge(shape, fault, obs, before, after, base_steps, cc1_slots)
        bump(cnt)
        return obs, devs

    obs0, devs0 = one(None, None, None)
    res["status"] = obs0["status"]
    base_steps = [(s["kind"], s["k"]) for s in obs0["steps"]]
    res["steps"] = base_steps
    res["forks"] = obs0["nforks"]
    tmp_points = [("tmp", k, how) for how in tmp_faults for k in range(1, obs0["driver_mks"] + 1)]
    res["fault_points"] = len(base_steps) * len(faults) + len(tmp_points)
    cc1_slots = []
    for s in obs0["steps"]:
        if s["kind"] == "cc1":
            a = s["argv"]
            inp = a[a.index("-cc1-input") + 1] if "-cc1-input" in a and a.index("-cc1-input") + 1 < len(a) else ""
            cc1_slots.append(shape.slot_of_input(inp))
    model_steps = sorted(k for k, _ in shape.steps)
    if obs0["status"] == 0 and sorted(k for k, _ in base_steps) != model_steps:
        res["cnt"]["steps_differ_from_model"] = 1
    if obs0["status"] == 0:
        # The front end need not be a program of its own (a driver may compile in a forked copy of itself, or in
        # process): then there is no cc1 step to observe or to make fail.  Not a deviation; counted, and everything
        # that is judged (exit status, temporaries, outputs) is judged all the same.
        want = sum(1 for k in model_steps if k == "cc1")
        seen = sum(1 for k, _ in base_steps if k == "cc1")
        res["cnt"]["cc1_steps_expected_in_successful_commands"] = want
        if seen < want:
            res["cnt"]["cc1_steps_not_observable"] = want - seen
    overlap = obs0["overlap"] or force_orch
    free_viol = [(None, dv, detail, "free") for dv, detail in devs0]
    if not overlap:
        if devs0:
            res["viol"] += free_viol
            res["cnt"]["fault_enumeration_skipped_on_violating_base"] = 1
            return res
        for (kind, k) in base_steps:
            for how in faults:
                fault = (kind, k, how)
                obs, devs = one(fault, base_steps, cc1_slots)
                overlap = overlap or obs["overlap"]
                free_viol += [(fault, dv, detail, "free") for dv, detail in devs]
        for fault in tmp_points:
            obs, devs = one(fault, base_steps, cc1_slots)
            free_viol += [(fault, dv, detail, "free") for dv, detail in devs]
    if not overlap:
        res["viol"] += free_viol
        return res
    # The driver runs steps of its own concurrently: what a free run shows depends on which step finishes first.
    # Redo the enumeration under the step scheduler, every completion order of simultaneously blocked steps, without
    # fault and with a fault at every step; the free-running verdicts are superseded (they are the same runs under
    # an uncontrolled order).
    res["cnt"]["shapes_with_overlapping_steps"] = 1
    try:
        run_shape_orch(cfg, shape, faults, rundir, res, base_steps, cc1_slots, bump, tmp_points)
    except core.HarnessError as e:
        if isinstance(e, OrchTimeout):
            res["cnt"]["timeouts"] = res["cnt"].get("timeouts", 0) + 1
        else:
            res["orch_error"] = "%s: %s" % (shape.key(), e)
        res["viol"] += free_viol        # fall back to what the free runs showed (confirmed serially like everything)
    return res


def run_shape_orch(cfg, shape, faults, rundir, res, base_steps, cc1_slots, bump, tmp_points=()):
    orch = Orchestrator(cfg, rundir)
    absroot = os.path.join(rundir, "d")     # where Sandbox(cfg, rundir) puts the observed tree

    def sweep(fault):
        def once(pre):
            return orch_run(orch, lambda sb: sb.populate(shape), [shape.argv(absroot)], pre, {0: fault} if fault else {},
                            shape.inputs_at(absroot))
        runs, truncated = explore(once)
        if truncated:
            res["cnt"]["order_exploration_truncated"] = res["cnt"].get("order_exploration_truncated", 0) + 1
        nviol = 0
        for pre, r in runs:
            res["runs"] += 1
            if r.get("timeout"):
                bump({"timeouts": 1})
                continue
            o = r["obs"][0]
            o["tmpdir_left"] = r["tmpleft"]
            res["ntemps"] += o["ntemps"]
            devs, cnt = judge(shape, fault, o, r["before"], r["after"], base_steps, cc1_slots)
            cnt = dict(cnt, orchestrated_runs=1, schedule_divergences=int(r["diverged"]), quiescence_degraded=r["degraded"])
            bump({k: v for k, v in cnt.items() if v})
            order = " ".join(label_text(c)[2:] for _, c in r["trace"])
            for dv, detail in devs:
                res["viol"].append((fault, dv, "%s [steps completed in the order: %s]" % (detail, order), "orch"))
                nviol += 1
        return runs, nviol

    runs0, nviol0 = sweep(None)
    bump({"completion_orders_without_fault": len(runs0)})
    if nviol0:
        res["cnt"]["fault_enumeration_skipped_on_violating_base"] = 1
        return
    points = []         # (kind, unit, ordinal) of every step seen in any order
    for _, r in runs0:
        for (d, kind, unit), k in r["granted"]:
            if (kind, unit) not in [(a, b) for a, b, _ in points]:
                points.append((kind, unit, k))
    for kind, unit, k in points:
        for how in faults:
            # exec-not-found is arranged through the environment and addressed by ordinal (see c14_shim.c)
            sweep((kind, k, how) if how == "noexec" else (kind, unit, how))
    for fault in tmp_points:
        sweep(fault)


def _shape_batch(args):
    cfg, specs, wid = args
    t0 = time.time()
    iso = isolate_tmp(cfg)
    out = []
    for spec, faults in specs:
        shape = M.Shape(*spec)
        r = run_shape(cfg, shape, list(faults), os.path.join(cfg["root"], "w%d" % wid))
        r["iso"] = iso
        out.append((spec, r))
    if out:
        out[0][1]["batch_seconds"] = round(time.time() - t0, 1)
    return out


# ----------------------------------------------------------------------------------------------------
# part 2: schedules
# ----------------------------------------------------------------------------------------------------
SCENARIOS = {
    # name: (files, [argv per driver], {driver: [its output paths]}, shared-output?)
    "link-distinct": (["a.c", "b.c"], [["-o", "pa", "a.c"], ["-o", "pb", "b.c"]]),
    "link-same-input-same-output": (["a.c"], [["-o", "pa", "a.c"], ["-o", "pa", "a.c"]]),
    "c-default-names": (["a.c", "b.c"], [["-c", "a.c"], ["-c", "b.c"]]),
    "c-overlap-input": (["a.c", "b.c"], [["-c", "a.c", "b.c"], ["-c", "-o", "x.o", "b.c"]]),
    "S-and-link": (["a.c", "b.c"], [["-S", "-o", "a.s", "a.c"], ["-o", "pb", "b.c"]]),
    "c3": (["a.c", "b.c", "c.c"], [["-c", "a.c"], ["-c", "b.c"], ["-c", "c.c"]]),
    "c-same-output-different-input": (["a.c", "b.c"], [["-c", "-o", "x.o", "a.c"], ["-c", "-o", "x.o", "b.c"]]),
    "link3": (["a.c", "b.c"], [["-o", "pa", "a.c"], ["-o", "pb", "b.c"], ["-o", "pa2", "a.c"]]),
}
SCEN_FILES = {
    "a.c": b"int vp_a(void){return 11;}\nint main(void){return 0;}\n",
    "b.c": b"int vp_b(void){return 22;}\nint main(void){return 0;}\n",
    "c.c": b"int vp_c(void){return 33;}\nint main(void){return 0;}\n",
}
SCEN_PLAN = {
    "quick": [("link-distinct", ["exit1", "kill"]), ("link-same-input-same-output", ["exit1"]),
              ("c-default-names", ["kill", "partial"]), ("c-overlap-input", ["exit1"]), ("S-and-link", ["exit1"])],
    "thorough": [("link-distinct", ["exit1", "segv", "kill", "noexec", "partial"]),
                 ("link-same-input-same-output", ["exit1", "kill", "partial"]),
                 ("c-default-names", ["exit1", "kill", "noexec", "partial"]), ("c-overlap-input", ["exit1", "kill"]),
                 ("S-and-link", ["exit1", "kill"]), ("c3", ["exit1", "kill"]), ("link3", []),
                 ("c-same-output-different-input", ["exit1"])],
}


def _writer(files):
    def prepare(sb):
        for name, data in files.items():
            with open(os.path.join(sb.d, name), "wb") as f:
                f.write(data)
    return prepare


def solo_result(cfg, rundir, files, argv, fault):
    """One driver alone under the scheduler (its own overlapping steps, if any, in canonical order)."""
    r = orch_run(Orchestrator(cfg, rundir), _writer(files), [argv], (), {0: fault} if fault else {}, files)
    if r.get("timeout"):
        raise OrchTimeout("solo run of chibicc %s timed out twice" % " ".join(argv))
    return r["obs"][0], r["after"], r["granted"]


def _sched_batch(args):
    """One scenario x one fault assignment x a list of subtree roots of the schedule tree.  mode "path": only the
    default path below each root is run (the caller splits the remainder); "dfs": the whole subtree.
    Returns [(root, choices (None: harness timeout, not judged), diverged, degraded, deviations, roots of the
    unexplored siblings)]."""
    cfg, scen, fault_assign, roots, mode, isolate, wid = args
    if isolate:
        isolate_tmp(cfg)
    files = {n: SCEN_FILES[n] for n in SCENARIOS[scen][0]}
    cmds = SCENARIOS[scen][1]
    rundir = os.path.join(cfg["root"], "s%d" % wid)
    orch = Orchestrator(cfg, rundir)
    # Solo reference runs are made in the very same directory path as the concurrent runs: the assembler records
    # the working directory in the object's line table, so outputs are comparable only for equal paths.
    solos = []
    for i, argv in enumerate(cmds):
        o, after, eff = solo_result(cfg, rundir, files, argv, fault_assign.get(i))
        solos.append((o["status"], {p: v for p, v in after.items() if p not in files}))

    def once(pre):
        return orch_run(orch, _writer(files), cmds, pre, fault_assign, files)
    out = []
    for root in roots:
        runs, truncated = explore(once, root, path_only=(mode == "path"))
        for pre, r in runs:
            if r.get("timeout"):
                out.append((pre, None, True, 0, [], []))
                continue
            out.append((pre, tuple(c for _, c in r["trace"]), r["diverged"] or truncated, r["degraded"],
                        _sched_judge(files, solos, r), siblings(pre, r) if mode == "path" else []))
    return out


def _sched_judge(files, solos, r):
    obs, after, tmpleft = r["obs"], r["after"], r["tmpleft"]
    devs = []
    for i, o in enumerate(obs):
        if not o["driver_seen"]:
            raise core.HarnessError("interposer not loaded in concurrent driver")
        if b"c14_shim:" in o["stderr"]:
            raise core.HarnessError("shim failure under scheduling: %r" % o["stderr"][-300:])
        solo_status, solo_files = solos[i]
        if (o["status"] == 0) != (solo_status == 0):
            devs.append((i, "status-differs-from-solo", "driver %d: exit %s, solo run: %s" % (i, o["status"], solo_status)))
        if o["status"] == 0 and o["outstanding_at_exit"]:
            devs.append((i, "exit0-with-step-outstanding", "driver %d left with status 0 before %s had run" % (i, ", ".join(o["outstanding_at_exit"]))))
        if o["leaks"]:
            devs.append((i, "temp-left", "driver %d left %s" % (i, [p for _, p in o["leaks"]])))
    # every file in the directory must be what one of the drivers that writes it produces alone
    for p in sorted(set(after) - set(files)):
        cands = [s[1].get(p) for s in solos if s[1].get(p) is not None]
        if not cands:
            devs.append((-1, "unexpected-file", "%s exists after the concurrent run; no solo run creates it" % p))
        elif after[p] not in cands:
            devs.append((-1, "output-differs-from-solo", "%s: %s, solo: %s" % (p, show(after[p]), [show(c) for c in cands])))
    for i, s in enumerate(solos):
        for p, v in s[1].items():
            if p not in files and p not in after:
                devs.append((i, "output-missing-vs-solo", "%s produced by driver %d alone is absent" % (p, i)))
    if tmpleft:
        devs.append((-1, "temp-left", "TMPDIR: %s" % tmpleft))
    return devs


# ----------------------------------------------------------------------------------------------------
# main
# ----------------------------------------------------------------------------------------------------
def shape_specs(tier):
    """[(spec, faults to inject at every step)] of every command shape of the tier, and the number of generated shapes
    the property does not define."""
    specs, undefined = [], 0
    allf = tuple(FAULTS[tier])
    shapes = [(sh, allf) for sh in M.enumerate_shapes(ALPHABET[tier])]
    shapes += [(M.Shape(mode, o, kinds, "w"), allf) for mode in ("c", "link") for o in (None, "file") for kinds in EXTRA_LISTS[tier]]
    # the driver's own k-th temporary-file creation fails: wherever step faults are enumerated and temporaries are used
    shapes = [(sh, f + (TMP_FAULT,) if f and tmp_fault_applies(sh) else f) for sh, f in shapes]
    shapes += [(sh, f + (TMP_FAULT,) if f and tmp_fault_applies(sh) else f) for sh, f in stdin_family(tier)]
    shapes += path_family(tier) + driver_family(tier)
    seen = set()
    for sh, faults in shapes:
        spec = sh.spec()
        if spec in seen:
            continue
        seen.add(spec)
        if not sh.defined:
            undefined += 1
            continue
        specs.append((spec, faults))
    return specs, undefined


def tmp_fault_applies(sh):
    return sh.mode in ("c", "link") and sh.outloc == "w"


# Failures that originate in the DRIVER itself, possibly after it has run steps for earlier inputs: a word of the
# command the driver must refuse or cannot use - DRIVER_BAD - at every position (first, middle, last) of lists of two
# and three whose other members are good, in every mode x -o {absent, file} x {writable, sentinel at every output};
# the kinds of M.DRIVER_FAULT_KINDS also alone.  No step fault is injected into these (the failure under study is the
# driver's), but GOOD3 lists get the `tmp` fault at every temporary.
#   unk        a file whose extension names no language      opt_unk   an option no driver knows
#   opt_badx   -x with an unknown language                  opt_noarg -o without its argument (last word only)
#   c_nx s_nx o_nx  a missing input of each language         c_dir     an unreadable input
DRIVER_BAD = ["unk", "opt_unk", "opt_badx", "c_nx", "s_nx", "o_nx", "c_dir"]
DRIVER_FILL2 = ["c", "s", "o"]
DRIVER_FILL3 = {"quick": [("c", "c")], "thorough": list(itertools.product(["c", "s", "o"], repeat=2))}
GOOD3 = {"quick": [("c", "c", "c"), ("c", "s", "o")],
         "thorough": [("c", "c", "c"), ("c", "s", "o"), ("s", "c", "c"), ("o", "c", "s"), ("s", "s", "s")]}
# One -o for several inputs, written before, between and after the inputs (a refusal that depends on where -o stands
# comes after steps have run); with all faults for OPOS_FAULT_LISTS in the modes that use temporaries.
OPOS_LISTS = [("c", "c"), ("c", "s"), ("c", "c", "c")]
OPOS_FAULT_LISTS = [("c", "c")]


def driver_lists(tier):
    lists = [(k,) for k in M.DRIVER_FAULT_KINDS]
    for bad in DRIVER_BAD:
        for f in DRIVER_FILL2:
            lists += [(bad, f), (f, bad)]
        for f in DRIVER_FILL3[tier]:
            lists += [f[:pos] + (bad,) + f[pos:] for pos in range(3)]
    lists += [(f, "opt_noarg") for f in DRIVER_FILL2] + [f + ("opt_noarg",) for f in DRIVER_FILL3[tier]]
    return lists


def driver_family(tier):
    out = []
    for kinds in driver_lists(tier):
        for mode in ("E", "S", "c", "link"):
            for o in (None, "file"):
                for outloc in ("w", "sent"):
                    out.append((M.Shape(mode, o, kinds, outloc), ()))
    for kinds in GOOD3[tier]:
        for mode in ("c", "link"):
            for o in (None, "file"):
                out.append((M.Shape(mode, o, kinds, "w"), (TMP_FAULT,)))
    for kinds in OPOS_LISTS:
        for mode in ("E", "S", "c", "link"):
            for pos in range(1, len(kinds) + 1):
                for outloc in ("w", "sent"):
                    sh = M.Shape(mode, "file", kinds, outloc, (("opos", pos),))
                    faulted = kinds in OPOS_FAULT_LISTS and tmp_fault_applies(sh)
                    out.append((sh, tuple(FAULTS[tier]) + (TMP_FAULT,) if faulted else ()))
    return out


# Standard input and library arguments as inputs.  Every list is run in every mode x -o {absent, file, -} x output
# location; the lists in STDIN_FAULT_LISTS (writable directory, -o absent / file) additionally with every fault at
# every step.  Each list with two translation units and one -o is a command the driver must either refuse or carry out
# without losing a unit.
STDIN_LISTS = {
    "quick": [("c_in",), ("s_in",), ("c_pp_in",), ("c_gen_in",),
              ("c", "c_in"), ("c_in", "c"), ("s", "s_in"), ("s_in", "s"), ("c_pp", "c_in"), ("c_in", "c_pp"),
              ("c", "c_pp_in"), ("c_pp_in", "c"), ("c_gen_in", "c"), ("c_asm", "c_in"),
              ("c", "lib"), ("lib", "c"), ("c_in", "lib"), ("s", "lib"), ("c_pp", "lib"),
              ("c", "lib", "c_in"), ("c", "c", "lib")],
}
STDIN_LISTS["thorough"] = STDIN_LISTS["quick"] + [
    ("c_in", "c_gen"), ("c_gen", "c_in"), ("c", "c_gen_in"), ("c_in", "c_asm"), ("s_bad", "s_in"), ("s_in", "s_bad"),
    ("c_in", "c_nx"), ("c_nx", "c_in"), ("lib", "c_in"), ("s_in", "lib"), ("lib", "s"), ("c", "c_in", "c"), ("c_in", "c", "c"),
    ("c", "c", "c_in"), ("s", "s_in", "s"), ("c_in", "lib", "c"), ("lib", "c", "c_in"), ("c", "c_pp_in", "c"),
    ("c_pp", "c_in", "c"), ("c", "lib", "c"), ("o", "lib"), ("c", "o", "lib")]
STDIN_FAULT_LISTS = {
    "quick": [("c_in",), ("c", "c_in"), ("c_in", "c"), ("s_in", "s"), ("c", "lib")],
    "thorough": STDIN_LISTS["thorough"],
}


def stdin_family(tier):
    out = []
    for kinds in STDIN_LISTS[tier]:
        for mode in ("E", "S", "c", "link"):
            for o in (None, "file", "dash"):
                for outloc in ("w", "sent", "unw"):
                    faulted = kinds in STDIN_FAULT_LISTS[tier] and o != "dash" and (outloc == "w" or tier == "thorough")
                    out.append((M.Shape(mode, o, kinds, outloc), tuple(FAULTS[tier]) if faulted else ()))
    return out


# How inputs and -o are NAMED.  form = "<directory form>|<name form>" (models/c14_driver.py DIR_FORMS x NAME_FORMS).
ALL_FORMS = ["%s|%s" % (d, n) for d in M.DIR_FORMS for n in M.NAME_FORMS]
# the forms that are paired with each other in the quick tier: every directory form, every name form
PAIR_FORMS = {
    "quick": ["|ext", "./|noext", "d.1/|noext", "../up.2/|noext", "../up.2/|dots", "sub/|same", "d.1/|same", "d.1/|dotonly"],
    "thorough": ALL_FORMS,
}
# inputs used where the -o spelling / -MF is what varies
FEW_FORMS = ["|ext", "d.1/|noext", "../up.2/|dots"]


def path_family(tier):
    """Good inputs only (kinds c and s), no injected faults: what is explored here is the naming of outputs.
      single input: every form x every mode x {no -o} x {writable, sentinel at the documented names} x {-, -MD};
      single input x every -o spelling x {-, -MD}; -MD -MF;
      two inputs of one language: every ordered pair over PAIR_FORMS x {-S, -c} x {-, -MD}, link x -MD (thorough: link
      without -MD and with -o as well)."""
    out = []

    def add(mode, o, kinds, outloc, **var):
        out.append((M.Shape(mode, o, kinds, outloc, tuple(sorted(var.items()))), ()))
    for f in ALL_FORMS:
        for mode in ("E", "S", "c", "link"):
            add(mode, None, ("c",), "w", paths=(f,))
            add(mode, None, ("c",), "w", paths=(f,), md="MD")
            if mode in ("S", "c"):
                add(mode, None, ("c",), "sent", paths=(f,))
            if mode in ("c", "link"):
                add(mode, None, ("s",), "w", paths=(f,))
            if mode == "c":
                add(mode, None, ("s",), "sent", paths=(f,))
    for f in FEW_FORMS:
        for mode in ("E", "S", "c", "link"):
            for of in M.O_FORMS:
                for md in (None, "MD"):
                    add(mode, "file", ("c",), "w", paths=(f,), oform=of, md=md)
                if mode in ("c", "link"):
                    add(mode, "file", ("s",), "w", paths=(f,), oform=of)
            for o in (None, "file"):
                add(mode, o, ("c",), "w", paths=(f,), md="MF")
    forms = PAIR_FORMS[tier]
    for f in forms:
        for g in forms:
            # (in link mode only the dependency files are named after the inputs)
            for mode in ("S", "c"):
                add(mode, None, ("c", "c"), "w", paths=(f, g))
            add("c", None, ("s", "s"), "w", paths=(f, g))
            add("c", None, ("c", "c"), "w", paths=(f, g), md="MD")
            add("link", None, ("c", "c"), "w", paths=(f, g), md="MD")
            if tier == "thorough":
                add("link", None, ("c", "c"), "w", paths=(f, g))
                add("link", None, ("s", "s"), "w", paths=(f, g))
                add("link", "file", ("c", "c"), "w", paths=(f, g), oform="./out", md="MD")
    if tier == "thorough":
        for f in PAIR_FORMS["quick"]:
            for g in PAIR_FORMS["quick"]:
                for h in FEW_FORMS + ["sub/|same"]:
                    for mode in ("c", "link"):
                        add(mode, None, ("c", "c", "c"), "w", paths=(f, g, h))
    return out


# ----------------------------------------------------------------------------------------------------
# second oracle for output names: what gcc creates for the same command
# ----------------------------------------------------------------------------------------------------
def _gcc_naming(args):
    """For -S / -c shapes of the naming family: run gcc with the very same arguments in the same tree and apply the
    naming clause to what it did.  Returns [(spec, deviations)]: a shape with deviations is one where the model's
    idea of 'the requested outputs' is not shared by the reference driver - it is then not judged at all."""
    cfg, specs, wid = args
    gcc = shutil.which("gcc")
    out = []
    for spec in specs:
        shape = M.Shape(*spec)
        sb = Sandbox(cfg, os.path.join(cfg["root"], "g%d" % wid))
        try:
            sb.populate(shape)
            before = snapshot(sb.d)
            with sb.stdin_file() as fin:
                st, _, err = _run_plain([gcc, "-w"] + shape.argv(sb.d), sb.cwd, fin)
            after = snapshot(sb.d)
        finally:
            sb.destroy()
        if st == "timeout":
            out.append((spec, ["timeout"]))
            continue
        ok = st == 0
        devs = [d for d, _ in naming_devs(shape, before, after, success=ok)]
        if shape.ok is True and not ok:
            devs.append("rejected")
        if shape.ok is False and ok:
            devs.append("accepted")
        out.append((spec, devs))
    return out


def _run_plain(argv, cwd, fin):
    try:
        p = subprocess.run(argv, cwd=cwd, stdin=fin, stdout=subprocess.PIPE, stderr=subprocess.PIPE, timeout=RUN_TIMEOUT)
        return p.returncode, p.stdout, p.stderr
    except subprocess.TimeoutExpired:
        return "timeout", b"", b""


def gcc_naming_oracle(cfg, specs, driver_specs=frozenset()):
    """gcc arbitrates the naming-family shapes with ONE input under -S / -c (writable directory): that is where the
    naming rule lives.  A shape with several inputs is covered by the verdicts on each of its inputs alone (what
    happens when names coincide is not judged by name anyway).  Returns ({name class: deviations}, number of gcc runs,
    number of gcc runs that disagree with the model)."""
    naming = [spec for spec in specs if len(spec) == 5 and any(k in ("paths", "oform") for k, _ in spec[4])]
    todo = [spec for spec in naming if spec[0] in ("S", "c") and spec[3] == "w" and len(spec[2]) == 1]
    # ... and the driver-fault family (writable directory): must the command fail, and what may it still create
    todo += [spec for spec in specs if spec in driver_specs and spec[3] == "w"]
    nb = core.NPROC * 2
    jobs = [(cfg, todo[i::nb], i) for i in range(nb) if todo[i::nb]]
    bad = {}
    for res in core.pmap(_gcc_naming, jobs):
        for spec, devs in res:
            if devs:
                bad[_nameclass(spec)] = devs
    direct = len(bad)
    for spec in naming:
        if len(spec[2]) > 1:
            var = dict(spec[4])
            for i, k in enumerate(spec[2]):
                # the same input alone, in slot 0 (the slot number is part of some names only)
                single = (spec[0], spec[1], (k,), tuple(sorted(dict(var, paths=(var["paths"][i],)).items())))
                if single in bad:
                    bad[_nameclass(spec)] = ["input %d alone: %s" % (i, "+".join(bad[single]))]
    return bad, len(todo), direct, set(_nameclass(spec) for spec in todo)


def _nameclass(spec):
    return (spec[0], spec[1], spec[2], spec[4] if len(spec) == 5 else ())


def shape_from_json(spec):
    var = tuple((k, tuple(v) if isinstance(v, list) else v) for k, v in spec[4]) if len(spec) > 4 else ()
    return M.Shape(spec[0], spec[1], tuple(spec[2]), spec[3], var)


def family_of(spec, driver_specs=()):
    if spec in driver_specs:
        return "driver-fault"
    if len(spec) == 5:
        return "naming"
    if any(k in M.STDIN_KINDS or k == "lib" for k in spec[2]):
        return "stdin+lib"
    return "classic"


def fault_class(fault):
    return "none" if not fault else "%s:%s" % (fault[0], fault[2])


REPLAY = "python3 $VERIF/checks/c14.py --replay-case case.json"


def fault_text(fault):
    return "none" if not fault else "%s#%s:%s" % tuple(fault)


def _debug(ctx, what):
    if os.environ.get("C14_DEBUG"):
        sys.stderr.write("[c14 %6.1fs] %s\n" % (time.time() - ctx.t0, what))


def run(ctx):
    cfg = build_tools(ctx.chibicc, ctx.include, ctx.work)
    faults = FAULTS[ctx.tier]
    _debug(ctx, "tools built")

    # ---------------- part 1 ----------------
    specs, undefined = shape_specs(ctx.tier)
    # Output names: the model's documented names must be what the reference driver produces too, otherwise the
    # shape is not judged (two-oracle rule)
    driver_specs = frozenset(sh.spec() for sh, _ in driver_family(ctx.tier))
    name_disagree, gcc_runs, gcc_disagree, gcc_direct = gcc_naming_oracle(cfg, [sp for sp, _ in specs], driver_specs)
    nspecs = len(specs)
    specs = [(sp, f) for sp, f in specs if _nameclass(sp) not in name_disagree]
    ctx.cover(gcc_naming_oracle_runs=gcc_runs, oracle_disagreements=gcc_disagree,
              oracle_disagreement_cases=sorted("chibicc %s: gcc %s" % (" ".join(M.Shape(k[0], k[1], k[2], "w", k[3]).argv()), "+".join(v))
                                               for k, v in name_disagree.items() if k in gcc_direct),
              shapes_not_judged_for_oracle_disagreement=nspecs - len(specs))
    if gcc_runs and gcc_disagree * 4 > gcc_runs:
        raise core.HarnessError("the naming model and gcc disagree on %d of %d commands, e.g. %s" % (
            gcc_disagree, gcc_runs, sorted(name_disagree.items(), key=str)[:3]))
    _debug(ctx, "gcc naming oracle: %d runs, %d disagreements" % (gcc_runs, gcc_disagree))
    # expensive shapes (fault enumeration) first, round-robin over the batches
    specs.sort(key=lambda t: -len(t[1]))
    order = list(range(len(specs)))
    if ctx.seed:
        import random
        random.Random(ctx.seed).shuffle(order)
    nb = core.NPROC * 6
    batches = [[specs[j] for j in order[i::nb]] for i in range(nb)]
    batches = [b for b in batches if b]
    results = []
    done_batches = 0
    # batches are submitted in waves so the deadline can stop the enumeration between waves
    wave = core.NPROC * 2
    for w0 in range(0, len(batches), wave):
        if ctx.out_of_time(reserve=PART2_RESERVE[ctx.tier]):
            ctx.incomplete("part 1 stopped by the deadline after %d of %d shape batches" % (done_batches, len(batches)))
            break
        args = [(cfg, b, w0 + i) for i, b in enumerate(batches[w0:w0 + wave])]
        for r in core.pmap(_shape_batch, args):
            results += r
            if r and os.environ.get("C14_DEBUG"):
                sys.stderr.write(" %s" % r[0][1].get("batch_seconds"))
        done_batches += len(args)
        _debug(ctx, "part 1: %d of %d batches" % (done_batches, len(batches)))

    runs = ntemps = 0
    counters = {}
    viol = []       # (spec, fault, deviation, detail, via)
    outcome_classes = set()
    fault_points = 0
    nontrivial = set()
    orch_errors = []
    nonlast_failing = {}     # failure kind -> number of multi-input shapes with such a unit in a non-last position
    families = {}
    accepted_conflicts = named_ok = 0
    late_driver_failures = nforks = 0       # driver-fault shapes that failed after the driver had started a process
    for spec, r in results:
        runs += r["runs"]
        ntemps += r["ntemps"]
        fault_points += r["fault_points"]
        fam = family_of(spec, driver_specs)
        families[fam] = families.get(fam, 0) + 1
        if fam == "driver-fault" and r["status"] not in (0, None, "timeout") and (r["steps"] or r["forks"]):
            late_driver_failures += 1
        nforks += r["forks"]
        for k, v in r["cnt"].items():
            counters[k] = counters.get(k, 0) + v
        outcome_classes.add((spec[0], r["status"] == 0, len(r["steps"])))
        if r["steps"] or r["forks"]:
            nontrivial.add(spec)
        if r["status"] == 0:
            sh = M.Shape(*spec)
            if sh.usage_conflict or sh.name_collision:
                accepted_conflicts += 1
            if sh.cwd_rel:
                named_ok += 1
        if r.get("orch_error"):
            orch_errors.append(r["orch_error"])
        if spec[0] == "link" or (spec[0] == "c" and "o_bad" not in spec[2]):
            for k in set(spec[2][:-1]) & NONLAST_FAILURE_KINDS:
                if all(k2 in GOOD_KINDS for k2 in spec[2][spec[2].index(k) + 1:]):
                    nonlast_failing[k] = nonlast_failing.get(k, 0) + 1
        for fault, dv, detail, via in r["viol"]:
            viol.append((spec, fault, dv, detail, via))
    if runs == 0 or len(outcome_classes) < 4:
        raise core.HarnessError("vacuous enumeration: %d runs, outcome classes %s" % (runs, outcome_classes))
    if ntemps == 0:
        raise core.HarnessError("no temporary file creation was observed in any run: the temp-file clause would be vacuous")
    if not any(r["status"] == 0 for _, r in results) or not any(r["status"] not in (0, None) for _, r in results):
        raise core.HarnessError("vacuous: all commands succeeded or all failed")
    if ctx.exhaustive and set(nonlast_failing) != NONLAST_FAILURE_KINDS:
        raise core.HarnessError("vacuous: no input list with a failing unit followed only by good ones for %s"
                                % sorted(NONLAST_FAILURE_KINDS - set(nonlast_failing)))

    # Signature = deviation x minimal input-kind set x the modes and fault classes that show it.  Within one
    # (mode, -o, fault class) cell a case is attributed to a minimal violating kind set; cells sharing kind set and
    # deviation are merged into one signature that lists their modes and faults ("cc1:*" = every enumerated way
    # of failing that step).  The -o / output-location dimensions go into the description only.
    def compress_faults(fcs):
        per = {}
        for fc in fcs:
            k, _, how = fc.partition(":")
            per.setdefault(k, set()).add(how)
        parts = []
        for k in sorted(per):
            parts.append(k if k == "none" else "%s:%s" % (k, "*" if per[k] >= set(faults) else "+".join(sorted(per[k]))))
        return ",".join(parts)

    if os.environ.get("C14_DUMP_VIOL"):
        with open(os.environ["C14_DUMP_VIOL"], "w") as f:
            for v in viol:
                f.write(repr(v[:3]) + "\n")
    nconfirmed = 0
    groups = {}
    for spec, fault, dv, detail, via in viol:
        mode, o, kinds, outloc = spec[:4]
        groups.setdefault(dv, {}).setdefault((mode, o or "absent", fault_class(fault)), []).append(
            (frozenset(M.Shape(*spec).tokens()), spec, fault, detail, via))
    for dv, cells in sorted(groups.items()):
        attributed = []     # (attr kinds, mode, fault class, spec, fault, detail, via)
        for (mode, o, fc), items in sorted(cells.items()):
            minimal = []
            for ks in sorted(set(i[0] for i in items), key=lambda s: (len(s), sorted(s))):
                if not any(m <= ks for m in minimal):
                    minimal.append(ks)
            # under an injected fault, a deviation that also shows with good inputs only does not depend on the inputs
            anyin = fc != "none" and any(it[0] <= GOOD_KINDS for it in items)
            for ks, spec, fault, detail, via in items:
                attributed.append((frozenset(["any"]) if anyin else next(m for m in minimal if m <= ks), mode, fc, spec, fault, detail, via))
        modes_of, faults_of = {}, {}
        for attr, mode, fc, spec, fault, detail, via in attributed:
            modes_of.setdefault(attr, set()).add(mode)
            faults_of.setdefault(attr, set()).add(fc)
        by_sig = {}
        for attr, mode, fc, spec, fault, detail, via in sorted(attributed, key=lambda t: (t[2] != "none", len(t[3][2]), t[3][2], t[3][0], str(t[3][1]), t[3][3], str(t[4]), t[5])):
            sig = "C14|%s|inputs=%s|modes=%s|fault=%s" % (dv, "+".join(sorted(attr)), "+".join(sorted(modes_of[attr])),
                                                        compress_faults(faults_of[attr]))
            by_sig.setdefault(sig, []).append((spec, fault, detail, via))
        confirmed = []
        for sig, cases in sorted(by_sig.items()):
            # Same input must fail twice, the second time with nothing else running: part 1 runs 16 drivers in
            # parallel, and a driver whose temporaries collide across processes misbehaves there irreproducibly.
            # Interference is part 2's business, where it is deterministic.
            hit = None
            tried = set()
            for spec, fault, detail, via in cases:
                if (spec, fault) in tried:
                    continue
                if len(tried) == 3:
                    break
                tried.add((spec, fault))
                try:
                    r = run_shape(cfg, M.Shape(*spec), [fault[2]] if fault else [], os.path.join(cfg["root"], "confirm"),
                                  force_orch=(via == "orch"))
                except core.HarnessError:
                    continue
                if any(dv2 == dv and (f2 or None) == fault for f2, dv2, _, _ in r["viol"]):
                    hit = (spec, fault, detail, via)
                    break
            if hit:
                confirmed += [(sig,) + hit] + [(sig,) + c for c in cases if c != hit]
            else:
                ctx.cover(part1_cases_not_reproduced_serially=len(cases))
        for sig, spec, fault, detail, via in confirmed:
            sh = M.Shape(*spec)
            case = {"part": 1, "spec": [spec[0], spec[1], list(spec[2]), spec[3]] + ([[list(kv) for kv in spec[4]]] if len(spec) == 5 else []),
                    "fault": list(fault) if fault else None,
                    "deviation": dv, "orch": via == "orch"}
            desc = "chibicc %s  [inputs %s; output location %s; fault %s%s%s] -> %s: %s" % (
                " ".join(sh.argv()), ",".join(spec[2]), spec[3], fault_text(fault),
                "; run in wd/ of a tree with wd/sub wd/d.1 up.2 ab.3 ($ABS = the tree)" if sh.cwd_rel else "",
                "; standard input = the text of kind %s" % sh.stdin_material()[0] if sh.stdin_material() else "", dv, detail)
            if ctx.violation(sig, desc, files={"case.json": json.dumps(case, indent=1), "README.txt": desc + "\n\ninput kinds are defined in "
                                               "models/c14_driver.py (c_dir = a directory named *.c, *_nx = nonexistent, ...);\n"
                                               "a fault is <step kind>#<ordinal or input the step works on>:<how>;\n"
                                               "replay: CHIBICC=<binary> CHIBICC_DIR=<tree> python3 checks/c14.py --replay-case case.json\n"},
                             replay=REPLAY):
                nconfirmed += 1

    if counters.get("timeouts"):
        ctx.incomplete("%d driver runs hit the %d s harness timeout and were not judged" % (counters["timeouts"], RUN_TIMEOUT))
    if counters.get("schedule_divergences"):
        ctx.incomplete("%d completion-order runs of part 1 could not be steered along their prefix (after 2 retries)"
                       % counters["schedule_divergences"])
    if orch_errors:
        # the step scheduler failed on a driver that overlaps its own steps; the free-running results stand in
        if not nconfirmed:
            raise core.HarnessError("step scheduler failed in part 1: %s" % orch_errors[0])
        ctx.incomplete("step scheduler failed for %d shapes in part 1 (first: %s); their free-running results were used"
                       % (len(orch_errors), orch_errors[0][:300]))
    ctx.cover(workers_have_private_tmp=all(r.get("iso") for _, r in results))
    ctx.cover(evaluations=runs, shapes=len(results), shapes_undefined_by_property=undefined,
              fault_points_enumerated=fault_points, temp_creations_observed=ntemps,
              distinct_nontrivial=len(nontrivial), **counters)
    ctx.cover(shapes_with_failing_unit_before_good_ones={k: nonlast_failing[k] for k in sorted(nonlast_failing)})
    conflict_shapes = sum(1 for sp, _ in results if M.Shape(*sp).usage_conflict)
    ctx.cover(shapes_by_family=families, shapes_one_output_for_several_inputs=conflict_shapes,
              conflicting_commands_accepted_by_the_driver=accepted_conflicts, naming_shapes_succeeded=named_ok)
    if ctx.exhaustive and (not families.get("naming") or not families.get("stdin+lib") or not named_ok or not conflict_shapes):
        raise core.HarnessError("vacuous: the naming / standard-input families did not run (%s, %d succeeded)" % (families, named_ok))
    ctx.cover(driver_fault_shapes_failing_after_a_process_was_started=late_driver_failures,
              processes_forked_by_the_driver_in_fault_free_runs=nforks)
    if ctx.exhaustive and (not families.get("driver-fault") or not late_driver_failures):
        raise core.HarnessError("vacuous: no command of the driver-fault family failed after the driver had started a "
                                "process (%s, %d)" % (families, late_driver_failures))
    if counters.get("cc1_steps_not_observable"):
        # harness-neutral: nothing wrong with such a driver, but the k-th-cc1 fault points do not exist for it
        ctx.incomplete("cc1 step not observable in %d of %d expected places: the front end is not run as a program of its "
                       "own, so cc1 fault points were not enumerated there; exit status, temporaries and outputs were "
                       "judged all the same" % (counters["cc1_steps_not_observable"],
                                                counters.get("cc1_steps_expected_in_successful_commands", 0)))

    _debug(ctx, "part 1 judged and confirmed")
    # ---------------- part 2 ----------------
    # Harness trouble here must not hide what part 1 has already established (each of its violations was reproduced
    # serially and is replayed once more by ctx.finish()): it is then recorded as incompleteness, not as exit 2.
    try:
        run_part2(ctx, cfg)
    except Exception as e:
        if not nconfirmed:
            raise
        ctx.incomplete("part 2 (schedules) aborted by a harness error, part 1 violations are reported: %s: %s"
                       % (type(e).__name__, str(e)[:400]))
    _debug(ctx, "part 2 done")
    ctx.cover(rule="a case is one driver invocation (shape x fault point [x completion order of overlapping steps]) or "
                   "one complete schedule; non-trivial = the command shape makes the driver start at least one "
                   "subprocess (counted per distinct shape)",
              fault_kinds=faults, alphabet={str(k): v for k, v in ALPHABET[ctx.tier].items()},
              extra_lists=[list(x) for x in EXTRA_LISTS[ctx.tier]],
              stdin_and_library_lists=[list(x) for x in STDIN_LISTS[ctx.tier]],
              stdin_and_library_lists_with_faults=[list(x) for x in STDIN_FAULT_LISTS[ctx.tier]],
              driver_fault_family={
                  "kinds_at_every_position": DRIVER_BAD, "last_word_only": ["opt_noarg"], "words": dict(M.OPT_KINDS, unk="<name>.data"),
                  "fill_of_two_lists": DRIVER_FILL2, "fill_of_three_lists": [list(x) for x in DRIVER_FILL3[ctx.tier]],
                  "lists": len(driver_lists(ctx.tier)), "modes": ["E", "S", "c", "link"], "o": ["absent", "file"],
                  "output_locations": ["w", "sent"], "good_three_lists_with_tmp_fault": [list(x) for x in GOOD3[ctx.tier]],
                  "o_position_lists": [list(x) for x in OPOS_LISTS], "o_positions": "after the 1st .. n-th input",
                  "status_oracle": "gcc on the same command (writable directory); disagreement = not judged"},
              tmp_fault="the driver's own k-th temporary-file creation (mkstemp family) fails with ENOSPC, every k, in "
                        "-c / link mode shapes that have step faults (writable directory) and in the good three-lists",
              input_path_forms={"directory_forms": sorted(M.DIR_FORMS), "name_forms": {k: list(v) for k, v in M.NAME_FORMS.items()},
                                "single_input": len(ALL_FORMS), "paired": PAIR_FORMS[ctx.tier]},
              o_spellings=list(M.O_FORMS), dependency_file_options=["-MD", "-MD -MF " + M.MF_NAME],
              naming_rule="default output = last component of the input as written, extension replaced, in the cwd; "
                          "acceptable alternatives in models/c14_driver.py; arbitrated by gcc for -S/-c",
              shared_output_rule="one output file for several translation units (one -o under -E/-S/-c, coinciding "
                                 "default names): exit != 0, or exit 0 and no unit's output lost (coinciding DEFAULT names: "
                                 "last one may win, as in gcc)")
    for spec, r in results[:200]:
        if len(r["steps"]) >= 3:
            ctx.sample({"argv": M.Shape(*spec).argv(), "outloc": spec[3], "steps": ["%s#%d" % s for s in r["steps"]],
                        "runs": r["runs"], "no_fault_status": r["status"]}, limit=4)
    ctx.assume("faults are injected one at a time (single point of failure); a fault makes the step die before doing "
               "its work, or (partial) after writing 7 bytes to its output")
    ctx.assume("'partial' faults of the front end under -S / -E -o write to the requested output itself; the content of "
               "that output is then not judged (the write is the injected fault), everything else is")
    ctx.assume("unreadable input is modelled by a directory and a nonexistent path (the checks run as root); unwritable "
               "output by a nonexistent parent directory (-o) or a directory occupying the default output name")
    ctx.assume("schedules are explored at subprocess-step granularity: one step runs at a time; a driver may have "
               "several steps waiting at once, every order of granting them is explored")
    ctx.assume("a driver that runs its own steps concurrently is judged in part 1 under every completion order of "
               "the simultaneously waiting steps (steps are serialised); exec-not-found at a step that starts while "
               "an earlier step of the same kind is still waiting cannot be arranged and is counted as not reached")
    ctx.assume("a pre-existing output that is deleted (not rewritten) when its translation unit fails is accepted")
    ctx.assume("default output names: last component of the input as written, extension replaced, in the current "
               "directory ('-' gives '-.o' / '-.s'); a last component that is all extension ('.c') may give '.o' or '.c.o'; "
               "a dependency file may be named after -o or after the input, with gcc's '<out>-<input>.d' / 'a-<input>.d' "
               "forms accepted, in the cwd or next to the -o path.  Single-input -S/-c commands on which gcc creates "
               "other files than the model allows are not judged (oracle_disagreement_cases)")
    ctx.assume("one -o (under -E/-S/-c) or one default name for several translation units: the driver may refuse; if it "
               "exits 0 with one -o every unit must be found in the output; with coinciding DEFAULT names any one of "
               "the units may be in the file (gcc lets the last one win)")
    ctx.assume("-x is given once, before all inputs, and all inputs of such a command are of one language (a later -x or "
               "mixed languages would depend on whether -x is positional); -MD with standard input and -E -MD -o are not judged")


def run_part2(ctx, cfg):
    sched_runs = 0
    eff_seen = set()
    sched_viol = []
    frontier = []       # (scenario, fault assignment, root)
    for scen, fkinds in SCEN_PLAN[ctx.tier]:
        fnames, cmds = SCENARIOS[scen]
        files = {n: SCEN_FILES[n] for n in fnames}
        # solo runs (no fault) give each driver's steps
        frontier.append((scen, {}, ()))
        for i, argv in enumerate(cmds):
            o, after, granted = solo_result(cfg, os.path.join(cfg["root"], "solo"), files, argv, None)
            if o["status"] != 0:
                raise core.HarnessError("scenario %s driver %d fails alone: %s" % (scen, i, o["stderr"][-300:]))
            for (_, kind, unit), k in granted:
                for how in fkinds:
                    frontier.append((scen, {i: (kind, k, how) if how == "noexec" else (kind, unit, how)}, ()))
    if ctx.out_of_time(reserve=20):
        ctx.incomplete("part 2 (schedules) not run: deadline")
        frontier = []
    # The schedule tree of a (scenario, fault) pair is discovered while it is walked: a level of "path" jobs runs the
    # default path below each root and returns the roots of the sibling subtrees, which the next level walks;
    # the last level walks its subtrees completely.
    split_levels = {"quick": 1, "thorough": 2}[ctx.tier]
    _debug(ctx, "part 2: %d (scenario, fault) pairs" % len(frontier))
    level, wid = 0, 0
    divergences = degraded = timeouts = 0
    while frontier:
        mode = "path" if level < split_levels else "dfs"
        if ctx.out_of_time(reserve=20):
            ctx.incomplete("part 2 (schedules) stopped by the deadline at tree level %d" % level)
            break
        per = {}
        for scen, fa, root in frontier:
            per.setdefault((scen, tuple(sorted(fa.items()))), []).append(root)
        jobs = []
        for (scen, fkey), roots in per.items():
            ngroups = min(len(roots), core.NPROC if mode == "dfs" else 4)
            for g in range(ngroups):
                jobs.append((cfg, scen, dict(fkey), roots[g::ngroups], mode, True, wid))
                wid += 1
        frontier = []
        for job, res in zip(jobs, core.pmap(_sched_batch, jobs)):
            scen, fa = job[1], job[2]
            for root, choices, diverged, deg, devs, sibs in res:
                divergences += int(diverged)
                degraded += deg
                if choices is None:
                    timeouts += 1
                    continue
                sched_runs += 1
                eff_seen.add((scen, tuple(sorted(fa.items())), choices))
                for who, dv, detail in devs:
                    sched_viol.append((scen, fa, choices, dv, detail))
                frontier += [(scen, fa, sb) for sb in sibs]
        level += 1
        _debug(ctx, "part 2: level %d done, %d runs so far, %d subtrees to go" % (level, sched_runs, len(frontier)))
    if sched_runs and len(eff_seen) < 20:
        raise core.HarnessError("vacuous schedule exploration: %d distinct effective schedules" % len(eff_seen))
    plan = dict(SCEN_PLAN[ctx.tier])
    fsets = {}
    for scen, fa, sch, dv, detail in sched_viol:
        fsets.setdefault((scen, dv), set()).add(fault_class(next(iter(fa.values())) if fa else None))

    def compress2(scen, fcs):
        per = {}
        for fc in fcs:
            k, _, how = fc.partition(":")
            per.setdefault(k, set()).add(how)
        return ",".join(k if k == "none" else "%s:%s" % (k, "*" if per[k] >= set(plan[scen]) else "+".join(sorted(per[k])))
                        for k in sorted(per))
    confirmed_sig = {}
    for scen, fa, sch, dv, detail in sorted(sched_viol, key=lambda t: (t[0], t[3], bool(t[1]), str(sorted(t[1].items())), t[2])):
        sig = "C14|concurrent|%s|scenario=%s|fault=%s" % (dv, scen, compress2(scen, fsets[(scen, dv)]))
        if sig not in confirmed_sig:
            # same schedule must fail twice, the second time with nothing else running
            again = _sched_batch((cfg, scen, fa, [sch], "path", False, 99999))
            confirmed_sig[sig] = any(dv2 == dv for rec in again for _, dv2, _ in rec[4])
            if not confirmed_sig[sig]:
                ctx.cover(part2_cases_not_reproduced_serially=1)
        if not confirmed_sig[sig]:
            continue
        case = {"part": 2, "scenario": scen, "faults": {str(k): list(v) for k, v in fa.items()}, "schedule": [list(l) for l in sch], "deviation": dv}
        desc = "scenario %s: drivers %s in one directory, steps granted in the order %s (driver:step(input)), fault %s -> %s: %s" % (
            scen, " || ".join("chibicc " + " ".join(c) for c in SCENARIOS[scen][1]), " ".join(label_text(l) for l in sch),
            {k: fault_text(v) for k, v in fa.items()} or "none", dv, detail)
        ctx.violation(sig, desc, files={"case.json": json.dumps(case, indent=1), "README.txt": desc + "\n\nreplay: CHIBICC=<binary> "
                                        "CHIBICC_DIR=<tree> python3 checks/c14.py --replay-case case.json\n"}, replay=REPLAY)
    ctx.cover(schedules=sched_runs, schedules_distinct_effective=len(eff_seen), schedule_scenarios=len(SCEN_PLAN[ctx.tier]))
    if divergences:
        # such a run is judged like any other (it is a real execution), but the subtrees hanging off it are not walked
        ctx.cover(schedule_divergences=divergences)
        ctx.incomplete("%d schedule runs could not be steered along their prefix (after 2 retries; %d hit the harness "
                       "timeout): the subtrees below them were not explored" % (divergences, timeouts))
    if degraded:
        ctx.cover(quiescence_degraded=degraded)
    ctx.cover(evaluations=sched_runs)


# ----------------------------------------------------------------------------------------------------
# replay of a single case:  python3 checks/c14.py --replay-case case.json   (env CHIBICC, CHIBICC_DIR)
# ----------------------------------------------------------------------------------------------------
def replay_case(path):
    import tempfile
    case = json.load(open(path))
    chibicc = os.environ["CHIBICC"]
    tree = os.environ.get("CHIBICC_DIR") or os.path.dirname(chibicc)
    root = tempfile.mkdtemp(prefix="vp_C14r_")
    try:
        cfg = build_tools(chibicc, os.path.join(tree, "include"), root)
        if case["part"] == 1:
            spec = case["spec"]
            shape = shape_from_json(spec)
            fault = tuple(case["fault"]) if case["fault"] else None
            r = run_shape(cfg, shape, [fault[2]] if fault else [], os.path.join(root, "w"), force_orch=bool(case.get("orch")))
            for f, dv, detail, via in r["viol"]:
                if dv == case["deviation"] and (f or None) == fault:
                    print("reproduced: %s %s %s" % (shape.key(), f, detail))
                    return 1
            return 0
        scen = case["scenario"]
        fa = {int(k): tuple(v) for k, v in case["faults"].items()}
        sch = tuple(l if isinstance(l, int) else tuple(l) for l in case["schedule"])
        for rec in _sched_batch((cfg, scen, fa, [sch], "path", False, 0)):
            for who, dv, detail in rec[4]:
                if dv == case["deviation"]:
                    print("reproduced: %s" % detail)
                    return 1
        return 0
    finally:
        shutil.rmtree(root, ignore_errors=True)


if __name__ == "__main__":
    if len(sys.argv) == 3 and sys.argv[1] == "--replay-case":
        try:
            sys.exit(replay_case(sys.argv[2]))
        except core.HarnessError as e:
            print("HARNESS-ERROR: %s" % e)
            sys.exit(2)
        except Exception:       # a crash of the replay is not a reproduction (contract: exit 1 iff it reproduces)
            import traceback
            traceback.print_exc()
            print("HARNESS-ERROR: replay crashed")
            sys.exit(0)
    print(__doc__)
    sys.exit(2)
