"""C05 initializers (C11 6.7.9): every member gets the prescribed value, the rest is zero, static image == automatic image.

E2 twin check, exhaustive inside stated bounds.
 * Type universe: shapes of depth <= 2 (arrays [1] [2] [3] [] / structs of 1-3 members incl. bit-fields, anonymous
   struct/union members, trailing flexible array / unions of 2) whose scalar slots are filled from a fixed rotation of 17
   scalar types (integers, _Bool, floating, object and function pointers).
 * For every type: EVERY initializer spelling the 6.7.9 grammar allows with <= A expression/string atoms, <= D designated
   items (paths up to 3 designators, GNU ranges), positional continuation after every designator, every brace-elision
   level, braced and string forms, overriding, short lists, trailing commas, braces around scalars.  Constraint
   violations (excess elements, ...) are never generated (the reference model is the validity filter).
 * Each case is `static T s = INIT;` and `T a = INIT;` in one function which dumps both leaf by leaf.
 * Oracles: (1) static dump == automatic dump; (2) both == models/c05_init.py, judged only when gcc -O0 agrees with
   the model on every leaf of the case (otherwise oracle_disagreements, skipped).
"""
import os, re, itertools, hashlib
from vlib import core, twin
from models import c05_init as M

LEVEL = "exploration"
BUDGET = {"quick": 900, "thorough": 3000}

BATCH = 400

# ---- type universe -----------------------------------------------------------
SLOT, BF = ('slot',), ('bfslot',)
LP = ['int', 'char', 'long', 'pint', 'double', 'uchar', 'short', 'bool', 'float', 'pchar', 'ulong', 'pfn', 'ldouble',
      'ushort', 'pvoid', 'uint', 'schar']
BFP = [('uint', 5), ('int', 7), ('bool', 1), ('uchar', 3), ('ulong', 31), ('ushort', 9)]   # >32-bit-wide bit-fields: C04 (store mask does not assemble)


def arr(e, n): return ('arr', e, n)
def st(*ms): return ('st', tuple(ms))          # members: shape or ('anon', shape)
def un(*ms): return ('un', tuple(ms))
def anon(s): return ('anon', s)
def cha(key, n): return ('arr', ('sc', key), n)


def instantiate(shape, rot):
    """Fill slots in preorder from the rotations, name members a,b,c.. (unique in the whole type)."""
    cnt = {'s': 0, 'b': 0, 'n': 0}

    def go(s):
        k = s[0]
        if k == 'slot':
            cnt['s'] += 1
            return ('sc', LP[(cnt['s'] - 1 + rot) % len(LP)])
        if k == 'bfslot':
            cnt['b'] += 1
            key, w = BFP[(cnt['b'] - 1 + rot) % len(BFP)]
            return ('bf', key, w)
        if k == 'sc':
            return s
        if k == 'arr':
            return ('arr', go(s[1]), s[2])
        ms = []
        for m in s[1]:
            if m[0] == 'anon':
                ms.append((None, go(m[1])))
            else:
                name = "abcdefghijklmnopqrstuvwxyz"[cnt['n']]
                cnt['n'] += 1
                ms.append((name, go(m)))
        return (k, tuple(ms))
    return go(shape)


def shapes_d1():
    out = []
    for n in (1, 2, 3, None):
        out.append(arr(SLOT, n))
    for k in (1, 2, 3):
        for ms in itertools.product((SLOT, BF), repeat=k):
            out.append(st(*ms))
    out.append(un(SLOT, SLOT))
    out.append(un(SLOT, BF))
    return out


def shapes_d1_flex():
    out = []
    for k in (1, 2):
        for ms in itertools.product((SLOT, BF), repeat=k):
            out.append(st(*(ms + (arr(SLOT, None),))))
    out.append(st(SLOT, cha('char', None)))
    return out


def shapes_chararr():
    return [cha(k, n) for k in ('char', 'uchar', 'schar', 'ushort', 'uint', 'int') for n in (1, 2, 3, None)]


MEMB = [SLOT, BF, arr(SLOT, 2), cha('char', 3), st(SLOT, SLOT), st(BF, SLOT), un(SLOT, SLOT),
        anon(st(SLOT, SLOT)), anon(un(SLOT, SLOT)), anon(st(BF, BF))]
MEMB_SMALL = [SLOT, BF, arr(SLOT, 2), st(SLOT, SLOT), anon(un(SLOT, SLOT)), anon(st(SLOT, SLOT))]
UMEMB = [SLOT, arr(SLOT, 2), st(SLOT, SLOT), anon(st(SLOT, SLOT)), cha('char', 3), BF]


def composite(m):
    return m not in (SLOT, BF)


def shapes_d2(tier):
    out = []
    for e in [x for x in shapes_d1() if not (x[0] == 'arr' and x[2] is None)] + [cha('char', 3), cha('int', 2), cha('ushort', 2)]:
        for n in ((1, 2, 3, None) if tier == "thorough" else (2, None)):
            out.append(arr(e, n))
    for k in (1, 2):
        for ms in itertools.product(MEMB, repeat=k):
            if any(composite(m) for m in ms):
                out.append(st(*ms))
    for ms in itertools.product(MEMB_SMALL, repeat=3):
        nc = sum(1 for m in ms if composite(m))
        if nc >= 1 and (tier == "thorough" or nc == 1):
            out.append(st(*ms))
    for a in UMEMB:
        for b in UMEMB:
            if composite(a) or composite(b):
                out.append(un(a, b))
    return out


def shapes_d2_flex(tier):
    out = []
    heads = [(m,) for m in MEMB if composite(m)]
    if tier == "thorough":
        heads += [ms for ms in itertools.product(MEMB_SMALL, repeat=2)]
    for h in heads:
        for f in (arr(SLOT, None), arr(st(SLOT, SLOT), None), cha('char', None)):
            out.append(st(*(h + (f,))))
    for h in [(SLOT,), (SLOT, BF)]:
        out.append(st(*(h + (arr(st(SLOT, SLOT), None),))))
        out.append(st(*(h + (arr(arr(SLOT, 2), None),))))
    return out


def universe(tier):
    """[(type, static_only, bounds)] in a deterministic simplest-first order; bounds = ((atoms, designated items), ..):
    a spelling is enumerated when it fits one of the pairs."""
    q = tier == "quick"
    B1 = ((3, 2),) if q else ((4, 2), (3, 3))
    B2 = ((2, 1),) if q else ((2, 2), (3, 1))
    out = []
    seen = set()

    def add(t, so, b):
        if (t, so) not in seen:
            seen.add((t, so))
            out.append((t, so, b))
    for k in LP:
        add(('sc', k), False, ((1, 0),))
    rots1 = (0, 7) if q else tuple(range(0, 17, 2))
    for r in rots1:
        for s in shapes_d1():
            add(instantiate(s, r), False, B1)
        for s in shapes_d1_flex():
            add(instantiate(s, r), True, B1)
    for s in shapes_chararr():
        add(instantiate(s, 0), False, B1)
    for s in shapes_d2(tier):
        add(instantiate(s, 0), False, B2)
    for s in shapes_d2_flex(tier):
        add(instantiate(s, 0), True, B2)
    return out


# ---- initializer enumeration ---------------------------------------------------
# Immutable trees: ('a', style) | ('s', elem, len, u8) | ('l', items, tc); items = ((desig|None, tree), ...)
# lim = (designated items left, fancy spellings left, ranges left)

def is_flex_arr(t):
    return t[0] == 'arr' and t[2] is None


def designators(root):
    """All designator lists of length <= 3 that are valid at the top of a braced list for `root`, with their target
    path.  Ranges count separately.  Elements of flexible array members are not designated (only the member)."""
    out = []

    def go(t, desig, nrange, top):
        if len(desig) >= 3:
            return
        if t[0] in ('st', 'un'):
            def names(tt, acc):
                for n, mt in tt[1]:
                    if n is None:
                        names(mt, acc)
                    else:
                        acc.append((n, mt))
            acc = []
            names(t, acc)
            for n, mt in acc:
                d = desig + (('f', n),)
                out.append((d, nrange))
                go(mt, d, nrange, False)
        elif t[0] == 'arr':
            if t[2] is None and not top:
                return
            n = t[2] if t[2] is not None else 3
            for i in range(n):
                d = desig + (('i', i),)
                out.append((d, nrange))
                go(t[1], d, nrange, False)
            if nrange == 0:
                for a in range(n):
                    for b in range(a + 1, n):
                        d = desig + (('r', a, b),)
                        out.append((d, 1))
                        go(t[1], d, 1, False)
    go(root, (), 0, True)
    return out


def string_atoms(t, fancy):
    """String-literal initializers for char array type t: exact fit without NUL, exact with NUL, shorter, empty."""
    key, n = t[1][1], t[2]
    lens = sorted(set([2, 0] if n is None else [x for x in (n, n - 1, n - 2, 0) if x >= 0]))
    out = []
    for L in lens:
        out.append((('s', key, L, False), 0))
    if fancy:
        L = lens[-1]
        out.append((('l', ((None, ('s', key, L, False)),), False), 1))
        if key in ('char', 'uchar', 'schar') and L > 0:
            out.append((('s', key, L, True), 1))
    return out


def gen_direct(t, b, lim, cross=False):
    """Initializers that initialize a (sub)object of type t as a whole: yields (tree, atoms used, lim left)."""
    k = t[0]
    D, F, R = lim
    if b <= 0:
        return
    if k in ('sc', 'bf'):
        yield ('a', 'plain'), 1, lim
        if cross:
            yield ('a', 'cross'), 1, lim
        if F > 0:
            yield ('l', ((None, ('a', 'plain')),), False), 1, (D, F - 1, R)
        return
    if k == 'arr' and t[1][0] == 'sc' and t[1][1] in M.CHARLIKE:
        for tree, f in string_atoms(t, F > 0):
            yield tree, 1, (D, F - f, R)
    for items, used, lim2 in gen_items(t, b, lim, cross):
        yield ('l', items, False), used, lim2


def gen_items(root, budget, lim, cross=False):
    desigs = [(d, M.resolve(root, list(d))[-1], nr) for d, nr in designators(root)]

    def rec(items, cursor, b, lim):
        if items:
            yield tuple(items), budget - b, lim
        if b == 0:
            return
        D, F, R = lim
        targets = []
        if cursor is not None:
            targets.append((None, cursor, lim))
        if D > 0:
            for d, path, nr in desigs:
                if nr and R == 0:
                    continue
                targets.append((d, path, (D - 1, F, R - nr)))
        for d, path, lim2 in targets:
            p = list(path)
            t = M.ty_at(root, p)
            level = 0
            while True:
                if level == 0:
                    cands = gen_direct(t, b, lim2, cross)
                elif t[0] in ('sc', 'bf'):
                    cands = [(('a', 'plain'), 1, lim2)]
                elif t[0] == 'arr' and t[1][0] == 'sc' and t[1][1] in M.CHARLIKE:
                    cands = [(tree, 1, lim2) for tree, f in string_atoms(t, False)]
                else:
                    cands = []
                nxt = M.advance(root, p)
                for tree, used, lim3 in cands:
                    yield from rec(items + [(d, tree)], nxt, b - used, lim3)
                if t[0] in ('sc', 'bf'):
                    break
                if t[0] == 'arr' and t[2] is None:
                    break
                t = M.sub_ty(t, 0)
                p.append(0)
                level += 1
    yield from rec([], [0], budget, lim)


def natoms(tree):
    if tree[0] != 'l':
        return 1
    return sum(natoms(x) for _, x in tree[1])


def ndesig(tree):
    if tree[0] != 'l':
        return 0
    return sum((1 if d else 0) + ndesig(x) for d, x in tree[1])


def gen_cases_for(t, bounds):
    """All top-level initializers for type t within `bounds`.  yields (tree, trailing-comma variant flag)."""
    for bi, (atoms, dmax) in enumerate(bounds):
        for tree, used, lim in gen_direct(t, atoms, (dmax, 1, 1), cross=(t[0] == 'sc')):
            if bi and any(used <= a and dmax - lim[0] <= d for a, d in bounds[:bi]):
                continue
            yield tree, False
            if tree[0] == 'l' and used <= 1 and not has_tc(tree):
                yield tree, True


def has_tc(tree):
    if tree[0] != 'l':
        return False
    return tree[2] or any(has_tc(s) for _, s in tree[1])


# ---- case -----------------------------------------------------------------------
class Case:
    __slots__ = ('ty', 'static_only', 'ini', 'text', 'leaves', 'flags', 'undefined', 'lenleaf', 'tree', 'tc')


def make_case(t, static_only, tree, tc):
    """Thaw, evaluate with the model; returns Case or raises M.Invalid."""
    ini = M.thaw(tree, tc)
    root, stt = M.evaluate(t, ini)
    c = Case()
    c.ty, c.static_only, c.ini, c.tree, c.tc = t, static_only, ini, tree, tc
    c.text = M.render(ini)
    c.leaves = M.leaves(root, t, "")
    c.flags = stt.flags
    c.undefined = stt.undefined
    c.lenleaf = len(root.kids) if is_flex_arr(t) else None
    if tc:
        c.flags.add('trailing-comma')
    return c


def dump_expr(var, acc, lt):
    kind = M.SC[lt[1]][0]
    e = var + acc
    if kind == 'flt':
        return "(long)(%s * 16)" % e
    if kind == 'ptr':
        return "FN(pdec)((void *)%s)" % e
    if kind == 'bool' and lt[0] == 'bf':
        return "(long)(%s != 0)" % e      # reading a _Bool bit-field is C04's subject; only zero/non-zero is observed here
    return "(long)%s" % e


def case_function(i, c):
    """C text of one case (function FN(c<i>))."""
    L = ["void FN(c%d)(long *o) {" % i]
    L.append("  static %s = %s;" % (M.decl(c.ty, "s"), c.text))
    if not c.static_only:
        L.append("  %s = %s;" % (M.decl(c.ty, "a"), c.text))
    for var in ("s",) if c.static_only else ("s", "a"):
        for acc, lt, v in c.leaves:
            L.append("  *o++ = %s;" % dump_expr(var, acc, lt))
        if c.lenleaf is not None:
            L.append("  *o++ = sizeof(%s) / sizeof(%s[0]);" % (var, var))
    L.append("}")
    return "\n".join(L)


def expected(c):
    e = [v for _, _, v in c.leaves]
    if c.lenleaf is not None:
        e.append(c.lenleaf)
    return e


UNIT_HEAD = """int FN(gi); int FN(ga)[4]; struct GS { int k; int m; int n[2]; } FN(gs); char FN(gc)[8];
int FN(fn0)(void) { return 0; } int FN(fn1)(void) { return 1; }
long FN(pdec)(void *);
"""


def build_unit(cases):
    return UNIT_HEAD + "\n".join(case_function(i, c) for i, c in enumerate(cases)) + "\n"


def build_driver(cases):
    d = ["#include <stdio.h>", "#include <stdlib.h>", "struct GS { int k; int m; int n[2]; };"]
    for p in ("cc_", "ref_"):
        d.append("extern int %sgi, %sga[4]; extern struct GS %sgs; extern char %sgc[8]; int %sfn0(void), %sfn1(void);" % ((p,) * 6))
    d.append("static long pdec(char *p, char **b, long *sz) { if (!p) return 0; for (int i = 0; i < 6; i++) if (p >= b[i] && p < b[i] + sz[i]) return 1000000L * (i + 1) + (p - b[i]); return -1; }")
    d.append("static long sizes[6] = {4, 16, 16, 8, 1, 1};")
    for p in ("cc_", "ref_"):
        d.append("long %spdec(void *p) { char *b[6] = {(char*)&%sgi, (char*)%sga, (char*)&%sgs, %sgc, (char*)%sfn0, (char*)%sfn1}; return pdec(p, b, sizes); }" % ((p,) * 7))
    E = []
    rows = []
    for i, c in enumerate(cases):
        d.append("void cc_c%d(long *), ref_c%d(long *);" % (i, i))
        e = expected(c)
        rows.append("{cc_c%d, ref_c%d, %d, %d, %d}" % (i, i, len(e), len(E), 1 if c.static_only else 2))
        E += e
    d.append("static const long E[] = {%s};" % ",".join("%dL" % v for v in E))
    d.append("static const struct { void (*cc)(long *); void (*ref)(long *); int n, off, k; } C[] = {%s};" % ",\n".join(rows))
    d.append(r'''
int main(int argc, char **argv) {
  static long oc[4096], orf[4096];
  int nc = sizeof(C) / sizeof(C[0]);
  setvbuf(stdout, 0, _IOLBF, 0);
  for (int i = argc > 1 ? atoi(argv[1]) : 0; i < nc; i++) {
    printf("@ %d\n", i);
    for (int j = 0; j < 2 * C[i].n; j++) oc[j] = orf[j] = 0x5a5a5a5a5a5aL;
    C[i].ref(orf);
    C[i].cc(oc);
    int dis = 0;
    for (int k = 0; k < C[i].k; k++)
      for (int j = 0; j < C[i].n; j++)
        if (orf[k * C[i].n + j] != E[C[i].off + j]) { printf("D %d %d %d %ld %ld\n", i, k, j, E[C[i].off + j], orf[k * C[i].n + j]); dis = 1; }
    if (dis) continue;
    for (int k = 0; k < C[i].k; k++)
      for (int j = 0; j < C[i].n; j++)
        if (oc[k * C[i].n + j] != E[C[i].off + j]) printf("V %d %d %d %ld %ld\n", i, k, j, E[C[i].off + j], oc[k * C[i].n + j]);
  }
  printf("END\n");
  return 0;
}
''')
    return "\n".join(d) + "\n"


class _C:
    chibicc = None


def run_cases(chibicc, wd, name, cases):
    """Compile+run a list of cases.  Returns dict:
       ccfail: [(idx, status, stderr)]  cases chibicc does not compile (gcc accepts them)
       refrej: [idx]                    cases gcc rejects
       dis:    {idx: [lines]}           model/gcc disagreement
       viol:   {idx: [(k, j, exp, got)]}
       crash:  [idx]                    chibicc- or gcc-compiled case function crashed at run time"""
    res = {"ccfail": [], "refrej": [], "dis": {}, "viol": {}, "crash": [], "ran": 0}
    os.makedirs(wd, exist_ok=True)
    ctx = _C()
    ctx.chibicc = chibicc
    live = list(range(len(cases)))
    for attempt in range(4):
        sub = [cases[i] for i in live]
        r = twin.twin_run(ctx, wd, name, build_unit(sub), build_driver(sub), run_timeout=300)
        if r["status"] == "cc-fail":
            bad = find_ccfail(chibicc, wd, sub)
            if not bad:
                raise core.HarnessError("chibicc fails on a batch but on none of its cases alone: %s" % r["stderr"][-500:])
            badset = set(j for j, _, _ in bad)
            # only a finding when gcc accepts the single case (checked in one go first)
            allok = gcc_accepts_all(wd, [sub[j] for j, _, _ in bad])
            for j, stt, err in bad:
                if allok or gcc_accepts(wd, sub[j]):
                    res["ccfail"].append((live[j], stt, err))
                else:
                    res["refrej"].append(live[j])
            live = [x for j, x in enumerate(live) if j not in badset]
            if not live:
                return res
            continue
        if r["status"] == "harness":
            if r["stage"] != "gcc-unit":
                raise core.HarnessError("driver build failed: %s" % r["stderr"][-1500:])
            bad = [j for j in range(len(sub)) if not gcc_accepts(wd, sub[j])]
            if not bad:
                raise core.HarnessError("gcc rejects a batch but none of its cases: %s" % r["stderr"][-1500:])
            res["refrej"] += [live[j] for j in bad]
            live = [x for j, x in enumerate(live) if j not in set(bad)]
            if not live:
                return res
            continue
        out = r["stdout"]
        code = r["code"]
        start = 0
        exe = os.path.join(wd, name + ".exe")
        chunks = [out]
        guard = 0
        while "END" not in chunks[-1].split("\n")[-2:] and guard < 50:
            guard += 1
            last = [int(x[2:]) for x in chunks[-1].split("\n") if x.startswith("@ ")]
            if not last:
                raise core.HarnessError("driver produced nothing: code=%s %s" % (code, r["stderr"][-300:]))
            res["crash"].append(live[last[-1]])
            stt, o2, e2 = core.run_limited([exe, str(last[-1] + 1)], cwd=wd, timeout=300)
            chunks.append(o2)
        crashed = set(res["crash"])
        for o in chunks:
            for line in o.split("\n"):
                if line.startswith("V "):
                    _, i, k, j, e, g = line.split()
                    if live[int(i)] in crashed:
                        continue
                    res["viol"].setdefault(live[int(i)], []).append((int(k), int(j), int(e), int(g)))
                elif line.startswith("D "):
                    f = line.split()
                    res["dis"].setdefault(live[int(f[1])], []).append(line)
        res["ran"] = len(live)
        return res
    raise core.HarnessError("batch did not stabilise")


def single_unit(c):
    return twin.PRELUDE + build_unit([c])


def find_ccfail(chibicc, wd, cases):
    bad = []
    p = os.path.join(wd, "one.c")
    for j, c in enumerate(cases):
        with open(p, "w") as f:
            f.write(single_unit(c))
        stt, out, err = core.run_limited([chibicc, "-cc1", "-DPFX=cc_", "-cc1-input", p, "-cc1-output", os.path.join(wd, "one.s"), p],
                                         cwd=wd, timeout=60)
        if stt != 0:
            bad.append((j, stt, err))
            continue
        stt, out, err = core.run_limited(["as", "-o", os.path.join(wd, "one.o"), os.path.join(wd, "one.s")], cwd=wd, timeout=60)
        if stt != 0:
            bad.append((j, "as", err))
    return bad


def gcc_accepts_all(wd, cs):
    p = os.path.join(wd, "allg.c")
    with open(p, "w") as f:
        f.write(twin.PRELUDE + build_unit(cs))
    stt, out, err = core.run_limited(["gcc", "-std=gnu11", "-w", "-fsyntax-only", "-DPFX=ref_", p], cwd=wd, timeout=120)
    return stt == 0


def gcc_accepts(wd, c):
    p = os.path.join(wd, "oneg.c")
    with open(p, "w") as f:
        f.write(single_unit(c))
    stt, out, err = core.run_limited(["gcc", "-std=gnu11", "-w", "-fsyntax-only", "-DPFX=ref_", p], cwd=wd, timeout=60)
    return stt == 0


# ---- classification ----------------------------------------------------------------
def type_features(t):
    f = set()

    def go(t, depth, in_su):
        k = t[0]
        if k == 'bf':
            f.add('bitfield')
        elif k == 'sc':
            kind = M.SC[t[1]][0]
            if kind == 'ptr':
                f.add('ptr')
            elif kind == 'flt':
                f.add('flt')
            elif kind == 'bool':
                f.add('bool')
            elif t[1] != 'int':
                f.add('nonint')
        elif k == 'arr':
            if t[2] is None:
                f.add('flexarr' if depth else 'unknown-bound')
            f.add('array')
            go(t[1], depth + 1, False)
        else:
            f.add('struct' if k == 'st' else 'union')
            for n, mt in t[1]:
                if n is None:
                    f.add('anon-' + ('struct' if mt[0] == 'st' else 'union'))
                go(mt, depth + 1, True)
    go(t, 0, False)
    return f


DEVPRIO = ["array-length-differs", "unmentioned-member-nonzero", "wrong-value", "initialized-member-is-zero"]


def deviation(c, v):
    """Deviation class of a failing case from its V lines [(k, j, exp, got)]: which storage class is wrong and the
    highest-priority kind of wrong leaf."""
    ks = sorted(set(k for k, _, _, _ in v))
    where = "static+auto" if ks == [0, 1] else ("static" if ks == [0] else "auto")
    if c.static_only:
        where = "static"
    n = len(c.leaves)
    kinds = set()
    for k, j, e, g in v:
        if c.lenleaf is not None and j == n:
            kinds.add(DEVPRIO[0])
        elif g == 0:
            kinds.add(DEVPRIO[3])
        elif e == 0:
            kinds.add(DEVPRIO[1])
        else:
            kinds.add(DEVPRIO[2])
    return where + ":" + [x for x in DEVPRIO if x in kinds][0]


def outcomes(r, cases):
    """run_cases result -> {index: (kind, deviation)} for the failing cases."""
    failed = {}
    for i, stt, err in r["ccfail"]:
        failed[i] = ('ccfail', status_class(stt))
    for i in r["crash"]:
        failed[i] = ('crash', 'runtime')
    for i, v in r["viol"].items():
        if i not in failed:
            failed[i] = ('viol', deviation(cases[i], v))
    return failed


def features(t, flags):
    return frozenset(type_features(t) - {'nonint'}) | frozenset(flags)


def presig(c, dev):
    return "%s|%s|%s" % ("+".join(sorted(type_features(c.ty))), "+".join(sorted(c.flags)) or "plain", dev)


def final_sig(c, dev):
    tf = type_features(c.ty) - {'nonint'}
    return "C05|%s|%s|%s" % ("+".join(sorted(tf)) or "scalar", "+".join(sorted(c.flags)) or "plain", dev)


# ---- shrinking ----------------------------------------------------------------------
def type_reductions(t):
    """Smaller types, one step each (simplest first)."""
    k = t[0]
    if k == 'sc':
        if t[1] != 'int':
            yield ('sc', 'int')
        return
    if k == 'bf':
        yield ('sc', 'int')
        if (t[1], t[2]) != ('uint', 5):
            yield ('bf', 'uint', 5)
        return
    if k == 'arr':
        yield t[1]
        if t[2] is not None and t[2] > 1:
            yield ('arr', t[1], t[2] - 1)
        if t[2] is None:
            yield ('arr', t[1], 3)
        for e in type_reductions(t[1]):
            yield ('arr', e, t[2])
        return
    ms = t[1]
    for i, (n, mt) in enumerate(ms):
        if n is not None:
            yield mt if mt[0] in ('arr', 'st', 'un') else ('st', ((n, mt),))
    if len(ms) > 1:
        for i in range(len(ms)):
            yield (k, ms[:i] + ms[i + 1:])
    for i, (n, mt) in enumerate(ms):
        if n is None:
            yield (k, ms[:i] + mt[1] + ms[i + 1:]) if mt[0] == k else (k, ms[:i] + (("z", mt),) + ms[i + 1:])
        for r in type_reductions(mt):
            if n is None and r[0] not in ('st', 'un'):
                continue
            if r[0] == 'bf' and False:
                continue
            yield (k, ms[:i] + ((n, r),) + ms[i + 1:])


def tree_reductions(x):
    if x[0] == 'a':
        if x[1] != 'plain':
            yield ('a', 'plain')
        return
    if x[0] == 's':
        if x[2] > 1:
            yield ('s', x[1], x[2] - 1, x[3])
        if x[3]:
            yield ('s', x[1], x[2], False)
        return
    items = x[1]
    if len(items) == 1 and items[0][0] is None:
        yield items[0][1]
    if len(items) > 1:
        for i in range(len(items)):
            yield ('l', items[:i] + items[i + 1:], x[2])
    for i, (d, s) in enumerate(items):
        if d:
            yield ('l', items[:i] + ((None, s),) + items[i + 1:], x[2])
            if len(d) > 1:
                yield ('l', items[:i] + ((d[:-1], s),) + items[i + 1:], x[2])
                yield ('l', items[:i] + ((d[1:], s),) + items[i + 1:], x[2])
            for j, comp in enumerate(d):
                if comp[0] == 'r':
                    yield ('l', items[:i] + ((d[:j] + (('i', comp[1]),) + d[j + 1:], s),) + items[i + 1:], x[2])
        for r in tree_reductions(s):
            yield ('l', items[:i] + ((d, r),) + items[i + 1:], x[2])


def size_of_case(t, tree):
    return len(repr(t)) + len(repr(tree))


def test_single(chibicc, wd, c):
    """-> ('viol', dev) | ('ccfail', status) | None"""
    r = run_cases(chibicc, wd, "s", [c])
    if r["ccfail"]:
        return ('ccfail', status_class(r["ccfail"][0][1]))
    if r["crash"]:
        return ('crash', 'runtime')
    if 0 in r["viol"]:
        return ('viol', deviation(c, r["viol"][0]))
    return None


def status_class(stt):
    if isinstance(stt, int) and stt < 0:
        import signal
        try:
            return "cc1-" + signal.Signals(-stt).name
        except ValueError:
            return "cc1-signal"
    if stt == "timeout":
        return "cc1-hang"
    if stt == "as":
        return "assembler-rejects-output"
    return "cc1-rejects"


def shrink(args):
    """Greedy, deterministic: in each round all one-step reductions of the current case are compiled in ONE batch; the
    smallest one that still fails the same way becomes the current case."""
    chibicc, wd, t, static_only, tree, tc, want = args
    os.makedirs(wd, exist_ok=True)
    cur = (t, tree, tc)
    rounds = 0
    while rounds < 40:
        rounds += 1
        cands = []
        if cur[2]:
            cands.append((cur[0], cur[1], False))
        for t2 in type_reductions(cur[0]):
            cands.append((t2, cur[1], cur[2]))
        for tr in tree_reductions(cur[1]):
            cands.append((cur[0], tr, cur[2]))
        cands = [x for x in cands if size_of_case(x[0], x[1]) < size_of_case(cur[0], cur[1]) or (cur[2] and not x[2])]
        cands.sort(key=lambda x: (size_of_case(x[0], x[1]), repr(x)))
        cs, keep = [], []
        seen = set()
        for x in cands:
            if x in seen:
                continue
            seen.add(x)
            try:
                c = make_case(x[0], has_flex(x[0]), x[1], x[2])
            except (M.Invalid, IndexError, KeyError, TypeError):
                continue
            if c.undefined:
                continue
            cs.append(c)
            keep.append(x)
        if not cs:
            break
        r = run_cases(chibicc, os.path.join(wd, "r%d" % rounds), "s", cs)
        out = outcomes(r, cs)
        bad = set(r["refrej"]) | set(r["dis"])
        nxt = None
        for i, x in enumerate(keep):
            if i not in bad and out.get(i) == want:
                nxt = x
                break
        if nxt is None:
            break
        cur = nxt
    return cur, rounds


def has_flex(t):
    if t[0] in ('st', 'un') and t[1]:
        last = t[1][-1][1]
        return last[0] == 'arr' and last[2] is None
    return False


# ---- worker ---------------------------------------------------------------------------
def work_types(args):
    """Enumerate and run every case of a group of types.  Returns a summary (picklable)."""
    chibicc, wd, gidx, group, deadline = args
    import time
    os.makedirs(wd, exist_ok=True)
    summ = {"cases": 0, "judged": 0, "nontrivial": set(), "undefined": 0, "refrej": 0, "dis": 0, "leaves": 0,
            "fails": [], "flagcount": {}, "incomplete": False, "samples": [], "invalid": 0, "dis_samples": [], "case_samples": []}
    batch = []
    bno = [0]

    def flush():
        if not batch:
            return
        r = run_cases(chibicc, os.path.join(wd, "b%d" % bno[0]), "b", [c for c, _ in batch])
        bno[0] += 1
        summ["refrej"] += len(r["refrej"])
        for i in r["refrej"][:3]:
            if len(summ["dis_samples"]) < 6:
                summ["dis_samples"].append(("gcc rejects", M.decl(batch[i][0].ty, "x"), batch[i][0].text))
        summ["dis"] += len(r["dis"])
        for i in list(r["dis"])[:2]:
            if len(summ["dis_samples"]) < 3:
                summ["dis_samples"].append((batch[i][0].text, M.decl(batch[i][0].ty, "x"), r["dis"][i][:3]))
        rej = set(r["refrej"]) | set(r["dis"])
        failed = outcomes(r, [c for c, _ in batch])
        for i, (c, key) in enumerate(batch):
            if i in rej:
                continue
            summ["judged"] += 1
            if len(summ["case_samples"]) < 2 and len(c.leaves) > 2 and summ["judged"] % 97 == 5:
                summ["case_samples"].append({"declaration": M.decl(c.ty, "x"), "initializer": c.text, "flags": sorted(c.flags),
                                             "leaves": len(c.leaves), "static_only": c.static_only})
            summ["leaves"] += len(c.leaves) * (1 if c.static_only else 2)
            if len(c.flags - {'trailing-comma'}) > 0 or len(c.leaves) > 1:
                summ["nontrivial"].add(hashlib.sha1((repr(c.ty) + c.text).encode()).digest()[:8])
            if i in failed:
                summ["fails"].append((failed[i], c.ty, c.static_only, c.tree, c.tc, c.text, sorted(c.flags)))
        del batch[:]

    for t, so, bounds in group:
        if time.time() > deadline:
            summ["incomplete"] = True
            break
        for tree, tc in gen_cases_for(t, bounds):
            try:
                c = make_case(t, so, tree, tc)
            except M.Invalid as e:
                summ["invalid"] += 1
                if len(summ["samples"]) < 3:
                    summ["samples"].append(("INVALID", str(e), M.decl(t, "x"), repr(tree)))
                continue
            summ["cases"] += 1
            if c.undefined:
                summ["undefined"] += 1
                continue
            for fl in c.flags:
                summ["flagcount"][fl] = summ["flagcount"].get(fl, 0) + 1
            batch.append((c, None))
            if len(batch) >= BATCH:
                flush()
                if time.time() > deadline:
                    summ["incomplete"] = True
                    break
        if summ["incomplete"]:
            break
    flush()
    summ["nontrivial"] = len(summ["nontrivial"])
    return summ


def count_types(args):
    group = args
    n = 0
    for t, so, bounds in group:
        for _ in gen_cases_for(t, bounds):
            n += 1
    return n


REPLAY = r"""# rebuilds the single case with the chibicc under test and gcc, runs the dump driver
gcc -std=gnu11 -w -fsyntax-only -DPFX=ref_ unit.c || exit 0
$CHIBICC -cc1 -DPFX=cc_ -cc1-input unit.c -cc1-output cc.s unit.c || exit 1
as -o cc.o cc.s 2>/dev/null || exit 1
gcc -O0 -fwrapv -fno-strict-aliasing -w -std=gnu11 -fno-builtin -fno-pie -fcommon -DPFX=ref_ -c -o ref.o unit.c || exit 0
gcc -O1 -w -std=gnu11 -fno-pie -no-pie -o drv driver.c cc.o ref.o -Wl,-z,noexecstack || exit 0
./drv > out.txt; rc=$?
grep -q '^D ' out.txt && exit 0
grep -q '^V ' out.txt && exit 1
grep -q '^END' out.txt || exit 1
exit 0
"""


def run(ctx):
    import time
    uni = universe(ctx.tier)
    # groups of types; deterministic, VERIF_SEED permutes only the order in which groups are scheduled
    groups = core.chunks(uni, 6 if ctx.tier == "quick" else 4)
    order = list(range(len(groups)))
    if ctx.seed:
        import random
        random.Random(ctx.seed).shuffle(order)
    reserve = 60 if ctx.tier == "quick" else 180
    deadline = ctx.deadline - reserve
    args = [(ctx.chibicc, os.path.join(ctx.work, "g%d" % g), g, groups[g], deadline) for g in order]
    # large groups first would need the counts; the pool balances dynamically instead
    results = core.pmap(work_types, args)
    tot = {"cases": 0, "judged": 0, "nontrivial": 0, "undefined": 0, "refrej": 0, "dis": 0, "leaves": 0, "invalid": 0}
    flagcount = {}
    fails = []
    incomplete = 0
    for s in results:
        for k in tot:
            tot[k] += s[k]
        for k, v in s["flagcount"].items():
            flagcount[k] = flagcount.get(k, 0) + v
        fails += s["fails"]
        incomplete += 1 if s["incomplete"] else 0
        for x in s["samples"] + s["dis_samples"]:
            ctx.sample({"note": x}, limit=10)
        for x in s["case_samples"]:
            ctx.sample(x, limit=6)
    if tot["invalid"]:
        raise core.HarnessError("generator produced %d initializers the model calls invalid (see evidence samples)" % tot["invalid"])
    if incomplete:
        ctx.incomplete("deadline reached in %d of %d type groups" % (incomplete, len(groups)))

    # classify.  Failing cases are grouped by (kind, deviation); inside a group the smallest not yet explained case is
    # shrunk to a local minimum; its signature explains every case of the group whose feature set (type features +
    # initializer-form features) contains the minimum's feature set; repeat with what is left.
    fails.sort(key=lambda f: (size_of_case(f[1], f[3]), repr(f[1]), repr(f[3])))
    groups_ = {}
    for f in fails:
        groups_.setdefault(f[0], []).append(f)
    nclasses = 0
    pending = {k: list(v) for k, v in groups_.items()}
    rnd = 0
    while pending and rnd < 40 and not ctx.out_of_time(reserve=20):
        rnd += 1
        keys = sorted(pending)
        reps = [(ctx.chibicc, os.path.join(ctx.work, "shr%d_%d" % (rnd, i)), pending[k][0][1], pending[k][0][2], pending[k][0][3],
                 pending[k][0][4], k) for i, k in enumerate(keys)]
        for k, rep, (cur, nr) in zip(keys, reps, core.pmap(shrink, reps)):
            t2, tr2, tc2 = cur
            c = make_case(t2, has_flex(t2), tr2, tc2)
            fmin = features(c.ty, c.flags)
            expl = [f for f in pending[k] if fmin <= features(f[1], f[6])]
            if pending[k][0] not in expl:
                expl.append(pending[k][0])
            pending[k] = [f for f in pending[k] if f not in expl]
            if not pending[k]:
                del pending[k]
            kind, dev = k
            sig = final_sig(c, dev)
            nclasses += 1
            decl_s = "static %s = %s;" % (M.decl(c.ty, "s"), c.text)
            exp = ", ".join("s%s=%d" % (a or "", v) for a, _, v in c.leaves[:8])
            if kind == 'viol':
                desc = "%s -> %s (C11 6.7.9: %s); %d enumerated cases attributed, e.g. %s = %s" % (
                    decl_s, dev, exp, len(expl), M.decl(expl[-1][1], "s"), expl[-1][5][:100])
            else:
                desc = "valid declaration `%s` -> %s; %d enumerated cases attributed" % (decl_s, dev, len(expl))
            for _ in range(len(expl)):
                ctx.violation(sig, desc, files={"unit.c": single_unit(c), "driver.c": build_driver([c])}, replay=REPLAY)
    # cases left when the shrink rounds are used up keep their own (unshrunk) feature sets as signature
    for k in sorted(pending):
        for f in pending[k]:
            sig = "C05|unshrunk:%s|%s|%s:%s" % ("+".join(sorted(type_features(f[1]) - {'nonint'})), "+".join(f[6]) or "plain", k[0], k[1])
            if sig in ctx.violations or any(core.fnmatch.fnmatchcase(sig, pat) for pat in ctx.findings):
                ctx.violation(sig, "", None, None)
                continue
            c = make_case(f[1], f[2], f[3], f[4])
            ctx.violation(sig, "failing case not shrunk (round limit): static %s = %s -> %s" % (M.decl(c.ty, "s"), c.text, k[1]),
                          files={"unit.c": single_unit(c), "driver.c": build_driver([c])}, replay=REPLAY)

    ctx.cover(evaluations=tot["judged"], cases_generated=tot["cases"], types=len(uni), leaves_compared=tot["leaves"],
              distinct_nontrivial=tot["nontrivial"], skipped_undefined=tot["undefined"], ref_rejected=tot["refrej"],
              oracle_disagreements=tot["dis"], failing_cases=len(fails), failure_classes=nclasses,
              form_counts=flagcount,
              rule="one case = (type, initializer spelling) compiled as a static and an automatic object and dumped leaf by "
                   "leaf; judged when gcc -O0 accepts it and agrees with the 6.7.9 model on every leaf; non-trivial = more "
                   "than one leaf or at least one of designator/elision/override/string/range/braced-scalar used; "
                   "distinct = distinct (type, initializer text)",
              bounds="tier %s: %d scalar types; depth-1 shapes (arrays [1][2][3][] of a scalar, structs of 1-3 scalar/bit-field "
                     "members, same with trailing flexible array, unions of 2, character arrays of 6 element types) x %s scalar "
                     "rotations with (atoms, designated items) <= %s; depth-2 shapes (arrays of depth-1 shapes, structs of 1-3 members "
                     "from {scalar, bit-field, T[2], char[3], struct, struct with bit-field, union, anonymous struct, anonymous union}, "
                     "unions of 2, flexible arrays of scalars/structs/arrays) with (atoms, designated items) <= %s; designator path "
                     "<= 3, <= 1 range and <= 1 braced scalar/braced string per case, trailing-comma variant of every spelling with "
                     "<= 1 atom, indices < 3 in designators of unknown-bound arrays" % (
                         ctx.tier, len(LP), "2" if ctx.tier == "quick" else "9",
                         "(3,2)" if ctx.tier == "quick" else "(4,2) or (3,3)", "(2,1)" if ctx.tier == "quick" else "(2,2) or (3,1)"))
    if tot["judged"] == 0 or len(flagcount) < 6:
        raise core.HarnessError("vacuous: judged=%d forms=%s" % (tot["judged"], sorted(flagcount)))
    if tot["dis"] + tot["refrej"] > 0.02 * tot["cases"]:
        raise core.HarnessError("model/gcc disagree or gcc rejects on %d+%d of %d cases: generator or model is wrong" %
                                (tot["dis"], tot["refrej"], tot["cases"]))
    ctx.assume("gcc 12 -O0 and the 6.7.9 model agree on every judged case (disagreements are skipped and counted)")
    ctx.assume("re-activating a union member after another member was initialized is treated as not defined by the property")
    ctx.assume("layout of int/char arrays and struct{int;int;int[2]} used as address-constant targets is the same for both compilers")
