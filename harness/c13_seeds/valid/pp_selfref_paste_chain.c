#define x1 y1
#define y1 x ## 1
int x1 = 5;
