// C17 level 2 helper: reports user macro names whose probe sequences overlap in the *real* macro table
// (capacity and hash function taken from the tree: preprocess.c's `macros` after init_macros(), hashmap.c's fnv_hash).
#include "hashmap.c"
#include "preprocess.c"
StringArray include_paths;
bool opt_fcommon = true;
bool opt_fpic;
char *base_file = "x.c";
bool file_exists(char *path) { struct stat st; return !stat(path, &st); }

int main(int argc, char **argv) {
  int want = atoi(argv[1]);
  int want_home = argc > 2 ? atoi(argv[2]) : -2;   // -1: last bucket of the real table
  init_macros();
  int cap = macros.capacity;
  int live = 0;
  for (int i = 0; i < cap; i++) if (macros.buckets[i].key) live++;
  // find the home slot with `want` candidate names soonest
  int *cnt = calloc(cap, sizeof(int));
  int h = -1;
  for (int i = 0; i < 100000 && h < 0; i++) {
    char *n = format("VPM%d", i);
    int s = fnv_hash(n, strlen(n)) % cap;
    if (want_home == -1 && s != cap - 1) continue;
    if (++cnt[s] == want) h = s;
  }
  printf("CAP %d LIVE %d HOME %d OCC %d\n", cap, live, h, macros.buckets[h].key != NULL);
  for (int i = 0, c = 0; c < want; i++) {
    char *n = format("VPM%d", i);
    if ((int)(fnv_hash(n, strlen(n)) % cap) == h) { printf("NAME %s\n", n); c++; }
  }
  for (int i = 0;; i++) {
    char *n = format("VPN%d", i);
    if ((int)(fnv_hash(n, strlen(n)) % cap) == (h + 1) % cap) { printf("NEAR %s\n", n); break; }
  }
  return 0;
}
