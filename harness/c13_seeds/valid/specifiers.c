int f(int *restrict p, const char *const s) {
  register int r = *p;
  auto int a = r;
  volatile long long int v = 1LL;
  long unsigned u = 2UL;
  short int h = 3;
  signed g = s[0];
  return a + v + u + h + g;
}
