// C11 "off" family value oracle: the seed program (checks/c11.py OFF_PROG) exports
//   const struct { const void *p; unsigned long n; } off_tab[];   (terminated by a null p)   and   int off_f(int);
// The objects are printed in hex; the same driver is linked once with the chibicc object and once with the gcc object
// and the two outputs must be equal (the reference file of the family has the values gcc gives it).
#include <stdio.h>
struct OffRow { const void *p; unsigned long n; };
extern const struct OffRow off_tab[];
int off_f(int);

int main(void) {
  for (int i = 0; off_tab[i].p; i++) {
    const unsigned char *b = off_tab[i].p;
    printf("%d %lu ", i, off_tab[i].n);
    for (unsigned long k = 0; k < off_tab[i].n; k++) printf("%02x", b[k]);
    printf("\n");
  }
  for (int x = 0; x < 9; x++) printf("f(%d)=%d\n", x, off_f(x));
  return 0;
}
