"""C15 reference model: C11 linkage (6.2.2), external/tentative definitions (6.9.2), inline (6.7.4), thread storage
(6.7.1) for one identifier declared by a sequence of declarations in one translation unit, the constraints the
relocatable object must satisfy, and well-formedness of sets of units.

Nothing here looks at chibicc.  Python stdlib only.
"""

# ----------------------------------------------------------------------------------------------------------------
# Object declaration forms:  key -> (scope, storage-class, _Thread_local, has-initializer)
# ----------------------------------------------------------------------------------------------------------------
OBJ_FORMS = {
    "E":   ("file", "extern", False, False),     # extern T v;
    "T":   ("file", None,     False, False),     # T v;
    "I":   ("file", None,     False, True),      # T v = 1;
    "S":   ("file", "static", False, False),     # static T v;
    "SI":  ("file", "static", False, True),      # static T v = 1;
    "tE":  ("file", "extern", True,  False),     # extern _Thread_local T v;
    "tT":  ("file", None,     True,  False),
    "tI":  ("file", None,     True,  True),
    "tS":  ("file", "static", True,  False),
    "tSI": ("file", "static", True,  True),
    "bE":  ("block", "extern", False, False),    # int g(void){ extern T v; ... }
    "btE": ("block", "extern", True,  False),
    "bS":  ("block", "static", False, False),    # int g(void){ static T v; ... }   (no linkage, own object)
}
OBJ_ORDER = ["E", "T", "I", "S", "SI", "tE", "tT", "tI", "tS", "tSI", "bE", "btE", "bS"]


def obj_model(seq):
    """seq: list of OBJ_FORMS keys in source order.  Returns a dict:
       valid, why, linkage ('external'|'internal'|None), tls, defkind ('def'|'tentative'|'none'),
       ntent (number of tentative declarations), ninit, has_file (a file-scope declaration exists),
       first_file (index of the first file-scope declaration or None)"""
    file_link = None            # linkage established by the visible file-scope declarations so far
    links = set()
    tls = set()
    ninit = ntent = 0
    first_file = None
    for i, k in enumerate(seq):
        scope, sc, is_tls, init = OBJ_FORMS[k]
        if scope == "block" and sc == "static":
            continue                                        # no linkage: a different object altogether
        if sc == "static":
            lk = "internal"
        elif sc == "extern":
            lk = file_link or "external"                    # 6.2.2p4: inherits a visible prior linkage
        else:
            lk = "external"                                 # 6.2.2p5
        if scope == "file":
            if file_link and lk != file_link:
                return {"valid": False, "why": "6.2.2p7 internal and external linkage"}
            file_link = lk
            if first_file is None:
                first_file = i
            if init:
                ninit += 1
            elif sc != "extern":
                ntent += 1
        links.add(lk)
        tls.add(is_tls)
    if len(links) > 1:
        return {"valid": False, "why": "6.2.2p7 internal and external linkage"}
    if len(tls) > 1:
        return {"valid": False, "why": "6.7.1p3 _Thread_local not in every declaration"}
    if ninit > 1:
        return {"valid": False, "why": "6.9p3/p5 two definitions"}
    return {"valid": True, "why": "", "linkage": (links.pop() if links else None), "tls": (tls.pop() if tls else False),
            "defkind": "def" if ninit else "tentative" if ntent else "none", "ntent": ntent, "ninit": ninit,
            "has_file": first_file is not None, "first_file": first_file}


def obj_incomplete_array(seq, inc):
    """Declarations of one array object where declaration i has the incomplete type T[] (inc[i] == 'i') or the
    complete type T[N] ('c'); file-scope forms only.  Returns (valid, why, elements) - elements = 'N' when some
    declaration completes the type (6.2.7p3 composite type; an initializer with N elements completes T[]),
    1 when a tentative definition is still incomplete at the end of the unit (6.9.2p2, p5 EXAMPLE 2),
    None when the unit has no definition."""
    m = obj_model(seq)
    if not m["valid"]:
        return False, m["why"], None
    complete = False
    for k, c in zip(seq, inc):
        scope, sc, is_tls, init = OBJ_FORMS[k]
        if scope != "file":
            return False, "block-scope forms are not combined with incomplete array types", None
        if c == "i" and sc == "static" and not init:
            return False, "6.9.2p3 tentative definition with internal linkage and incomplete type", None
        if c == "c" or init:
            complete = True
    if m["defkind"] == "none":
        return True, "", None
    return True, "", ("N" if complete else 1)


def obj_class(m, fcommon):
    """Declaration-form class used in signatures (root-cause granularity)."""
    return "%s-%s%s|tent=%s|%s" % (m["linkage"], m["defkind"], "-tls" if m["tls"] else "",
                                   "2+" if m["ntent"] >= 2 else m["ntent"], "fcommon" if fcommon else "fno-common")


# ----------------------------------------------------------------------------------------------------------------
# Function declaration forms: key -> (is_definition, static, inline, extern)
# ----------------------------------------------------------------------------------------------------------------
FN_FORMS = {
    "p":   (False, False, False, False),
    "ps":  (False, True,  False, False),
    "pi":  (False, False, True,  False),
    "psi": (False, True,  True,  False),
    "pei": (False, False, True,  True),
    "d":   (True,  False, False, False),
    "ds":  (True,  True,  False, False),
    "di":  (True,  False, True,  False),
    "dsi": (True,  True,  True,  False),
    "dei": (True,  False, True,  True),
    "bp":  (False, False, False, False),      # block scope:  int g(void){ int f(void); return f(); }
    "cp":  (False, False, False, False),      # int x, f(void);     prototype later in a declarator list
    "pc":  (False, False, False, False),      # int f(void), x;     prototype first in a declarator list
}
FN_BLOCK = ("bp",)
FN_ORDER = ["p", "ps", "pi", "psi", "pei", "d", "ds", "di", "dsi", "dei", "bp", "cp", "pc"]


def fn_spec(k):
    d, st, inl, ext = FN_FORMS[k]
    return " ".join(x for x, c in (("static", st), ("extern", ext), ("inline", inl)) if c)


def fn_model(seq):
    """Returns: valid, linkage, has_def, extdef (the unit provides an external definition),
       inline_only (an inline definition that is NOT an external definition, 6.7.4p7),
       all_inline (every declaration carries `inline`), defpos"""
    link = None
    ndef = 0
    defpos = None
    all_inline = True
    any_inline = False
    any_plain_or_extern = False
    nfile = 0
    for i, k in enumerate(seq):
        d, st, inl, ext = FN_FORMS[k]
        if st:
            lk = "internal"
        else:
            lk = link or "external"                         # 6.2.2p5: as if `extern` -> p4 inherits
        if link and lk != link:
            return {"valid": False, "why": "6.2.2p7 static after non-static"}
        link = lk
        if k in FN_BLOCK:
            continue                    # 6.7.4p7 speaks of the file scope declarations only
        nfile += 1
        if d:
            ndef += 1
            defpos = i
        all_inline = all_inline and inl
        any_inline = any_inline or inl
        if not inl or ext:
            any_plain_or_extern = True
    if ndef > 1:
        return {"valid": False, "why": "redefinition"}
    if link == "external" and any_inline and not ndef:
        return {"valid": False, "why": "6.7.4p7 inline function with external linkage not defined in the unit"}
    inline_only = bool(link == "external" and ndef and not any_plain_or_extern)
    return {"valid": True, "why": "", "linkage": link, "has_def": bool(ndef), "defpos": defpos,
            "extdef": bool(link == "external" and ndef and not inline_only), "inline_only": inline_only,
            "all_inline": bool(all_inline and nfile), "any_inline": any_inline, "nfile": nfile,
            "first_file": next((i for i, k in enumerate(seq) if k not in FN_BLOCK), None),
            # gcc counts a block-scope declaration that precedes the inline definition as a non-inline declaration
            # (6.7.4p7 speaks of file scope declarations only): implementations differ, not judged
            # (also with `extern inline` before it gcc then emits nothing): any block-scope declaration that
            # precedes the definition of an external-linkage function with an `inline` declaration is left alone
            "contested": bool(link == "external" and any_inline and ndef and
                              any(k in FN_BLOCK for k in seq[:defpos]))}


def fn_class(m, seq=()):
    return _fn_class(m) + ("+declarator-list" if "cp" in seq or "pc" in seq else "")


def _fn_class(m):
    if m["linkage"] == "internal":
        return "internal-%s%s" % ("def" if m["has_def"] else "nodef", "-all-inline" if m["all_inline"] else "")
    return "external-%s" % ("inline-def-only" if m["inline_only"] else
                            "extdef-with-inline-decl" if m["extdef"] and m["any_inline"] else
                            "extdef" if m["extdef"] else "nodef")


# ----------------------------------------------------------------------------------------------------------------
# Constraints on the object file.  syms: list of dicts from parse_readelf; secs: {index: dict}
# ----------------------------------------------------------------------------------------------------------------
def sec_kind(sym, secs):
    """undefined | common | text | data | bss | tdata | tbss | other"""
    ndx = sym["ndx"]
    if ndx == "UND":
        return "undefined"
    if ndx == "COM":
        return "common"
    if not ndx.isdigit():
        return "other"
    s = secs.get(int(ndx))
    if not s:
        return "other"
    fl = s["flags"]
    if "A" not in fl:
        return "other"
    if "X" in fl:
        return "text"
    if "W" not in fl:
        return "rodata"
    nobits = s["type"] == "NOBITS"
    if "T" in fl:
        return "tbss" if nobits else "tdata"
    return "bss" if nobits else "data"


def check_object_symbol(name, m, referenced, fcommon, size, align, syms, secs):
    """Deviations (list of short class strings) of the symbols called `name` from what the model m requires.
    referenced: the unit uses the identifier in an evaluated expression."""
    mine = [s for s in syms if s["name"] == name]
    glob = [s for s in mine if s["bind"] in ("GLOBAL", "WEAK")]
    defs = [s for s in mine if s["ndx"] != "UND"]
    dev = []
    if m["linkage"] is None:                      # only block-scope statics: must not leak a global `name`
        if glob:
            dev.append("global-symbol-for-no-linkage-object")
        return dev
    if m["linkage"] == "internal":
        if glob:
            dev.append("global-symbol-for-internal-linkage")
        cand = [s for s in defs if s["bind"] == "LOCAL"]
        if len(cand) > 1:
            dev.append("duplicate-local-definition")
        for s in cand[:1]:                        # local names are free; if it is there under its name, check it
            dev += _check_def(s, m, fcommon, size, align, secs, local=True)
        return dev
    # external linkage
    if [s for s in mine if s["bind"] == "LOCAL"]:
        dev.append("local-symbol-for-external-linkage")
    if m["defkind"] == "none":
        if defs:
            dev.append("definition-emitted-for-extern-declaration")
        und = [s for s in glob if s["ndx"] == "UND"]
        if referenced and not und and not defs:
            dev.append("no-undefined-reference")
        if not referenced and und:
            dev.append("undefined-symbol-for-unused-declaration")
        return dev
    gdefs = [s for s in defs if s["bind"] in ("GLOBAL", "WEAK")]
    if not gdefs:
        dev.append("definition-missing")
        return dev
    if len(gdefs) > 1:
        dev.append("duplicate-definition")
    s = gdefs[0]
    if s["bind"] != "GLOBAL":
        dev.append("binding=%s-expected-GLOBAL" % s["bind"])
    dev += _check_def(s, m, fcommon, size, align, secs, local=False)
    return dev


def _check_def(s, m, fcommon, size, align, secs, local):
    dev = []
    kind = sec_kind(s, secs)
    if m["defkind"] == "def":
        want = ("tdata",) if m["tls"] else ("data",)
    elif m["tls"]:
        want = ("tbss", "tdata")
    elif fcommon and not local:
        want = ("common",)                        # -fcommon: uninitialised globals go to a common block
    else:
        want = ("bss", "data")                    # -fno-common / internal linkage: a real definition
    if kind not in want:
        dev.append("kind=%s-expected-%s" % (kind, want[0]))
        return dev
    if s["size"] != size:
        dev.append("size=%s-expected-sizeof" % ("0" if s["size"] == 0 else "other"))
    if m["tls"] and s["type"] not in ("TLS",):
        dev.append("type=%s-expected-TLS" % s["type"])
    if not m["tls"] and s["type"] not in ("OBJECT", "COMMON", "NOTYPE"):
        dev.append("type=%s-expected-OBJECT" % s["type"])
    if kind == "common":
        if s["value"] % align or s["value"] == 0:
            dev.append("common-alignment-below-type-alignment")
    else:
        sec = secs.get(int(s["ndx"]))
        if s["value"] % align or (sec and sec["align"] < align):
            dev.append("alignment-below-type-alignment")
    return dev


def check_function_symbol(name, m, referenced, syms, secs):
    mine = [s for s in syms if s["name"] == name]
    glob = [s for s in mine if s["bind"] in ("GLOBAL", "WEAK")]
    defs = [s for s in mine if s["ndx"] != "UND"]
    dev = []
    for s in defs:
        if sec_kind(s, secs) != "text":
            dev.append("function-defined-outside-text")
        elif s["type"] != "FUNC":
            dev.append("type=%s-expected-FUNC" % s["type"])
    if m["linkage"] == "internal":
        if glob:
            dev.append("global-symbol-for-internal-linkage")
        if len(defs) > 1:
            dev.append("duplicate-local-definition")
        if m["has_def"] and m["all_inline"] and not referenced and defs:
            dev.append("unreferenced-static-inline-emitted")
        return dev
    if m["extdef"]:
        gd = [s for s in defs if s["bind"] in ("GLOBAL", "WEAK")]
        if [s for s in defs if s["bind"] == "LOCAL"]:
            dev.append("external-definition-emitted-LOCAL")
        elif not gd:
            dev.append("external-definition-missing")
        elif len(gd) > 1:
            dev.append("duplicate-definition")
        elif gd[0]["bind"] != "GLOBAL":
            dev.append("binding=%s-expected-GLOBAL" % gd[0]["bind"])
        return dev
    if m["inline_only"]:
        # emitting or not is free, but an inline definition must not provide an external (strong) definition
        if [s for s in defs if s["bind"] == "GLOBAL"]:
            dev.append("inline-definition-emitted-as-external-definition")
        if referenced and not defs and not [s for s in glob if s["ndx"] == "UND"]:
            dev.append("no-definition-and-no-reference")
        return dev
    # external linkage, no definition in this unit
    if defs:
        dev.append("definition-emitted-for-declaration")
    und = [s for s in glob if s["ndx"] == "UND"]
    if referenced and not und and not defs:
        dev.append("no-undefined-reference")
    if not referenced and und:
        dev.append("undefined-symbol-for-unused-declaration")
    return dev


# ----------------------------------------------------------------------------------------------------------------
# Liveness of static inline functions: reachability
# ----------------------------------------------------------------------------------------------------------------
def reachable(n, edges, roots):
    """edges: set of (i, j); roots: iterable of nodes"""
    seen = set()
    todo = list(roots)
    while todo:
        x = todo.pop()
        if x in seen:
            continue
        seen.add(x)
        todo += [j for (i, j) in edges if i == x]
    return seen


def graph_value(n, edges, i, d):
    """value of f_i(d) for the generated bodies:  f_i(d) = d<=0 ? i+1 : (i+1) + sum_j (j+2)*f_j(d-1)   (mod 2^32)"""
    if d <= 0:
        return i + 1
    v = i + 1
    for j in range(n):
        if (i, j) in edges:
            v += (j + 2) * graph_value(n, edges, j, d - 1)
    return v & 0xFFFFFFFF


# ----------------------------------------------------------------------------------------------------------------
# KIND of reference from one function to another.  (name, prelude statements, expression, class, constant)
#   {F} = the referenced function, {A} = the argument expression, {K} = a suffix unique inside the referencing body.
#   class 'must': the reference is evaluated, the expression has the value {F}({A}); the function is referenced and
#                 has to be emitted (C11 6.5.3.4p2: the size expression of a variable length array TYPE NAME that is
#                 the operand of sizeof IS evaluated; so is the bound of a VLA declaration / typedef / typeof).
#   class 'may':  the reference sits in an operand that is not evaluated (sizeof / _Alignof of a non-VLA operand,
#                 _Alignof of a VLA type name, typeof of a non-VLA expression, the controlling expression and the
#                 associations not selected of _Generic) or in code that can never run (if (0), 1 ? x : f(), 0 && f(),
#                 after goto): the expression has the constant value; whether the function is emitted is FREE, but
#                 the unit must link and the program must print the model's value.
# ----------------------------------------------------------------------------------------------------------------
REF_HELPERS = ("static unsigned c15_apply(unsigned (*p)(int), int d) { return p(d); }\n"
               "static unsigned c15_id(unsigned x) { return x; }\ntypedef unsigned (*c15_fp)(int);\n")
REF_KINDS = [
    ("call", "", "{F}({A})", "must", None),
    ("addr-of", "", "(&{F})({A})", "must", None),
    ("deref-designator", "", "(*{F})({A})", "must", None),
    ("cast-value", "", "((unsigned (*)(int)){F})({A})", "must", None),
    ("comma-value", "", "(0, {F})({A})", "must", None),
    ("argument-value", "", "c15_apply({F}, {A})", "must", None),
    ("nested-call-arg", "", "c15_id({F}({A}))", "must", None),
    ("auto-init", "unsigned (*p{K})(int) = {F};", "p{K}({A})", "must", None),
    ("auto-assign", "unsigned (*p{K})(int); p{K} = {F};", "p{K}({A})", "must", None),
    ("auto-struct-init", "struct {{ int pad; unsigned (*p)(int); }} s{K} = {{ 1, {F} }};", "s{K}.p({A})", "must", None),
    ("auto-array-init", "unsigned (*t{K}[2])(int) = {{ 0, {F} }};", "t{K}[1]({A})", "must", None),
    ("static-local-init", "static unsigned (*p{K})(int) = {F};", "p{K}({A})", "must", None),
    ("static-local-addr-init", "static unsigned (*p{K})(int) = &{F};", "p{K}({A})", "must", None),
    ("compound-literal", "", "((c15_fp[]){{ 0, {F} }})[1]({A})", "must", None),
    ("sizeof-vla-type", "", "(unsigned)sizeof(char[{F}({A})])", "must", None),
    ("sizeof-vla-type-2d", "", "(unsigned)(sizeof(char[{F}({A})][2]) / 2)", "must", None),
    ("sizeof-vla-type-inner", "", "(unsigned)(sizeof(char[2][{F}({A})]) / 2)", "must", None),
    ("vla-bound", "char v{K}[{F}({A})];", "(unsigned)sizeof v{K}", "must", None),
    ("vla-bound-2d", "char v{K}[2][{F}({A})];", "(unsigned)sizeof v{K}[0]", "must", None),
    ("vla-typedef", "typedef char T{K}[{F}({A})];", "(unsigned)sizeof(T{K})", "must", None),
    ("typeof-vla-type", "__typeof__(char[{F}({A})]) v{K};", "(unsigned)sizeof v{K}", "must", None),
    ("vla-pointer-bound", "char (*q{K})[{F}({A})] = 0;", "(unsigned)sizeof *q{K}", "must", None),
    ("cond-second", "", "({A} >= 0 ? {F}({A}) : 0u)", "must", None),
    ("cond-third", "", "({A} < 0 ? 0u : {F}({A}))", "must", None),
    ("cond-const-live", "", "(0 ? 5u : {F}({A}))", "must", None),
    ("cond-designator", "", "({A} >= 0 ? {F} : 0)({A})", "must", None),
    ("cond-omitted", "", "({F}({A}) ?: 1u)", "must", None),
    ("logand-live", "", "(1 && {F}({A}) ? {F}({A}) : 0u)", "must", None),
    ("generic-selected", "", "_Generic(0, int: {F}({A}), default: 0u)", "must", None),
    ("generic-default-selected", "", "_Generic(0, long: 0u, default: {F}({A}))", "must", None),
    ("generic-designator", "", "_Generic(0, int: {F})({A})", "must", None),
    ("stmt-expr", "", "({{ unsigned x{K} = {F}({A}); x{K}; }})", "must", None),
    ("for-init", "unsigned y{K} = 0; for (unsigned z{K} = {F}({A}); !y{K}; ) y{K} = z{K};", "y{K}", "must", None),
    ("switch-case-body", "unsigned y{K} = 0; switch ({A} >= 0) {{ case 1: y{K} = {F}({A}); }}", "y{K}", "must", None),
    ("sizeof-call", "", "(unsigned)sizeof({F}({A}))", "may", 4),
    ("sizeof-expr-no-paren", "", "(unsigned)sizeof {F}({A})", "may", 4),
    ("sizeof-address", "", "(unsigned)sizeof(&{F})", "may", 8),
    ("sizeof-array-of-call-size", "", "(unsigned)sizeof(char[sizeof({F}({A}))])", "may", 4),
    ("sizeof-stmt-expr", "", "(unsigned)sizeof(({{ {F}({A}); }}))", "may", 4),
    ("alignof-call", "", "(unsigned)_Alignof({F}({A}))", "may", 4),
    ("alignof-vla-type", "", "(unsigned)(_Alignof(char[{F}({A})]) > 0)", "may", 1),
    ("typeof-call", "__typeof__({F}({A})) w{K} = 7;", "w{K}", "may", 7),
    ("generic-unselected", "", "_Generic(0, long: {F}({A}), default: 6u)", "may", 6),
    ("generic-control", "", "_Generic({F}({A}), unsigned: 9u, default: 0u)", "may", 9),
    ("cond-const-dead", "", "(1 ? 5u : {F}({A}))", "may", 5),
    ("logand-dead", "", "(unsigned)(0 && {F}({A}))", "may", 0),
    ("logor-dead", "", "(unsigned)(1 || {F}({A}))", "may", 1),
    ("if0-dead", "unsigned y{K} = 3; if (0) y{K} = {F}({A});", "y{K}", "may", 3),
    ("while0-dead", "unsigned y{K} = 3; while (0) y{K} = {F}({A});", "y{K}", "may", 3),
    ("after-goto-dead", "unsigned y{K} = 3; goto l{K}; y{K} = {F}({A}); l{K}:;", "y{K}", "may", 3),
]
REF_KIND = dict((k[0], k) for k in REF_KINDS)
REF_ORDER = [k[0] for k in REF_KINDS]


def ref_code(kind, F, A, K):
    """(prelude statements, expression) of one reference of the given kind"""
    _, pre, ex, _, _ = REF_KIND[kind]
    return pre.format(F=F, A=A, K=K), ex.format(F=F, A=A, K=K)


def ref_graph_model(n, edges, ek, roots, rk, depth):
    """edges: list of (i, j) with kinds ek (parallel list); roots with kinds rk.  Returns (required, allowed, value):
    required = functions that must be emitted (reachable over evaluated references), allowed = functions that may be
    emitted (reachable over all references), value = what the entry function returns for d = depth when every root
    reference is folded as s = s * 31 + <reference>."""
    must_e = set(e for e, k in zip(edges, ek) if REF_KIND[k][3] == "must")
    required = reachable(n, must_e, [r for r, k in zip(roots, rk) if REF_KIND[k][3] == "must"])
    allowed = reachable(n, set(edges), roots)
    kind_of = dict(zip(edges, ek))

    def val(i, d):
        if d <= 0:
            return i + 1
        v = i + 1
        for j in range(n):
            k = kind_of.get((i, j))
            if k:
                v += (j + 2) * (val(j, d - 1) if REF_KIND[k][3] == "must" else REF_KIND[k][4])
        return v & 0xFFFFFFFF
    s = 0
    for r, k in zip(roots, rk):
        s = (s * 31 + (val(r, depth) if REF_KIND[k][3] == "must" else REF_KIND[k][4])) & 0xFFFFFFFF
    return required, allowed, s


# ----------------------------------------------------------------------------------------------------------------
# Declarations of ONE identifier at different scopes of one translation unit (C11 6.2.1 scopes, 6.2.2p4/p6/p7):
#
#   [F0]  void run(int *o, int P) { [A] pA { [B] pB { [C] pC } pB2 } pA2 }  [F1]  void run2(int *o) { [D] pD }
#         void end(int *o) { pE }
#
# Each slot holds one declaration form or nothing; each probe p reads the object the identifier denotes at that
# point into o[p] and then stores 100 + p into it.  The model says which OBJECT every probe denotes:
#   X = the object with external linkage (one per program: shared with the other translation unit),
#   N = the object with internal linkage, s<slot> = a block-scope static (no linkage), a<slot> = an automatic object
#   or the parameter.
# ----------------------------------------------------------------------------------------------------------------
SCOPE_SLOTS = ["F0", "A", "B", "C", "F1", "D"]
SCOPE_FORMS = {
    "F0": ["-", "E", "T", "I", "S", "SI"],           # extern / tentative / initialised / static / static initialised
    "A":  ["-", "bE", "bS", "bSI", "bA", "bP"],      # block: extern / static / static initialised / automatic / parameter
    "B":  ["-", "bE", "bS", "bSI", "bA"],
    "C":  ["-", "bE", "bS", "bSI", "bA"],
    "F1": ["-", "E", "T", "I", "S"],
    "D":  ["-", "bE", "bS"],
}
SCOPE_PROBES = ["pA", "pB", "pC", "pB2", "pA2", "pD", "pE"]
SCOPE_VISIBLE = {"pA": ["A", "F0"], "pB": ["B", "A", "F0"], "pC": ["C", "B", "A", "F0"], "pB2": ["B", "A", "F0"],
                 "pA2": ["A", "F0"], "pD": ["D", "F1", "F0"], "pE": ["F1", "F0"]}
SCOPE_PRIOR = {"F0": [], "A": ["F0"], "B": ["A", "F0"], "C": ["B", "A", "F0"], "F1": ["F0"], "D": ["F1", "F0"]}
SCOPE_INIT = {"I": 11, "SI": 12, "companion": 7, "bSI": 40, "bA": 70}     # + slot index for the block forms
SCOPE_PRIOR_NAME = {None: "none", "E": "file-scope", "T": "file-scope", "I": "file-scope", "S": "file-scope-static",
                    "SI": "file-scope-static", "bE": "block-extern", "bS": "block-static", "bSI": "block-static",
                    "bA": "automatic", "bP": "parameter"}


def scope_model(case):
    """case: {slot: form}.  Returns dict: status 'ok' | 'invalid' | 'undefined' (+ why); for 'ok': entity (slot ->
    'X' | 'N' | 's<slot>' | 'a<slot>'), prior (slot -> form of the visible prior declaration or None, for block
    extern declarations), probes (probe -> slot or None), x_declared, x_def ('def'|'tentative'|'none'),
    x_referenced, n_declared, n_def"""
    form = dict((s, case.get(s, "-")) for s in SCOPE_SLOTS)
    entity, prior, links = {}, {}, {}
    for s in SCOPE_SLOTS:
        f = form[s]
        if f == "-":
            continue
        vis = next((p for p in SCOPE_PRIOR[s] if form[p] != "-"), None)
        if f in ("bS", "bSI"):
            entity[s] = "s" + s
        elif f in ("bA", "bP"):
            entity[s] = "a" + s
        else:
            if f in ("S", "SI"):
                lk = "internal"
            elif f in ("E", "bE"):
                prior[s] = form[vis] if vis else None
                lk = links.get(vis) or "external"           # 6.2.2p4: no visible prior, or one without linkage -> external
            else:
                lk = "external"                             # 6.2.2p5
            if s == "F1" and vis and links.get(vis) and links[vis] != lk:
                return {"status": "invalid", "why": "6.2.2p7: file-scope declarations with internal and external linkage"}
            links[s] = lk
            entity[s] = "X" if lk == "external" else "N"
    if len(set(links.values())) > 1:
        return {"status": "undefined", "why": "6.2.2p7: the identifier has internal and external linkage in one unit"}
    if form["F0"] == "I" and form["F1"] == "I":
        return {"status": "invalid", "why": "two external definitions"}
    probes = {}
    for p in SCOPE_PROBES:
        probes[p] = next((s for s in SCOPE_VISIBLE[p] if form[s] != "-"), None)
    ff = [form[s] for s in ("F0", "F1")]
    x_decl = "X" in entity.values()
    n_decl = "N" in entity.values()
    return {"status": "ok", "entity": entity, "prior": prior, "probes": probes, "x_declared": x_decl, "n_declared": n_decl,
            "x_def": "none" if not x_decl else "def" if "I" in ff else "tentative" if "T" in ff else "none",
            "n_def": "none" if not n_decl else "def" if "SI" in ff else "tentative",
            "x_referenced": any(s and entity[s] == "X" for s in probes.values())}


def scope_expected(case, m):
    """the rows the driver prints: two rounds of run(o, 59 + round); run2(o); end(o); row = o[0..6] + X as the OTHER
    unit sees it; between the rounds the other unit stores 9 into X."""
    form = dict((s, case.get(s, "-")) for s in SCOPE_SLOTS)
    idx = dict((s, i) for i, s in enumerate(SCOPE_SLOTS))
    obj = {"X": SCOPE_INIT["I"] if m["x_def"] == "def" else 0 if m["x_def"] == "tentative" else SCOPE_INIT["companion"],
           "N": SCOPE_INIT["SI"] if m["n_def"] == "def" else 0}
    for s in SCOPE_SLOTS:
        if form[s] == "bS":
            obj["s" + s] = 0
        elif form[s] == "bSI":
            obj["s" + s] = SCOPE_INIT["bSI"] + idx[s]
    rows = []
    for rnd in (1, 2):
        o = [-1] * len(SCOPE_PROBES)
        for s in SCOPE_SLOTS:                       # automatic objects are created afresh in every call
            if form[s] == "bA":
                obj["a" + s] = SCOPE_INIT["bA"] + idx[s]
            elif form[s] == "bP":
                obj["a" + s] = 59 + rnd
        for i, p in enumerate(SCOPE_PROBES):
            s = m["probes"][p]
            if s:
                o[i] = obj[m["entity"][s]]
                obj[m["entity"][s]] = 100 + i
        rows.append(o + [obj["X"]])
        obj["X"] = 9
    return rows


# ----------------------------------------------------------------------------------------------------------------
# Multi-unit link sets.  Each unit picks one object form and one function form.
# ----------------------------------------------------------------------------------------------------------------
LINK_OBJ = {                 # key -> (text with %d = unit index, provides, uses)
    "-":  ("none", False),
    "E":  ("extern", True),            # extern int v;  + access
    "T":  ("tentative", True),         # int v;         + access
    "I":  ("def", True),               # int v = 5;     + access
    "S":  ("static", True),            # static int v = 20+unit; + access
    "bE": ("blockextern", True),       # access through a block-scope extern only
    "tE": ("tls-extern", True),        # extern _Thread_local int v;
    "tT": ("tls-tentative", True),     # _Thread_local int v;
    "tI": ("tls-def", True),           # _Thread_local int v = 5;
}
LINK_OBJ_BASIC = ["-", "E", "T", "I", "S", "bE"]
LINK_FN = {
    "-":   "none",
    "p":   "proto",            # int f(void);  + call
    "d":   "def",              # int f(void){return 100;} + call
    "ds":  "static",           # static int f(void){return 30+unit;} + call
    "di":  "inline",           # inline int f(void){return 100;} + call  (inline definition only)
    "dei": "externinline",     # extern inline int f(void){return 100;} + call
    "dsi": "staticinline",     # static inline int f(void){return 30+unit;} + call
}


def link_model(objs, fns, fcommon):
    """objs/fns: per-unit form keys.  Returns (verdict, reason): verdict in 'ok' | 'fail' | 'undefined'.
    'fail' = the set violates the one-definition rule in a way the linker must diagnose under the given option;
    'undefined' = C11 leaves it undefined and the toolchain need not diagnose (not judged)."""
    tls = [o for o in objs if o in ("tE", "tT", "tI")]
    if tls and [o for o in objs if o in ("E", "T", "I", "bE")]:
        return "undefined", "thread-local in one unit, not in another (6.2.7p2)"
    if tls:
        if sum(1 for o in tls if o != "tE") >= 2:
            return "fail", "two definitions of the thread-local object (no common blocks for TLS)"
        if all(o == "tE" for o in tls):
            return "fail", "thread-local object used but never defined"
    D = sum(1 for o in objs if o == "I")
    T = sum(1 for o in objs if o == "T")
    U = sum(1 for o in objs if o in ("E", "bE"))
    if D >= 2:
        return "fail", "two initialised external definitions of the object"
    if not fcommon and D + T >= 2:
        return "fail", "-fno-common: tentative definitions are definitions"
    if D + T == 0 and U:
        return "fail", "object used but never defined"
    FD = sum(1 for f in fns if f in ("d", "dei"))
    FU = sum(1 for f in fns if f == "p")
    FI = sum(1 for f in fns if f == "di")
    if FD >= 2:
        return "fail", "two external definitions of the function"
    if FD == 0 and FU:
        return "fail", "function called but never defined"
    if FD == 0 and FI:
        return "undefined", "inline definition used, no external definition in the program (6.9p5 / 6.7.4p7)"
    return "ok", ""


def link_expected(objs, fns):
    """Expected output lines of the driver for a well-formed set (see checks/c15.py link_unit_source)."""
    D = any(o in ("I", "tI") for o in objs)
    shared = 5 if D else 0
    own = [20 + i for i in range(len(objs))]
    out = []

    def snapshot(tag):
        for i, o in enumerate(objs):
            if o == "-":
                v = -1
            elif o == "S":
                v = own[i]
            else:
                v = shared
            out.append("%s o%d %d" % (tag, i, v))
    snapshot("init")
    for i, o in enumerate(objs):
        if o == "S":
            own[i] = 50 + i
        elif o != "-":
            shared = 50 + i
        snapshot("set%d" % i)
    for i, f in enumerate(fns):
        v = -1 if f == "-" else 30 + i if f in ("ds", "dsi") else 100
        out.append("fn f%d %d" % (i, v))
    return out


# ----------------------------------------------------------------------------------------------------------------
# String-literal objects (C11 6.4.5p6/p7): every literal denotes an array of static storage duration whose
# elements are the code units of the text followed by one zero element.  Whether equal (or overlapping) literals
# share storage is unspecified - only CONTENT is modelled.  x86-64 SysV: little endian, wchar_t = int,
# char16_t = unsigned short, char32_t = unsigned int.
# ----------------------------------------------------------------------------------------------------------------
STR_KINDS = {             # prefix -> (element type as spelled in the generated units, element size)
    "":   ("char", 1),
    "u8": ("char", 1),
    "L":  ("int", 4),
    "u":  ("unsigned short", 2),
    "U":  ("unsigned int", 4),
}
STR_KIND_ORDER = ["", "u8", "L", "u", "U"]
STR_LETTERS = ("a", "b", "\0")


def str_texts(maxlen, letters=STR_LETTERS):
    """every text of length 0..maxlen over the letters, shortest first, in alphabet order"""
    out = [""]
    layer = [""]
    for _ in range(maxlen):
        layer = [t + c for t in layer for c in letters]
        out += layer
    return out


def str_spelling(kind, text):
    return kind + '"' + "".join("\\0" if c == "\0" else c for c in text) + '"'


def str_nelem(text):
    return len(text) + 1


def str_bytes(kind, text, nelem=None):
    """object representation of an array of nelem elements initialised by the literal (default: the literal's own
    array: text + terminating zero); elements beyond the text are zero, elements beyond nelem are dropped"""
    esz = STR_KINDS[kind][1]
    units = [ord(c) for c in text] + [0]
    if nelem is not None:
        units = (units + [0] * nelem)[:nelem]
    return b"".join(u.to_bytes(esz, "little") for u in units)


def str_relation(bx, by):
    """relation class of two literal objects given their bytes (root-cause granularity for signatures)"""
    if bx == by:
        return "identical"
    cx, cy = bx.split(b"\0")[0], by.split(b"\0")[0]
    if cx == cy:
        return "equal-up-to-first-nul-same-size" if len(bx) == len(by) else "equal-up-to-first-nul-size-differs"
    if bx.startswith(cy) or by.startswith(cx):
        return "c-string-prefix"
    return "same-size" if len(bx) == len(by) else "unrelated"


def str_tuple_class(lits):
    """(relation class, kind class) of a tuple of (kind, text) literals"""
    bs = [str_bytes(k, t) for k, t in lits]
    rel = sorted(set(str_relation(bs[i], bs[j]) for i in range(len(bs)) for j in range(i + 1, len(bs))))
    narrow = [STR_KINDS[k][1] == 1 for k, _ in lits]
    kinds = "char" if all(narrow) else "wide" if not any(narrow) else "mixed"
    return "+".join(rel) or "single", kinds


def str_may_alias(bx, by):
    """C11 6.4.5p7: two literal arrays may start at the same address only if they agree over their common length"""
    n = min(len(bx), len(by))
    return bx[:n] == by[:n]
