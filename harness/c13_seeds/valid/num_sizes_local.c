void *alloca(long);
int f(int n) {
  char big[4096];
  int v[n + 1];
  char *p = alloca(16);
  big[4095] = 1; v[0] = 2; p[15] = 3;
  return big[4095] + v[0] + p[15] + sizeof(v);
}
