int f(int a, int b) { return a + b * 2 - a / 3 % 4 << 1 >> 2 & 7 | 8 ^ 1 && a || !b == ~a < b <= a > b >= 1 != 0; }
int g(int a) { a += 1; a -= 2; a *= 3; a /= 2; a %= 5; a <<= 1; a >>= 1; a &= 7; a |= 1; a ^= 2; return a ? a++ : --a, a; }
