int x; /* abc
