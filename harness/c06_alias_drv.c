/* C06 family R driver (compiled by gcc): the storage a caller provides for a MEMORY-class return value must not overlap
 * any object the callee can reach (psABI 3.2.3 "Returning of Values"; C11 6.5.16.1p3 / 6.8.6.4p4: the value is produced
 * before the assigned-to object is updated).  Generated in front of this text:
 *   #define N <size>           typedef ... T;  (sizeof(T) == N, no padding)
 *   struct al_row { const char *form, *lhs; int mode, e1, e2; void (*cc)(void), (*ref)(void); } ROWS[]  + NROWS
 * One test = (callee kind, row, caller compiler).  Callee kinds: 0 hand-written asm, 1 gcc -O0, 2 gcc -O2, 3 gcc -Os,
 * 4 chibicc under test - every kind implements the same six functions:
 *   rd(T *p)       result[i] = p[N-1-i] ^ 0x33      (asm: writes the whole result area first, reads *p afterwards)
 *   bl(T *o, T *p) result[i] = o[i] + p[N-1-i]
 *   bv(T v)        as rd, argument by value          gl(void) as rd, p taken from the global vp_al_saved
 *   wr(T *p)       result[i] = 3 i + 13, then p[i] = 0xDD for every i       wg(void) as wr through vp_al_saved
 * mode 0 rows call rd/bl/bv/gl, mode 1 rows call wr/wg.  Expected bytes (model, computed here):
 *   E_R result of rd/wr on the source pattern, E_SRC source object after the call (pattern, or 0xDD.. in mode 1),
 *   E_OTH the other pattern untouched, E_BL o=oth p=src, E_BL2 o=src p=oth, E_BOTH o=p=src, E_NONE not observed.
 * Output: "A idx kind row caller verdict"  verdict = ok | out@i:got,want | out2@i:got,want | guard
 *         "C idx signo" fatal signal (exit 77)     "V sens=<bitmask of callee kinds that are sensitive to an overlap>"
 *         "S tests=N"
 * usage: drv [first index [count]]          index = (kind * NROWS + row) * 2 + caller(0 chibicc, 1 gcc)
 */
#include <stdio.h>
#include <string.h>
#include <stdlib.h>
#include <signal.h>
#include <unistd.h>

enum { E_NONE, E_R, E_SRC, E_OTH, E_BL, E_BL2, E_BOTH };
#define NKIND 5
unsigned char vp_al_src[N + 64] __attribute__((aligned(64))), vp_al_oth[N + 64] __attribute__((aligned(64)));
unsigned char vp_al_out[N + 64] __attribute__((aligned(64))), vp_al_out2[N + 64] __attribute__((aligned(64)));
T *vp_al_saved;
T vp_al_glob;
volatile int vp_zero, vp_one;
volatile long vp_al_guard;
/* the callers call al_rd ... al_wg (asm trampolines in al_a.S) which jump through these pointers */
void *vp_al_fn_rd, *vp_al_fn_bl, *vp_al_fn_bv, *vp_al_fn_gl, *vp_al_fn_wr, *vp_al_fn_wg;
T (*vp_al_fp_rd)(T *), (*vp_al_fp_wr)(T *);

#define KDECL(k) T k##rd(T *), k##bl(T *, T *), k##bv(T), k##gl(void), k##wr(T *), k##wg(void);
KDECL(ka_) KDECL(k0_) KDECL(k2_) KDECL(ks_) KDECL(kc_)
static void select_kind(int k) {
#define SEL(p) vp_al_fn_rd = p##rd; vp_al_fn_bl = p##bl; vp_al_fn_bv = p##bv; vp_al_fn_gl = p##gl; vp_al_fn_wr = p##wr; vp_al_fn_wg = p##wg; \
               vp_al_fp_rd = p##rd; vp_al_fp_wr = p##wr
  switch (k) {
  case 0: SEL(ka_); break;
  case 1: SEL(k0_); break;
  case 2: SEL(k2_); break;
  case 3: SEL(ks_); break;
  default: SEL(kc_); break;
  }
}

static unsigned char psrc(int i) { return 1 + (5 * i + 11 * (i >> 7)) % 126 | (i % 16 == 7 ? 0x80 : 0); }
static unsigned char poth(int i) { return 1 + (87 + 7 * i + 13 * (i >> 7)) % 125; }

static unsigned char expect(int e, int mode, int i) {
  switch (e) {
  case E_R: return mode ? (unsigned char)(3 * i + 13) : psrc(N - 1 - i) ^ 0x33;
  case E_SRC: return mode ? 0xDD : psrc(i);
  case E_OTH: return poth(i);
  case E_BL: return poth(i) + psrc(N - 1 - i);
  case E_BL2: return psrc(i) + poth(N - 1 - i);
  case E_BOTH: return psrc(i) + psrc(N - 1 - i);
  }
  return 0;
}

static long cur;
static void fatal(int signo) {
  char buf[64];
  int n = snprintf(buf, sizeof buf, "C %ld %d\n", cur, signo);
  fflush(stdout);
  if (write(1, buf, n) < 0) _exit(78);
  _exit(77);
}

static void __attribute__((noinline)) scrub(void) {
  volatile unsigned char pad[16384 + 24 * N];
  for (unsigned long i = 0; i < sizeof pad; i++) pad[i] = 0xC7;
}

/* register-level view of the callees: the hidden result pointer is the first integer argument */
typedef void *(*raw_fn)(void *, void *);

int main(int argc, char **argv) {
  static char altstack[65536];
  stack_t ss = { .ss_sp = altstack, .ss_size = sizeof altstack, .ss_flags = 0 };
  sigaltstack(&ss, 0);
  struct sigaction sa;
  memset(&sa, 0, sizeof sa);
  sa.sa_handler = fatal;
  sa.sa_flags = SA_ONSTACK | SA_NODEFER;
  int sigs[] = { SIGSEGV, SIGBUS, SIGILL, SIGFPE, SIGALRM, SIGABRT, SIGTRAP, SIGSYS };
  for (unsigned i = 0; i < sizeof sigs / sizeof *sigs; i++) sigaction(sigs[i], &sa, 0);
  static char obuf[1 << 16];
  setvbuf(stdout, obuf, _IOFBF, sizeof obuf);
  vp_one = 1;

  long first = argc > 1 ? atol(argv[1]) : 0;
  long count = argc > 2 ? atol(argv[2]) : (long)NKIND * NROWS * 2;
  if (first == 0) {
    /* self-test of the probe: entered with result area == *p (what a non-conforming caller does), which callee kinds give
     * a result that differs from the model?  The asm callee must (else the family is vacuous); the others are reported. */
    int sens = 0;
    for (int k = 0; k < NKIND; k++) {
      static unsigned char x[N + 64];
      select_kind(k);
      for (int mode = 0; mode < 2; mode++) {
        for (int i = 0; i < N; i++) x[i] = psrc(i);
        ((raw_fn)(mode ? vp_al_fn_wr : vp_al_fn_rd))(x, x);
        for (int i = 0; i < N; i++) if (x[i] != expect(E_R, mode, i)) { sens |= 1 << (2 * k + mode); break; }
      }
    }
    printf("V sens=0x%x\n", sens);
  }
  long tests = 0;
  for (cur = first; cur < (long)NKIND * NROWS * 2 && cur < first + count; cur++) {
    int caller = cur % 2, row = cur / 2 % NROWS, kind = cur / 2 / NROWS;
    const struct al_row *r = &ROWS[row];
    select_kind(kind);
    for (int i = 0; i < N + 64; i++) { vp_al_src[i] = psrc(i); vp_al_oth[i] = poth(i); }
    memset(vp_al_out, 0xEE, sizeof vp_al_out); memset(vp_al_out2, 0xEE, sizeof vp_al_out2);
    memset(&vp_al_glob, 0xEE, sizeof vp_al_glob);
    vp_al_saved = 0; vp_al_guard = 0; vp_zero = 0;
    alarm(20);
    scrub();
    (caller ? r->ref : r->cc)();
    alarm(0);
    tests++;
    char verdict[64] = "ok";
    for (int pass = 0; pass < 2 && verdict[0] == 'o' && verdict[1] == 'k'; pass++) {
      int e = pass ? r->e2 : r->e1;
      const unsigned char *got = pass ? vp_al_out2 : vp_al_out;
      if (e == E_NONE) continue;
      for (int i = 0; i < N; i++)
        if (got[i] != expect(e, r->mode, i)) { snprintf(verdict, sizeof verdict, "%s@%d:%02x,%02x", pass ? "out2" : "out", i, got[i], expect(e, r->mode, i)); break; }
    }
    if (verdict[0] == 'o' && verdict[1] == 'k' && vp_al_guard) strcpy(verdict, "guard");
    printf("A %ld %d %d %d %s\n", cur, kind, row, caller, verdict);
  }
  printf("S tests=%ld\n", tests);
  return 0;
}
