struct P { int x, y; char n[4]; };
struct P g = {1, 2, "ab"};
int f(void) { struct P l = {.y = 3, .x = 4}; return l.x + g.y; }
