typedef static extern int T;
