int (void) { return 0; }
