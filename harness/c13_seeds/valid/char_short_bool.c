char c = 1;
short s = -2;
_Bool b = 3;
unsigned char f(signed char x, short y, _Bool z) { return x * y + z + c + s + b; }
