struct E {};
struct E f(void) { struct E e; return e; }
void g(void) { f(); }
