// C14 LD_PRELOAD observer: logs creation/removal of files by every process of one driver invocation.
//
//   env C14_TRACE = log file (opened O_APPEND; one write(2) per record, so records of concurrent
//                   processes never interleave)
// Records (fields separated by TAB, paths made absolute):
//   <pid> init <exe>
//   <pid> mk   <path>          a name made by the mkstemp/mkdtemp family (a temporary by definition)
//   <pid> anon -               tmpfile(): anonymous, nothing to leak
//   <pid> cr   <path>          open/openat/creat with O_CREAT, fopen/freopen with w/a mode (succeeded)
//   <pid> rm   <path>          unlink/unlinkat/remove/rmdir (succeeded)
//   <pid> mv   <old> <new>     rename family (succeeded)
//   <pid> fk   <child pid>     fork / posix_spawn[p] returned a child (0 = child pid not known)
//   <pid> wt   <child pid>     wait / waitpid / wait3 / wait4 / waitid reaped that child
//   <pid> mkfail <template>    the injected fault below made this mkstemp-family call fail
// Fault: env C14_FAULT = "tmp:<k>:<how>" makes the k-th call of the mkstemp family IN THE DRIVER PROCESS (the process
// whose executable is $C14_REAL_CHIBICC, and children it forks without exec; each process counts for itself) fail with
// ENOSPC - a failure that originates in the driver itself, after the steps it has already run.  Other values of
// C14_FAULT belong to the step shim.
// fk/wt records of one process are in its program order: a process that forks while an earlier child is unreaped
// runs steps concurrently (vfork cannot be wrapped; such a driver is recognised by its overlapping step records).
// The checker decides which `cr` paths are temporaries (location), so nothing is filtered here.
// build: gcc -O2 -shared -fPIC -o c14_preload.so c14_preload.c -ldl
#define _GNU_SOURCE
#include <dlfcn.h>
#include <errno.h>
#include <fcntl.h>
#include <limits.h>
#include <signal.h>
#include <spawn.h>
#include <stdarg.h>
#include <stdio.h>
#include <stdlib.h>
#include <string.h>
#include <sys/stat.h>
#include <sys/resource.h>
#include <sys/types.h>
#include <sys/wait.h>
#include <unistd.h>

static int logfd = -2;

static void open_log(void) {
  if (logfd != -2)
    return;
  const char *p = getenv("C14_TRACE");
  logfd = -1;
  if (!p || !*p)
    return;
  static int (*real_open)(const char *, int, ...);
  real_open = dlsym(RTLD_NEXT, "open");
  int fd = real_open(p, O_WRONLY | O_APPEND | O_CREAT | O_CLOEXEC, 0644);
  if (fd < 0)
    return;
  // Move out of the way of low descriptors the program may dup2 over.
  int hi = fcntl(fd, F_DUPFD_CLOEXEC, 700);
  if (hi >= 0) {
    close(fd);
    fd = hi;
  }
  logfd = fd;
}

static void absolutize(int dirfd, const char *path, char *out, size_t n) {
  if (!path) {
    snprintf(out, n, "(null)");
    return;
  }
  if (path[0] == '/') {
    snprintf(out, n, "%s", path);
    return;
  }
  char base[PATH_MAX];
  base[0] = 0;
  if (dirfd == AT_FDCWD) {
    if (!getcwd(base, sizeof base))
      base[0] = 0;
  } else {
    char lnk[64];
    snprintf(lnk, sizeof lnk, "/proc/self/fd/%d", dirfd);
    ssize_t k = readlink(lnk, base, sizeof base - 1);
    if (k < 0)
      k = 0;
    base[k] = 0;
  }
  snprintf(out, n, "%s/%s", base, path);
}

static void rec(const char *op, int fd1, const char *p1, int fd2, const char *p2) {
  int saved = errno;
  open_log();
  if (logfd >= 0) {
    char a[PATH_MAX + 8], b[PATH_MAX + 8], line[2 * PATH_MAX + 64];
    absolutize(fd1, p1, a, sizeof a);
    int n;
    if (p2) {
      absolutize(fd2, p2, b, sizeof b);
      n = snprintf(line, sizeof line, "%d\t%s\t%s\t%s\n", (int)getpid(), op, a, b);
    } else {
      n = snprintf(line, sizeof line, "%d\t%s\t%s\n", (int)getpid(), op, a);
    }
    if (n > 0 && (size_t)n < sizeof line)
      if (write(logfd, line, n) < 0) {
      }
  }
  errno = saved;
}

static void rec_pid(const char *op, long child) {
  int saved = errno;
  open_log();
  if (logfd >= 0) {
    char line[96];
    int n = snprintf(line, sizeof line, "%d\t%s\t%ld\n", (int)getpid(), op, child);
    if (n > 0 && write(logfd, line, n) < 0) {
    }
  }
  errno = saved;
}

__attribute__((constructor)) static void c14_init(void) {
  char exe[PATH_MAX];
  ssize_t k = readlink("/proc/self/exe", exe, sizeof exe - 1);
  if (k < 0)
    k = 0;
  exe[k] = 0;
  rec("init", AT_FDCWD, exe[0] ? exe : "/?", 0, NULL);
}

#define REAL(name) \
  static __typeof__(name) *real; \
  if (!real) real = dlsym(RTLD_NEXT, #name)

// ---- injected failure of the driver's own temporary-file creation ------------
static int tmp_fault_k = -1;   // -1: not looked at yet; 0: none
static int tmp_calls;

static int tmp_fault_now(const char *tmpl) {
  if (tmp_fault_k < 0) {
    tmp_fault_k = 0;
    const char *f = getenv("C14_FAULT"), *drv = getenv("C14_REAL_CHIBICC");
    int k = 0;
    if (f && drv && !strncmp(f, "tmp:", 4) && sscanf(f + 4, "%d", &k) == 1 && k > 0) {
      char exe[PATH_MAX], want[PATH_MAX];
      ssize_t n = readlink("/proc/self/exe", exe, sizeof exe - 1);
      if (n > 0) {
        exe[n] = 0;
        if (realpath(drv, want) && !strcmp(exe, want))
          tmp_fault_k = k;
      }
    }
  }
  if (tmp_fault_k <= 0 || ++tmp_calls != tmp_fault_k)
    return 0;
  rec("mkfail", AT_FDCWD, tmpl, 0, NULL);
  errno = ENOSPC;
  return 1;
}

// ---- the mkstemp family -------------------------------------------------
int mkstemp(char *t) { REAL(mkstemp); if (tmp_fault_now(t)) return -1; int r = real(t); if (r >= 0) rec("mk", AT_FDCWD, t, 0, NULL); return r; }
int mkstemp64(char *t) { REAL(mkstemp64); if (tmp_fault_now(t)) return -1; int r = real(t); if (r >= 0) rec("mk", AT_FDCWD, t, 0, NULL); return r; }
int mkostemp(char *t, int f) { REAL(mkostemp); if (tmp_fault_now(t)) return -1; int r = real(t, f); if (r >= 0) rec("mk", AT_FDCWD, t, 0, NULL); return r; }
int mkostemp64(char *t, int f) { REAL(mkostemp64); if (tmp_fault_now(t)) return -1; int r = real(t, f); if (r >= 0) rec("mk", AT_FDCWD, t, 0, NULL); return r; }
int mkstemps(char *t, int l) { REAL(mkstemps); if (tmp_fault_now(t)) return -1; int r = real(t, l); if (r >= 0) rec("mk", AT_FDCWD, t, 0, NULL); return r; }
int mkstemps64(char *t, int l) { REAL(mkstemps64); if (tmp_fault_now(t)) return -1; int r = real(t, l); if (r >= 0) rec("mk", AT_FDCWD, t, 0, NULL); return r; }
int mkostemps(char *t, int l, int f) { REAL(mkostemps); if (tmp_fault_now(t)) return -1; int r = real(t, l, f); if (r >= 0) rec("mk", AT_FDCWD, t, 0, NULL); return r; }
int mkostemps64(char *t, int l, int f) { REAL(mkostemps64); if (tmp_fault_now(t)) return -1; int r = real(t, l, f); if (r >= 0) rec("mk", AT_FDCWD, t, 0, NULL); return r; }
char *mkdtemp(char *t) { REAL(mkdtemp); if (tmp_fault_now(t)) return NULL; char *r = real(t); if (r) rec("mk", AT_FDCWD, t, 0, NULL); return r; }
FILE *tmpfile(void) { REAL(tmpfile); FILE *r = real(); if (r) rec("anon", AT_FDCWD, "/-", 0, NULL); return r; }
FILE *tmpfile64(void) { REAL(tmpfile64); FILE *r = real(); if (r) rec("anon", AT_FDCWD, "/-", 0, NULL); return r; }

// ---- open family ----------------------------------------------------------
#define OPEN_BODY(name, dirfd, path, flags, call_mode, call_nomode) \
  mode_t mode = 0; \
  if ((flags & O_CREAT) || (flags & O_TMPFILE) == O_TMPFILE) { \
    va_list ap; va_start(ap, flags); mode = va_arg(ap, mode_t); va_end(ap); \
  } \
  int r = ((flags & O_CREAT) || (flags & O_TMPFILE) == O_TMPFILE) ? call_mode : call_nomode; \
  if (r >= 0 && (flags & O_CREAT)) rec("cr", dirfd, path, 0, NULL); \
  return r

int open(const char *path, int flags, ...) { REAL(open); OPEN_BODY(open, AT_FDCWD, path, flags, real(path, flags, mode), real(path, flags)); }
int open64(const char *path, int flags, ...) { REAL(open64); OPEN_BODY(open64, AT_FDCWD, path, flags, real(path, flags, mode), real(path, flags)); }
int openat(int fd, const char *path, int flags, ...) { REAL(openat); OPEN_BODY(openat, fd, path, flags, real(fd, path, flags, mode), real(fd, path, flags)); }
int openat64(int fd, const char *path, int flags, ...) { REAL(openat64); OPEN_BODY(openat64, fd, path, flags, real(fd, path, flags, mode), real(fd, path, flags)); }
// fortified entry points used by -D_FORTIFY_SOURCE builds of as/ld (flags never contain O_CREAT there, kept for completeness)
int __open_2(const char *path, int flags) { static int (*real)(const char *, int); if (!real) real = dlsym(RTLD_NEXT, "__open_2"); return real(path, flags); }
int creat(const char *path, mode_t m) { REAL(creat); int r = real(path, m); if (r >= 0) rec("cr", AT_FDCWD, path, 0, NULL); return r; }
int creat64(const char *path, mode_t m) { REAL(creat64); int r = real(path, m); if (r >= 0) rec("cr", AT_FDCWD, path, 0, NULL); return r; }

static int creating_mode(const char *m) { return m && (m[0] == 'w' || m[0] == 'a'); }
FILE *fopen(const char *path, const char *m) { REAL(fopen); FILE *r = real(path, m); if (r && creating_mode(m)) rec("cr", AT_FDCWD, path, 0, NULL); return r; }
FILE *fopen64(const char *path, const char *m) { REAL(fopen64); FILE *r = real(path, m); if (r && creating_mode(m)) rec("cr", AT_FDCWD, path, 0, NULL); return r; }
FILE *freopen(const char *path, const char *m, FILE *f) { REAL(freopen); FILE *r = real(path, m, f); if (r && path && creating_mode(m)) rec("cr", AT_FDCWD, path, 0, NULL); return r; }
FILE *freopen64(const char *path, const char *m, FILE *f) { REAL(freopen64); FILE *r = real(path, m, f); if (r && path && creating_mode(m)) rec("cr", AT_FDCWD, path, 0, NULL); return r; }

// ---- removal / renaming -----------------------------------------------------
int unlink(const char *path) { REAL(unlink); int r = real(path); if (r == 0) rec("rm", AT_FDCWD, path, 0, NULL); return r; }
int unlinkat(int fd, const char *path, int fl) { REAL(unlinkat); int r = real(fd, path, fl); if (r == 0) rec("rm", fd, path, 0, NULL); return r; }
int remove(const char *path) { REAL(remove); int r = real(path); if (r == 0) rec("rm", AT_FDCWD, path, 0, NULL); return r; }
int rmdir(const char *path) { REAL(rmdir); int r = real(path); if (r == 0) rec("rm", AT_FDCWD, path, 0, NULL); return r; }
int rename(const char *a, const char *b) { REAL(rename); int r = real(a, b); if (r == 0) rec("mv", AT_FDCWD, a, AT_FDCWD, b); return r; }
int renameat(int fa, const char *a, int fb, const char *b) { REAL(renameat); int r = real(fa, a, fb, b); if (r == 0) rec("mv", fa, a, fb, b); return r; }
int renameat2(int fa, const char *a, int fb, const char *b, unsigned fl) { REAL(renameat2); int r = real(fa, a, fb, b, fl); if (r == 0) rec("mv", fa, a, fb, b); return r; }

// ---- process creation / reaping -----------------------------------------------
pid_t fork(void) { REAL(fork); pid_t r = real(); if (r > 0) rec_pid("fk", r); return r; }
int posix_spawn(pid_t *pid, const char *path, const posix_spawn_file_actions_t *fa, const posix_spawnattr_t *at, char *const argv[], char *const envp[]) {
  REAL(posix_spawn); pid_t tmp = 0; int r = real(pid ? pid : &tmp, path, fa, at, argv, envp); if (r == 0) rec_pid("fk", pid ? *pid : tmp); return r; }
int posix_spawnp(pid_t *pid, const char *file, const posix_spawn_file_actions_t *fa, const posix_spawnattr_t *at, char *const argv[], char *const envp[]) {
  REAL(posix_spawnp); pid_t tmp = 0; int r = real(pid ? pid : &tmp, file, fa, at, argv, envp); if (r == 0) rec_pid("fk", pid ? *pid : tmp); return r; }
pid_t wait(int *st) { REAL(wait); pid_t r = real(st); if (r > 0) rec_pid("wt", r); return r; }
pid_t waitpid(pid_t p, int *st, int o) { REAL(waitpid); pid_t r = real(p, st, o); if (r > 0) rec_pid("wt", r); return r; }
pid_t wait3(int *st, int o, struct rusage *ru) { REAL(wait3); pid_t r = real(st, o, ru); if (r > 0) rec_pid("wt", r); return r; }
pid_t wait4(pid_t p, int *st, int o, struct rusage *ru) { REAL(wait4); pid_t r = real(p, st, o, ru); if (r > 0) rec_pid("wt", r); return r; }
int waitid(idtype_t t, id_t id, siginfo_t *info, int o) {
  REAL(waitid); int r = real(t, id, info, o); if (r == 0 && info && info->si_pid > 0 && !(o & WNOWAIT)) rec_pid("wt", info->si_pid); return r; }
