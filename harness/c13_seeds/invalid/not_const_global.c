int g;
int x = g;
