struct E {};
int f(struct E e) { return 1; }
