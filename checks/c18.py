"""C18 Source positions survive preprocessing.

Enumerated: every *forest of line items* with exactly n nodes, for the bounds listed in run() and recorded in the evidence
(`bounds_completed`).  Six families of forests / files (MAIN, U, M, Z, L, R):

MAIN  quick: n <= 3 over the full alphabet in five encodings, n = 4 in LF; diagnostics and execution for n <= 2, .loc for n <= 3.
  thorough: n <= 4 over the full alphabet, n = 5 over MID, n = 6 over REDUCED, a sixth encoding, diagnostics, .loc and execution for n <= 3.
  Leaf items: code line with a probe | blank line | `//` comment line | `//` comment continued by backslash-newline | block
  comment over 1/2/3 physical lines with a probe before and after it | logical line spliced with backslash-newline over 2/3
  physical lines with a probe on every physical line | function-like macro definition + invocation spread over 3 lines
  with a probe in every argument and one after the closing parenthesis | object-like macro whose body is a probe, invoked
  on the next line | `#line N` | `#line N "f"` | `# N "f"`.  Inner item: `#include "h<j>.h"` whose header is again a forest
  (<= 3 physical lines, nesting depth <= 2); an include counts 1 + the nodes of its header.  Encodings of a file set:
  {LF, CRLF} x {no BOM, BOM}, LF without a terminator on the last line of every file, and (thorough) alternating CR LF / LF.

U  text whose length changes before tokenization x backslash-newline x column (alphabet UALPHA + #include):
  code line | universal character name (UCN) in an identifier / string literal / wide character constant / `//` comment / block comment,
  each with a probe on the line | spliced logical line over 2/3 lines | splice INSIDE a probe, so that the token whose position
  is observed is the first token of the continuation line (spa) or ends exactly where the backslash is (spb, a one-character
  macro for __LINE__) | a UCN immediately before the first of two splices (spu) | a UCN between two splices (spw) | `#line N`.
  Every forest is rendered in variants (column c at which the text of every continuation line starts, spelling of the UCNs):
  c in {0,1,2,4,8} x spelling in {\u00e9, \u20ac, \U0001F600, \U000000e9} (the text shrinks by 4, 3, 6, 8 bytes per UCN).
  quick: n <= 2 x all 20 variants (LF; 5 variants in CRLF), n = 3 x 3 variants; D (lex and parse errors), S for n <= 2, X for n <= 2.
  thorough: n <= 3 x 20 variants x {LF, CRLF+BOM}, n = 4 x 2 variants; D, S, X for n = 3.

M  __LINE__/__FILE__ in REPLACEMENT LISTS (alphabet MALPHA + #include + arg): function-like macro VPBj(a,b) whose replacement list is
  `a <probe> b`, invoked with a probe in each argument and one after the closing parenthesis, the invocation written on 1 line
  (mf1), 2 lines (mf2), 3 lines (mf3: name and `(`, first argument, second argument and `)`), 4 lines (mf4: the name alone on its
  line) or coming from the replacement list of another function-like macro invoked over 3 lines (mfc3) | object-like macro whose
  body is a probe | code line | spliced line | `#line N`.  Inner item arg[forest]: `VPOj(` / the children / `) <probe>` where VPOj(x)
  is `<probe> x`: the children (alphabet MARG, no directives; arg nests to depth 2) are written inside the argument of an enclosing
  invocation; their #define lines are written before the outermost invocation.  Headers have <= 5 lines.
  quick: n <= 2 x {LF, CRLF, CRLF+BOM}, n = 3 x LF (E); X for n <= 2.  thorough: n = 4 (E), X for n = 3.

Z  SIZE: long files (main file, or a header included from a three-line main file) in which one kind of structural byte - the CR or the LF of a
  line terminator, the backslash / the CR / the LF of a backslash-newline, the second byte of a 4-byte UTF-8 character inside a comment
  or a string literal - is placed by padding a comment at absolute file offset k*B+d.  comb layout: B = 512, EVERY k up to a file size
  of 2*65536+1024 bytes, i.e. at every multiple of every buffer size in {512, 1024, 4096, 8192, 65536} at once, a probe on every line;
  single layout: one (B, k) with B in {512, 1024, 4096, 8192, 65536}, k = 1 (thorough: 1..3), preceded by filler lines of irregular
  length.  d in {-1, 0, +1} (UTF-8: the 2nd byte at -3..+1 = every cut of the character), encodings LF and CRLF (thorough: + BOM, which
  counts in the offsets).  E for both layouts; D (lex and parse errors at the probes after the multiples of 512, 1024, 4096, 8192,
  65536, 131072), S and X for the comb layout.

L  OPERANDS OF #line: item d<n><f> = `#line <number> [<file>]` followed by a probe line, number operand n in {L literal, S object-like macro
  defined on the line before in the same file, H object-like macro defined in an included header (vpcfg.h, included first), D object-like
  macro defined on the command line (-D), B `__LINE__`}, file operand f in {- none, L literal, S, H, D as before, B `__FILE__`}: 5 x 6 = 30
  spellings; gLL = `# N "f"` (the GNU form takes literal operands only: neither gcc nor chibicc macro-replace `# <identifier>`).  Alphabet
  LALPHA = code, sp2, the 30 spellings, gLL, + #include; only forests with at least one non-literal spelling are generated.  Every file set
  is rendered twice: as enumerated and as its LITERAL TWIN, in which each such directive is re-spelled `#line N ["f"]` with the values the model
  gives its operands (everything else - #define lines, command line - unchanged).  Judged per probe: (1) against the model as in MAIN (the N+1
  convention of this tree shows up as the listed `after-#line ... expected+1` findings; not for the line number after `#line __LINE__`, where N,
  N+1 and "directive ignored" coincide), (2) chibicc on the rendering == chibicc on the twin, for __LINE__ and __FILE__ (not for the line after
  `#line __LINE__` written while another #line is in force: its operand inherits the N+1 of that one) - judged only where gcc -E gives the model's
  position for BOTH renderings.   quick: E n <= 2 x LALPHA x {LF, CRLF+BOM}, n = 3 x LRED (14 items); X n = 1 x LALPHA, n = 2 x LRED; S n <= 2 x LRED;
  D n = 1.  thorough: E n <= 2 x 4 encodings, n = 3 x LALPHA, n = 4 x LRED4 (8 items); X, S n <= 2 x LALPHA; D n <= 2 x LRED.

R  REPEATED INCLUSION: inner item rep:<pattern>:<guard>[header]: a header whose forest contains at least one #line item is included
  len(pattern) = 2 or 3 times - d: by an #include line of the file itself, w: through a wrapper header of its own (12 patterns) - each inclusion
  followed by a probe line in the includer; guard in {none, #ifndef/#define/#endif, #pragma once} (guards x {dd, dw, wd, ww}): 20 modes.  The #line
  items are at every position of the header (alphabet RALPHA = code, sp2, dL-, dLL, gLL, dH-, dBL; rep and #include nest to depth 2), so there are
  probes before and after the directive in every inclusion.  Judged per probe: (1) and (2) as in L, (3) every later occurrence of a probe
  reports the same __LINE__ and __FILE__ as its first occurrence (where gcc -E gives the model's position for both occurrences).
  quick: E n <= 2 x 20 modes x {LF, CRLF+BOM}, n = 3 x 8 modes, n = 4 x RALPHA3 x 3 modes; X n <= 2, n = 3 x 3 modes; S, D n <= 2.  thorough: E n <= 3 x 20 modes,
  n = 4 x RALPHA x 6 modes; X, S n <= 3; D n <= 2.

Observables (what each probe must show):
  E  `vpK(__LINE__, __FILE__);` read back from `-cc1 -E` output by re-lexing (models/pplex.py)
  X  the same values printed by the compiled and executed program
  D  one probe at a time is replaced by an erroneous token (invalid byte for the tokenizer, macro arity error for the
     preprocessor, undeclared identifier for the parser): `file:line:` prefix of the first diagnostic and the echoed line
  S  `.loc` record in force at the instruction that mentions symbol vpK, file number resolved through the `.file` table;
     all `.loc` records between two consecutive probes must belong to one of the two statements
Oracle: models/c18_position.py (physical line = 1 + LFs before the token in the original bytes; C11 6.10.4 presumed line
and name; a token that comes from a replacement list has the position of the macro name of the outermost invocation written in
a source file).  `gcc -E` is the second oracle for E/X: a probe is judged only where model and gcc agree.  For D and S a
location is accepted if it is the physical (file, line) or the presumed (file, line) pair - gcc uses the latter -
anything else, including a mixture of the two, is a deviation.  Where a splice is inside a probe, S accepts every line of the statement.
"""
import functools, os, re, shutil, sys, time
from vlib import core
from models import pplex
from models import c18_position as M

LEVEL = "exploration"
BUDGET = {"quick": 900, "thorough": 6000}

LEAVES = ["code", "blank", "slc", "slcs", "bc1", "bc2", "bc3", "sp2", "sp3", "mac", "macl", "line", "linef", "gnu"]
REDUCED = ["code", "blank", "bc2", "sp2", "line"]          # alphabet of the deepest thorough bound
MID = ["code", "blank", "bc2", "sp2", "sp3", "mac", "line", "linef"]   # alphabet of the 5-node bound of the thorough tier
# family U: text whose length changes before tokenization (universal character names) x backslash-newline x column
UALPHA = ["code", "ui", "us", "uk", "uc", "ub", "sp2", "sp3", "spa", "spb", "spu", "spw", "line"]
UCNS = {"u2": "\\u00e9", "u3": "\\u20ac", "U4": "\\U0001F600", "U2": "\\U000000e9"}    # the text shrinks by 4, 3, 6, 8 bytes
COLS = (0, 1, 2, 4, 8)                                      # column at which the text of a continuation line starts
VARIANTS_ALL = [(c, u) for c in COLS for u in sorted(UCNS)]
VARIANTS_PAIRED = [(0, "u2"), (1, "u3"), (2, "U4"), (4, "U2"), (8, "U2")]
VARIANTS_3 = [(0, "u2"), (2, "U4"), (8, "U2")]
# family M: __LINE__/__FILE__ in replacement lists; "arg" = inner node: the children are written inside the argument of an invocation
MALPHA = ["code", "mf1", "mf2", "mf3", "mf4", "mfc3", "macl", "sp2", "line"]
MARG = ["code", "bc2", "sp2", "mf1", "mf2", "mf3", "mfc3", "macl"]      # no directives inside arguments (C11 6.10.3p11)
M_HDR_MAX_LINES = 5
NLINES = {"code": 1, "blank": 1, "slc": 1, "slcs": 2, "bc1": 1, "bc2": 2, "bc3": 3, "sp2": 2, "sp3": 3, "mac": 4, "macl": 2,
          "line": 1, "linef": 1, "gnu": 1,
          "ui": 1, "us": 1, "uk": 1, "uc": 1, "ub": 1, "spa": 2, "spb": 2, "spu": 3, "spw": 3,
          "mf1": 2, "mf2": 3, "mf3": 4, "mf4": 5, "mfc3": 5}
# family L: spelling of the operands of #line x repeated inclusion of headers that contain #line
LNUMSRC = {"L": "literal", "S": "object-like macro defined earlier in the same file", "H": "object-like macro defined in an included header",
           "D": "object-like macro defined on the command line (-D)", "B": "__LINE__"}
LFILESRC = {"-": "no file operand", "L": "literal", "S": "object-like macro defined earlier in the same file",
            "H": "object-like macro defined in an included header", "D": "object-like macro defined on the command line (-D)", "B": "__FILE__"}
LITEMS = {"d%s%s" % (a, b): ("line", a, b) for a in "LSHDB" for b in "-LSHDB"}     # `#line <number> [<file>]` followed by a probe line
LITEMS["gLL"] = ("gnu", "L", "L")       # `# N "f"`: literal operands only (neither gcc nor chibicc macro-replace `# <identifier>`; C11: non-directive)
LLITERAL = ("dL-", "dLL", "gLL")
LALPHA = ["code", "sp2"] + sorted(LITEMS)
LRED = ["code", "sp2", "dL-", "dLL", "dS-", "dH-", "dD-", "dB-", "dLS", "dLH", "dLD", "dLB", "dHH", "dBL"]
RALPHA = ["code", "sp2", "dL-", "dLL", "gLL", "dH-", "dBL"]          # content of repeatedly included headers and their surroundings
RALPHA3 = ["code", "dL-", "dLL"]
LRED4 = ["code", "dL-", "dH-", "dD-", "dB-", "dLH", "dBL", "dLB"]
RPATTERNS = ["dd", "dw", "wd", "ww", "ddd", "ddw", "dwd", "wdd", "dww", "wdw", "wwd", "www"]   # d: #include in the file itself, w: through a wrapper header
RMODES = tuple([(p_, "none") for p_ in RPATTERNS] + [(p_, g_) for g_ in ("guard", "once") for p_ in ("dd", "dw", "wd", "ww")])
RMODES_RED = (("dd", "none"), ("dw", "none"), ("wd", "none"), ("ddd", "none"), ("dd", "guard"), ("dd", "once"))
RMODES_Q3 = (("dd", "none"), ("dw", "none"), ("wd", "none"), ("ww", "none"), ("ddd", "none"), ("dwd", "none"), ("dd", "guard"), ("dw", "once"))
RMODES_Q4 = (("dd", "none"), ("wd", "none"), ("ddd", "none"))
LKMAX = 6                       # #line directives per file set
L_HDR_MAX_LINES = 8
LCFG_H = "vpcfg.h"
LCFG_LINES = [x for k in range(1, LKMAX + 1) for x in ("#define VPHN%d %d" % (k, 100 * k + 11), '#define VPHF%d "vph%d.c"' % (k, k))]
LDEFS = [x for k in range(1, LKMAX + 1) for x in ("-DVPDN%d=%d" % (k, 100 * k + 11), '-DVPDF%d="vpd%d.c"' % (k, k))]
LDEFS_SH = " ".join("'%s'" % x for x in LDEFS)
LPREDEF = {x[2:].split("=", 1)[0]: x[2:].split("=", 1)[1] for x in LDEFS}
for _k, (_f, _a, _b) in LITEMS.items():
    NLINES[_k] = 2 + (_a == "S") + (_b == "S")
HDR_MAX_LINES = 3
MAXPROBE = 48
ENCS = {"lf": (b"\n", b""), "crlf": (b"\r\n", b""), "lf+bom": (b"\n", M.BOM), "crlf+bom": (b"\r\n", M.BOM),
        "mixed": (None, b""), "lf-noeof": (b"\n", b"")}      # lf-noeof: the last line of every file has no terminator
ERRKINDS = ("lex", "pp", "parse")
PRE_H_NAME = "vppre.h"
# family Z: long files whose structural bytes sit on and around the multiples of plausible I/O buffer sizes
ZSIZES = (512, 1024, 4096, 8192, 65536)
ZPERIOD = 512                   # comb layout: one feature every 512 bytes = at every multiple of every size in ZSIZES
ZTOTAL = 2 * 65536 + 1024       # ... up to this file size
ZSHIFTS = (-1, 0, 1)            # the feature byte is at k*B-1 (last of a buffer), k*B (first of the next), k*B+1
ZU8SHIFTS = (-3, -2, -1, 0, 1)  # second byte of a 4-byte UTF-8 character: every way to cut the character in two, and none
ZFEATURES = {"lf": ("lf", "bs", "spm", "u8c", "u8s"), "crlf": ("cr", "lf", "bs", "spm", "spe", "u8c", "u8s")}
ZFILL = (61, 83, 47, 97, 71)    # lengths of the filler lines of the single layout
ZU8 = "\xf0\x9f\x98\x80"
ZDIAG_AT = (512, 1024, 4096, 8192, 65536, 131072)


def pre_h(maxprobe=MAXPROBE):
    return ("".join("void vp%d(int, char *); " % i for i in range(1, maxprobe + 1)) +
            "\n#define VPA(x) x\nextern int vpsink; void VPFN(void) {\n")


PRE_H = pre_h()


# ---------------------------------------------------------------------------------------------------------------
# enumeration
def nlines(forest):
    t = 0
    for it in forest:
        if isinstance(it, str):
            t += NLINES[it]
        elif it[0] == "inc":
            t += 1
        else:
            t += 3 + nlines(it[1])
    return t


@functools.lru_cache(None)
def forests(n, depth, maxlines, alphabet, argalpha=None, argdepth=0, hdrmax=HDR_MAX_LINES):
    """All forests with exactly n nodes; `maxlines` < 0 = unbounded (main file).  `depth`: #include nesting still allowed;
    `argalpha`/`argdepth`: alphabet of the children of an "arg" node (None: no such nodes) and nesting still allowed."""
    if n == 0:
        return ((),)
    res = []
    for leaf in alphabet:
        ln = NLINES[leaf]
        if 0 <= maxlines < ln:
            continue
        for rest in forests(n - 1, depth, maxlines - ln if maxlines >= 0 else -1, alphabet, argalpha, argdepth, hdrmax):
            res.append((leaf,) + rest)
    if depth > 0 and (maxlines < 0 or maxlines >= 1):
        for k in range(0, n):
            for hdr in forests(k, depth - 1, hdrmax, alphabet, argalpha, argdepth, hdrmax):
                for rest in forests(n - 1 - k, depth, maxlines - 1 if maxlines >= 0 else -1, alphabet, argalpha, argdepth, hdrmax):
                    res.append((("inc", hdr),) + rest)
    if argalpha and argdepth > 0 and (maxlines < 0 or maxlines >= 3):
        for k in range(0, n):
            for ch in forests(k, 0, maxlines - 3 if maxlines >= 0 else -1, argalpha, argalpha, argdepth - 1, hdrmax):
                ln = 3 + nlines(ch)
                for rest in forests(n - 1 - k, depth, maxlines - ln if maxlines >= 0 else -1, alphabet, argalpha, argdepth, hdrmax):
                    res.append((("arg", ch),) + rest)
    return tuple(res)


def has_item(forest, pred):
    for it in forest:
        if isinstance(it, str):
            if pred(it):
                return True
        elif pred(it) or has_item(it[1], pred):
            return True
    return False


def is_family_l(forest):
    return has_item(forest, lambda it: it in LITEMS if isinstance(it, str) else it[0] == "rep")


def has_macro_directive(forest):
    return has_item(forest, lambda it: isinstance(it, str) and it in LITEMS and it not in LLITERAL)


def has_rep(forest):
    return has_item(forest, lambda it: not isinstance(it, str) and it[0] == "rep")


@functools.lru_cache(None)
def lforests(n, depth, maxlines, alphabet, modes):
    """Family L: all forests with exactly n nodes over `alphabet`, #include nodes, and - for every mode (pattern, guard) in `modes` - nodes
    rep[header]: a header that contains at least one #line directive, included len(pattern) times (d: by an #include line of the file itself,
    w: through a wrapper header of its own), each inclusion followed by a probe line.  inc and rep count 1 + the nodes of the header."""
    if n == 0:
        return ((),)
    res = []
    for leaf in alphabet:
        ln = NLINES[leaf]
        if 0 <= maxlines < ln:
            continue
        for rest in lforests(n - 1, depth, maxlines - ln if maxlines >= 0 else -1, alphabet, modes):
            res.append((leaf,) + rest)
    if depth > 0 and (maxlines < 0 or maxlines >= 1):
        for k in range(0, n):
            for hdr in lforests(k, depth - 1, L_HDR_MAX_LINES, alphabet, modes):
                for rest in lforests(n - 1 - k, depth, maxlines - 1 if maxlines >= 0 else -1, alphabet, modes):
                    res.append((("inc", hdr),) + rest)
                if not has_item(hdr, lambda it: isinstance(it, str) and it in LITEMS):
                    continue
                for mode in modes:
                    ln = 2 * len(mode[0])
                    if 0 <= maxlines < ln:
                        continue
                    for rest in lforests(n - 1 - k, depth, maxlines - ln if maxlines >= 0 else -1, alphabet, modes):
                        res.append((("rep", hdr, mode),) + rest)
    return tuple(res)


def fstr(forest, var=None):
    if forest and forest[0] == "Z":
        return "long file: %s layout, feature %s at k*B%+d, %s, in the %s%s" % (
            forest[1], forest[2], forest[3], forest[4], "main file" if forest[5] == "main" else "included header",
            "" if forest[1] == "comb" else ", B=%d k=%d" % (forest[6], forest[7]))
    t = " ".join(x if isinstance(x, str) else "%s[%s]" % (x[0] if x[0] != "rep" else "rep:%s:%s" % x[2], fstr(x[1])) for x in forest)
    if var:
        t += " {continuation column %d, UCN %s}" % (var[0], UCNS[var[1]])
    return t


def unpack(case):
    """case = (n, forest) | (n, forest, variant)"""
    return (case[0], case[1], case[2] if len(case) > 2 else None)


# ---------------------------------------------------------------------------------------------------------------
# rendering
class Render:
    """mode 'E': probes spelled vpK(__LINE__, __FILE__);   'S': vpK(0, 0);   'D': as S, probe `target` erroneous.
    var = (column at which continuation lines start, spelling of the universal character names)."""

    def __init__(self, mode, target=0, errkind=None, var=None):
        self.mode, self.target, self.errkind = mode, target, errkind
        self.col, self.ucn = var if var else (0, "u2")
        self.files = {}
        self.meta = {}
        self.npid = self.ndir = self.nhdr = self.nmac = self.nvar = self.nrep = self.nwrap = 0
        self.needq = False
        self.ldirs = []         # family L: the #line directives written (the list of lines they are in, index, operand sources, ordinal)

    def parts(self, kind, tail=False, **flags):
        """-> ("vpK(", first argument, ", second argument);")"""
        self.npid += 1
        pid = self.npid
        m = {"kind": kind, "tail": tail}
        m.update(flags)
        self.meta[pid] = m
        if self.mode == "E":
            return "vp%d(" % pid, "__LINE__", ", __FILE__);"
        if self.mode == "D" and pid == self.target:
            return "vp%d(" % pid, {"lex": "\x01 vperr%d", "pp": "VPA(vperr%d, 2)", "parse": "vperr%d"}[self.errkind] % pid, ", 0);"
        return "vp%d(" % pid, "0", ", 0);"

    def P(self, kind, tail=False, **flags):
        return "".join(self.parts(kind, tail, **flags))

    def file(self, name, forest, prefix=()):
        lines = list(prefix)
        self.files[name] = lines
        self.emit(forest, lines, None)

    def emit(self, forest, lines, sink):
        """sink: None = #define lines are written where the item is; a list = the item is inside the arguments of an invocation and its
        #define lines are collected there (they are written before the outermost invocation)."""
        pad = " " * self.col
        U = UCNS[self.ucn]
        defs = lines if sink is None else sink
        for it in forest:
            if not isinstance(it, str) and it[0] == "inc":
                self.nhdr += 1
                h = "h%d.h" % self.nhdr
                lines.append('#include "%s"' % h)
                self.file(h, it[1])
            elif not isinstance(it, str) and it[0] == "rep":
                # a header with #line directives inside, included several times: by the file itself (d) or through a wrapper header (w)
                pattern, guard = it[2]
                self.nrep += 1
                j = self.nrep
                h = "r%d.h" % j
                hl = {"none": [], "guard": ["#ifndef VPG%d" % j, "#define VPG%d" % j], "once": ["#pragma once"]}[guard]
                self.files[h] = hl
                self.emit(it[1], hl, None)
                if guard == "guard":
                    hl.append("#endif")
                for ch in pattern:
                    if ch == "d":
                        lines.append('#include "%s"' % h)
                    else:
                        self.nwrap += 1
                        w = "w%d.h" % self.nwrap
                        self.files[w] = ['#include "%s"' % h, self.P("code")]
                        lines.append('#include "%s"' % w)
                    lines.append(self.P("code"))
            elif isinstance(it, str) and it in LITEMS:
                form, ns, fs = LITEMS[it]
                self.ndir += 1
                k = self.ndir
                if k > LKMAX:
                    raise core.HarnessError("too many #line directives")
                n = 100 * k + 11
                if ns == "S":
                    lines.append("#define VPSN%d %d" % (k, n))
                if fs == "S":
                    lines.append('#define VPSF%d "vps%d.c"' % (k, k))
                num = {"L": str(n), "S": "VPSN%d" % k, "H": "VPHN%d" % k, "D": "VPDN%d" % k, "B": "__LINE__"}[ns]
                fil = {"-": "", "L": ' "vpf%d.c"' % k, "S": " VPSF%d" % k, "H": " VPHF%d" % k, "D": " VPDF%d" % k, "B": " __FILE__"}[fs]
                self.ldirs.append(dict(lines=lines, idx=len(lines), ns=ns, fs=fs, k=k))
                lines.append(("#line " if form == "line" else "# ") + num + fil)
                lines.append(self.P("code"))
            elif not isinstance(it, str) and it[0] == "arg":
                self.nmac += 1
                j = self.nmac
                inner = []
                mydefs = [] if sink is None else sink
                self.emit(it[1], inner, mydefs)
                mydefs.append("#define VPO%d(x) %s x" % (j, self.P("macro-body", multi=True)))
                if sink is None:
                    lines += mydefs
                lines += ["VPO%d(" % j] + inner + [") " + self.P("after-macro")]
            elif it == "code":
                lines.append(self.P("code"))
            elif it == "blank":
                lines.append("")
            elif it == "slc":
                lines.append("// vp0(__LINE__, __FILE__); comment")
            elif it == "slcs":
                lines += ["// comment continued by a backslash \\", "vp0(__LINE__, __FILE__); still the comment"]
            elif it == "bc1":
                lines.append(self.P("block-comment") + " /* vp0(0, 0); */ " + self.P("block-comment"))
            elif it == "bc2":
                lines += [self.P("block-comment") + " /* c", "vp0(0, 0); */ " + self.P("block-comment")]
            elif it == "bc3":
                lines += [self.P("block-comment") + " /* c", "vp0(0, 0);", "c */ " + self.P("block-comment")]
            elif it == "sp2":
                lines += [self.P("spliced-head") + " \\", pad + self.P("spliced-line", True)]
            elif it == "sp3":
                lines += [self.P("spliced-head") + " \\", pad + self.P("spliced-line", True) + " \\", pad + self.P("spliced-line", True)]
            elif it == "spa":       # the splice is inside the probe: its first argument is the first token of the continuation line
                a, b, c = self.parts("spliced-probe", True)
                lines += [a + "\\", pad + b + c]
            elif it == "spb":       # the first argument of the probe (a one-character macro for __LINE__) ends where the splice is
                a, b, c = self.parts("token-before-splice")
                self.needq = True
                lines += [a + ("Q" if self.mode == "E" else b) + "\\", pad + c]
            elif it == "spu":       # a universal character name just before the first splice of a logical line with two splices
                head = self.P("spliced-head")
                a, b, c = self.parts("spliced-probe", True)
                lines += [head + ' (void)"x%s";\\' % U, pad + a + "\\", pad + b + c]
            elif it == "spw":       # a universal character name between two splices
                head = self.P("spliced-head")
                a, b, c = self.parts("spliced-probe", True)
                lines += [head + " \\", '(void)"%s"; ' % U + a + "\\", pad + b + c]
            elif it == "ui":
                self.nvar += 1
                lines.append("int vq%d_%sx; " % (self.nvar, U) + self.P("code"))
            elif it == "us":
                lines.append('(void)"%s"; ' % U + self.P("code"))
            elif it == "uk":
                lines.append("(void)L'%s'; " % U + self.P("code"))
            elif it == "uc":
                lines.append(self.P("code") + " // c %s c" % U)
            elif it == "ub":
                lines.append("/* %s */ " % U + self.P("code"))
            elif it == "mac":
                lines += ["#define VPM(a,b,c) a b c", "VPM(" + self.P("macro-args") + ",", "  " + self.P("macro-args") + ",",
                          "  " + self.P("macro-args") + ") " + self.P("after-macro")]
            elif it == "macl":
                self.nmac += 1
                if self.mode == "E" or sink is not None or self.family_m:
                    defs.append("#define VPL%d %s" % (self.nmac, self.P("macro-body")))
                    lines.append("VPL%d" % self.nmac)
                else:
                    lines += ["#define VPL%d" % self.nmac, "VPL%d %s" % (self.nmac, self.P("after-macro"))]
            elif it in ("mf1", "mf2", "mf3", "mf4", "mfc3"):
                # function-like macro with a probe in its replacement list, a probe in each argument and one after the invocation
                self.nmac += 1
                j = self.nmac
                multi = it != "mf1"
                defs.append("#define VPB%d(a,b) a %s b" % (j, self.P("macro-body", multi=multi)))
                A, B, T = self.P("macro-args"), self.P("macro-args"), self.P("after-macro")
                if it == "mf1":
                    lines.append("VPB%d(%s, %s) %s" % (j, A, B, T))
                elif it == "mf2":
                    lines += ["VPB%d(%s," % (j, A), "  %s) %s" % (B, T)]
                elif it == "mf3":
                    lines += ["VPB%d(" % j, "  %s," % A, "  %s) %s" % (B, T)]
                elif it == "mf4":
                    lines += ["VPB%d" % j, "  (%s," % A, "  %s" % B, "  ) %s" % T]
                else:       # the invocation of VPB comes from the replacement list of VPC
                    defs.append("#define VPC%d(x,y) VPB%d(y, x)" % (j, j))
                    lines += ["VPC%d(" % j, "  %s," % A, "  %s) %s" % (B, T)]
            elif it in ("line", "linef", "gnu"):
                self.ndir += 1
                n = 100 * self.ndir + 11
                lines.append({"line": "#line %d" % n, "linef": '#line %d "vpf%d.c"' % (n, self.ndir),
                              "gnu": '# %d "vpg%d.c"' % (n, self.ndir)}[it])
            else:
                raise core.HarnessError("unknown item " + str(it))

    family_m = False
    family_l = False


def is_family_m(forest):
    for it in forest:
        if isinstance(it, str):
            if it.startswith("mf"):
                return True
        elif it[0] == "arg" or is_family_m(it[1]):
            return True
    return False


def render(forest, mode, target=0, errkind=None, var=None):
    if forest and forest[0] == "Z":
        return zrender(forest, mode, target, errkind)
    r = Render(mode, target, errkind, var)
    r.family_m = is_family_m(forest)
    r.family_l = is_family_l(forest)
    if r.family_l:          # the header that defines the macros VPHN<k> / VPHF<k> is included first; VPDN<k> / VPDF<k> come from the command line
        r.files[LCFG_H] = list(LCFG_LINES)
        r.file("t.c", forest, ['#include "%s"' % LCFG_H])
    else:
        r.file("t.c", forest)
    r.files["t.c"].append("}")
    if r.needq:     # one-character spelling of __LINE__ (written in every mode so that the line structure is the same)
        r.files["t.c"].insert(0, "#define Q __LINE__")
    if r.npid > MAXPROBE:
        raise core.HarnessError("too many probes")
    r.maxprobe = MAXPROBE
    return r


def zspecs(layouts, encs, wheres, ks):
    out = []
    for enc in encs:
        for T in ZFEATURES["crlf" if enc.startswith("crlf") else "lf"]:
            for d in (ZU8SHIFTS if T.startswith("u8") else ZSHIFTS):
                for where in wheres:
                    if "comb" in layouts:
                        out.append(("Z", "comb", T, d, enc, where, ZPERIOD, 0))
                    if "single" in layouts:
                        for B in ZSIZES:
                            for k in ks:
                                out.append(("Z", "single", T, d, enc, where, B, k))
    return out


def zrender(spec, mode, target=0, errkind=None):
    """Family Z.  The feature byte T (cr/lf: of a line terminator; bs/spm/spe: first, second, third byte of a backslash-newline; u8c/u8s:
    second byte of a 4-byte UTF-8 character in a comment / string literal) is put at absolute file offset k*B+d by padding a comment.
    comb: for every k with B = ZPERIOD up to ZTOTAL, a probe on every line; single: for one (B, k), the lines before it are fillers of
    irregular length."""
    _, layout, T, d, enc, where, B, k = spec
    r = Render(mode, target, errkind)
    eol = b"\r\n" if enc.startswith("crlf") else b"\n"
    le = len(eol)
    if T in ("cr", "spe") and le != 2:
        raise core.HarnessError("feature needs CR LF")
    first = r.P("code") if where != "main" else None
    buf = bytearray(M.BOM if enc.endswith("+bom") else b"")
    targets = [i * ZPERIOD + d for i in range(1, ZTOTAL // ZPERIOD + 1)] if layout == "comb" else [k * B + d]
    after = {}

    def line(text):
        buf.extend(text.encode("latin-1") + eol)
    line(r.P("long-file"))
    nfill = 0
    for tg in targets:
        while tg - len(buf) > 900:
            L = ZFILL[nfill % len(ZFILL)]
            nfill += 1
            line("/*" + "f" * (L - 4 - le) + "*/")
        head = r.P("long-file")
        after[tg - d] = [r.npid, r.npid + 1]
        pos, h = len(buf), len(head)
        if T == "lf":
            pad = tg - (pos + h + 5 + le - 1)
            text = head + " /*" + "p" * pad + "*/"
        elif T == "cr":
            pad = tg - (pos + h + 5)
            text = head + " /*" + "p" * pad + "*/"
        elif T in ("bs", "spm", "spe"):
            pad = tg - {"bs": 0, "spm": 1, "spe": 2}[T] - (pos + h + 6)
            text = head + " /*" + "p" * pad + "*/ \\"
        elif T == "u8c":
            pad = tg - (pos + h + 4)
            text = head + " /*" + "p" * pad + ZU8 + " c*/"
        elif T == "u8s":
            pad = tg - (pos + h + 9)
            text = head + ' (void)"' + "p" * pad + ZU8 + '";'
        else:
            raise core.HarnessError("unknown feature " + T)
        if pad < 0:
            raise core.HarnessError("no room for the padding: %r" % (spec,))
        line(text)
        if T in ("bs", "spm", "spe"):
            line(r.P("long-file-spliced-line", True))
        want = {"lf": b"\n", "cr": b"\r", "bs": b"\\", "spm": eol[:1], "spe": b"\n", "u8c": b"\x9f", "u8s": b"\x9f"}[T]
        if bytes(buf[tg:tg + 1]) != want:
            raise core.HarnessError("feature byte misplaced: %r" % (spec,))
    line(r.P("long-file"))
    line(r.P("long-file"))
    if where == "main":
        line("}")
        r.raw = {"t.c": bytes(buf)}
    else:
        last = r.P("code")
        r.raw = {"t.c": b"".join(x.encode("latin-1") + eol for x in (first, '#include "h1.h"', last, "}")), "h1.h": bytes(buf)}
    r.files = None
    r.maxprobe = r.npid
    # probes at which diagnostics are provoked: around the boundaries of every buffer size (comb), around the one boundary (single)
    if layout == "single":
        r.dtargets = sorted(set(p for x in after for p in after[x]) | {1, r.npid})
    else:
        r.dtargets = sorted(set(after[x][1] for x in ZDIAG_AT if x in after) | {1, r.npid})
    return r


def encode(lines, enc):
    eol, bom = ENCS[enc]
    if eol is None:        # alternating CRLF / LF
        return bom + b"".join(l.encode("latin-1") + (b"\r\n" if i % 2 == 0 else b"\n") for i, l in enumerate(lines))
    data = bom + b"".join(l.encode("latin-1") + eol for l in lines)
    return data[:-len(eol)] if enc == "lf-noeof" else data


def encode_all(r, enc):
    if r.files is None:      # family Z: the layout is part of the case (pseudo-encoding "z")
        return dict(r.raw)
    return {name: encode(lines, enc) for name, lines in r.files.items()}


def write_files(d, files):
    os.makedirs(d, exist_ok=True)
    for name, data in files.items():
        with open(os.path.join(d, name), "wb") as f:
            f.write(data)


def construct(meta, info):
    if info["directive"]:
        return "spliced-line+after-#line" if meta["tail"] else "after-#line"
    return meta["kind"] + ("+after-ucn" if info.get("ucn") else "")


def file_class(obs, info):
    if obs is None:
        return "unreadable"
    o = M.norm(obs)
    if o == M.norm(info["presfile"]):
        return "expected-file"
    if o == M.norm(info["file"]):
        return "physical-file"
    if o == "t.c":
        return "main-file"
    return "other-file"


def family_counts(acc, obs, meta, info):
    """vacuity guards of the added dimensions: how many judged probes exercise them"""
    if info.get("ucn") and (meta["tail"] or meta["kind"] == "token-before-splice"):
        acc.count("judged_%s_splice_after_ucn" % obs)
    if meta["kind"] == "macro-body" and meta.get("multi"):
        acc.count("judged_%s_body_of_multiline_invocation" % obs)
    if meta["kind"].startswith("long-file"):
        acc.count("judged_%s_long_file" % obs)


class Acc:
    """Per-shard accumulator: counters and, per signature, the count and the first example."""

    def __init__(self):
        self.n = {}
        self.dev = {}
        self.kinds = set()

    def count(self, k, v=1):
        self.n[k] = self.n.get(k, 0) + v

    def deviation(self, sig, desc, files, replay):
        if sig in self.dev:
            self.dev[sig][0] += 1
        else:
            self.dev[sig] = [1, desc, files, replay]

    def result(self):
        return self.n, self.dev, sorted(self.kinds)


def support_files():
    out = {}
    for n in ("pplex.py", "c18_position.py"):
        out[n] = open(os.path.join(core.VERIF, "models", n), "rb").read()
    return out


def fs_all(files, sup):
    fs = dict(files); fs.update(sup)
    return fs


def spec(pairs):
    return ",".join("%s:%d" % p for p in sorted(set(pairs)))


# ---------------------------------------------------------------------------------------------------------------
# E: __LINE__/__FILE__ in -E output, gcc -E as second oracle
def gcc_E(wd, entries, defs=(), aslist=False, undef=()):
    """entries: [(key, dirname)] -> {key: {pid: (line, file)}} or None when gcc failed.
    aslist: {key: [(pid, line, file)]} in translation order (a probe may occur several times: repeated inclusion)."""
    drv = os.path.join(wd, "vpgcc.c")
    with open(drv, "w") as f:
        for i, (key, d) in enumerate(entries):
            f.write('VPCASE(%d)\n%s#include "%s/t.c"\n' % (i, "".join("#undef %s\n" % u for u in undef), d))
    st, out, err = core.run_limited(["gcc", "-E", "-P", "-w"] + list(defs) + ["vpgcc.c"], cwd=wd, timeout=600)
    if st != 0:
        return None
    toks = pplex.lex(out)
    res, cur, start = {}, None, 0
    bounds = []
    for i, t in enumerate(toks):
        if t == "VPCASE" and toks[i + 1:i + 2] == ["("]:
            bounds.append((i, int(toks[i + 2])))
    for bi, (pos, idx) in enumerate(bounds):
        end = bounds[bi + 1][0] if bi + 1 < len(bounds) else len(toks)
        key, d = entries[idx]
        got = {}
        seq = []
        dup = False
        for pid, line, fn in M.observe_E(toks[pos + 4:end]):
            if fn is not None:
                fn = M.norm(fn)
                if fn.startswith(d + "/"):
                    fn = fn[len(d) + 1:]
            if pid in got:
                dup = True
            got[pid] = (line, fn)
            seq.append((pid, line, fn))
        res[key] = seq if aslist else None if dup else got
    return res


def _shard_E(args):
    chibicc, wd, sidx, cases, encs_small, encs_big, small_n, gcc_encs = args
    acc = Acc()
    os.makedirs(wd, exist_ok=True)
    sup = None
    prepared = []
    gcc_entries = []
    for ci, case in enumerate(cases):
        n, forest, var = unpack(case)
        r = render(forest, "E", var=var)
        encs = ["z"] if r.files is None else encs_small if n <= small_n else encs_big
        exp0 = None
        for enc in encs:
            files = encode_all(r, enc)
            exp = M.expected(files)
            sig_exp = [(p, i["pres"], i["presfile"], i["phys"], i["file"]) for p, i in exp]
            if exp0 is None:
                exp0 = sig_exp
            elif exp0 != sig_exp:
                raise core.HarnessError("model depends on the encoding: %s %s" % (fstr(forest, var), enc))
            if sorted(p for p, i in exp) != list(range(1, r.npid + 1)):
                raise core.HarnessError("model lost a probe: %s" % fstr(forest, var))
            d = "c%d_%s" % (ci, enc.replace("+", ""))
            write_files(os.path.join(wd, d), files)
            prepared.append((ci, enc, d, r, files, exp))
            if enc in gcc_encs or n <= small_n or enc == "z":
                gcc_entries.append(((ci, enc), d))
    gcc = gcc_E(wd, gcc_entries) if gcc_entries else {}
    if gcc is None:
        acc.count("ref_rejected", len(gcc_entries))
        gcc = {}
    for ci, enc, d, r, files, exp in prepared:
        n, forest, var = unpack(cases[ci])
        fs_ = fstr(forest, var)
        cd = os.path.join(wd, d)
        st, out, err = core.run_limited([chibicc, "-cc1", "-E", "-cc1-input", "t.c", "t.c"], cwd=cd, timeout=120)
        acc.count("runs_E")
        if st == "timeout":
            acc.count("timeouts")
            continue
        g = gcc.get((ci, enc))
        if g is None:
            g = gcc.get((ci, "lf"))
        if st != 0:
            acc.deviation("C18|-E|valid-file-%s" % ("killed" if isinstance(st, int) and st < 0 else "rejected"),
                          "[%s] %s: -E fails (status %s): %s" % (fs_, enc, st, err.strip().splitlines()[:1]),
                          dict(files), "$CHIBICC -cc1 -E -cc1-input t.c t.c >/dev/null 2>&1 && exit 0; exit 1")
            continue
        obs = M.observe_E(pplex.lex(out))
        if [p for p, l, f in obs] != [p for p, i in exp]:
            acc.deviation("C18|-E|probe-sequence-differs", "[%s] %s: probes in -E output %s, expected %s"
                          % (fs_, enc, [p for p, l, f in obs], [p for p, i in exp]), dict(files),
                          "$CHIBICC -cc1 -E -cc1-input t.c t.c > out.txt 2>/dev/null || exit 1\n"
                          "python3 -c \"import pplex,c18_position as M,sys; got=[p for p,l,f in M.observe_E(pplex.lex(open('out.txt').read()))]; "
                          "sys.exit(0 if got==%r else 1)\"" % [p for p, i in exp])
            continue
        for (pid, line, fn), (_, info) in zip(obs, exp):
            meta = r.meta[pid]
            fn = M.norm(fn, cd) if fn is not None else None
            want = (info["pres"], M.norm(info["presfile"]))
            if g is None or pid not in g:
                acc.count("unjudged_no_reference")
                continue
            if g[pid] != want:
                acc.count("skipped_unspecified" if meta["kind"] in ("macro-args", "macro-body") else "oracle_disagreements")
                continue
            acc.count("judged_E")
            family_counts(acc, "E", meta, info)
            acc.kinds.add((construct(meta, info), enc))
            nontrivial = info["pres"] != 1
            if nontrivial:
                acc.count("nontrivial_E")
            if line != info["pres"]:
                if sup is None:
                    sup = support_files()
                fs = dict(files); fs.update(sup)
                acc.deviation("C18|%s|__LINE__|observed=%s" % (construct(meta, info), M.line_class(line, info)),
                              "[%s] %s: probe vp%d (%s, physical line %d of %s) has __LINE__ == %s in -E output; C11/gcc: %d"
                              % (fs_, enc, pid, meta["kind"], info["phys"], info["file"], line, info["pres"]), fs,
                              "$CHIBICC -cc1 -E -cc1-input t.c t.c > out.txt 2>/dev/null || exit 0\n"
                              "python3 c18_position.py E out.txt %d '%s'" % (pid, spec([(info["presfile"], info["pres"])])))
            if fn is None or M.norm(fn) != want[1]:
                if sup is None:
                    sup = support_files()
                fs = dict(files); fs.update(sup)
                acc.deviation("C18|%s|__FILE__|observed=%s" % (construct(meta, info) + ("" if info["file"] == "t.c" else "+in-header"),
                                                               file_class(fn, info)),
                              "[%s] %s: probe vp%d in %s has __FILE__ == %r in -E output; C11/gcc: %r"
                              % (fs_, enc, pid, info["file"], fn, info["presfile"]), fs,
                              "$CHIBICC -cc1 -E -cc1-input t.c t.c > out.txt 2>/dev/null || exit 0\n"
                              "python3 c18_position.py E out.txt %d '%s' | grep -q \"observed ('%s'\" && exit 0; exit 1"
                              % (pid, spec([(info["presfile"], info["pres"])]), M.norm(info["presfile"])))
    shutil.rmtree(wd, ignore_errors=True)
    return acc.result()


# ---------------------------------------------------------------------------------------------------------------
# helpers shared by the compiling modes
def acceptable(info, span=False):
    """physical or presumed position of the token; span: of any line of the probe statement (one line unless a splice is inside it)"""
    out = set()
    for d in (range(info.get("lo", 0), info.get("hi", 0) + 1) if span else (0,)):
        out |= {(M.norm(info["file"]), info["phys"] + d), (M.norm(info["presfile"]), info["pres"] + d)}
    return out


def position_class(fn, line, info):
    """Deviation class of an observed (file, line) pair that is not acceptable."""
    lc = M.line_class(line, info)
    fc = file_class(fn, info)
    if lc == "physical-line" and fc == "expected-file" and info["directive"]:
        return "presumed-file:physical-line"
    if fc == "expected-file" or (fc == "physical-file" and lc in ("physical-line",)):
        return lc
    return "%s:%s" % (fc, lc)


def cc1_cmd(extra="", r=None):
    if r is not None and r.family_l:
        extra = (extra + " " + LDEFS_SH).strip()
    return "$CHIBICC -cc1 -DVPFN=vpfn -include %s %s -cc1-input t.c" % (PRE_H_NAME, extra)


def compile_args(chibicc, out, r=None, fn="vpfn"):
    return ([chibicc, "-cc1", "-DVPFN=" + fn] + (LDEFS if r is not None and r.family_l else []) +
            ["-include", PRE_H_NAME, "-cc1-input", "t.c", "-cc1-output", out, "t.c"])


def expected_of(r, files):
    """the model's probes; family L: with the command-line macros"""
    return M.expected_ex(files, predef=LPREDEF)[0] if getattr(r, "family_l", False) else M.expected(files)


# ---------------------------------------------------------------------------------------------------------------
# D: diagnostics
def _shard_D(args):
    chibicc, wd, sidx, cases, encs_small, encs_big, small_n, kinds_small, kinds_big = args
    acc = Acc()
    sup = support_files()
    for ci, case in enumerate(cases):
        n, forest, var = unpack(case)
        r0 = render(forest, "S", var=var)
        big = r0.files is None
        exp0 = dict(M.expected(encode_all(r0, "z"))) if big else None     # same lines as the erroneous renderings: modelled once
        for enc in (["z"] if big else encs_small if n <= small_n else encs_big):
            for kind in (kinds_small if n <= small_n else kinds_big):
                for target in (r0.dtargets if big else range(1, r0.npid + 1)):
                    r = render(forest, "D", target, kind, var=var)
                    files = encode_all(r, enc)
                    files[PRE_H_NAME] = pre_h(r.maxprobe).encode()
                    exp = exp0 or dict(expected_of(r, files))
                    info, meta = exp[target], r.meta[target]
                    if meta["kind"] == "macro-body":
                        # a diagnostic about a token of a replacement list may name the definition or the invocation -> not judged
                        acc.count("skipped_unspecified"); continue
                    if kind == "pp" and meta["kind"] == "macro-args":
                        # where inside an enclosing multi-line invocation a preprocessing error is reported is the implementation's
                        # choice (gcc: the closing parenthesis of the outer invocation; the model: the token) -> not judged
                        acc.count("skipped_unspecified"); continue
                    shutil.rmtree(wd, ignore_errors=True)
                    write_files(wd, files)
                    if n <= 1:      # second oracle for the model's presumed position: where does gcc report this error?
                        gs, go, ge = core.run_limited(["gcc", "-fsyntax-only", "-DVPFN=vpfn"] + (LDEFS if r.family_l else []) +
                                                      ["-include", PRE_H_NAME, "t.c"], cwd=wd, timeout=300)
                        gm = re.search(r"^(.+?):(\d+):(?:\d+:)? (?:fatal )?error:", ge, re.M)
                        if gs != "timeout":
                            acc.count("gcc_diagnostics_compared")
                            if not gm or (M.norm(gm.group(1)), int(gm.group(2))) != (M.norm(info["presfile"]), info["pres"]):
                                acc.count("oracle_disagreements")
                                continue
                    st, out, err = core.run_limited(compile_args(chibicc, "t.s", r), cwd=wd, timeout=120)
                    acc.count("runs_D")
                    if st == "timeout":
                        acc.count("timeouts"); continue
                    if st == 0:
                        acc.count("erroneous_accepted"); continue
                    if isinstance(st, int) and st < 0:
                        acc.count("killed_on_erroneous_input"); continue
                    d = M.observe_diag(err)
                    if d is None:
                        acc.count("diagnostic_without_location"); continue
                    fn, line, echo = d
                    fn = M.norm(fn, wd)
                    acc.count("judged_D")
                    family_counts(acc, "D", meta, info)
                    acc.kinds.add((construct(meta, info), kind, enc))
                    if info["phys"] != 1:
                        acc.count("nontrivial_D")
                    where = "[%s] %s: %s error at probe vp%d (%s, physical line %d of %s%s)" % (
                        fstr(forest, var), enc, kind, target, meta["kind"], info["phys"], info["file"],
                        ", presumed %s:%d" % (info["presfile"], info["pres"]) if info["directive"] else "")
                    if (M.norm(fn), line) not in acceptable(info):
                        fs = dict(files); fs.update(sup)
                        acc.deviation("C18|%s|diagnostic:%s|observed=%s" % (construct(meta, info), kind, position_class(fn, line, info)),
                                      "%s is reported at %s:%d" % (where, fn, line), fs,
                                      cc1_cmd(r=r) + " -cc1-output t.s t.c 2> err.txt && exit 0\n"
                                      "python3 c18_position.py D err.txt %d '%s'" % (target, spec(acceptable(info))))
                    if not re.search(r"vp\d+\s*\(", echo):
                        acc.count("diagnostics_without_source_echo")       # echoing the line is not required, only that an echo is right
                    elif ("vperr%d" % target) not in echo:
                        fs = dict(files); fs.update(sup)
                        acc.deviation("C18|%s|diagnostic:%s-echo|observed=offending-token-not-in-echoed-line" % (construct(meta, info), kind),
                                      "%s: echoed text %r does not show the offending token" % (where, echo[:120]), fs,
                                      cc1_cmd(r=r) + " -cc1-output t.s t.c 2> err.txt && exit 0\n"
                                      "head -4 err.txt | grep -q vperr%d && exit 0; exit 1" % target)
    shutil.rmtree(wd, ignore_errors=True)
    return acc.result()


# ---------------------------------------------------------------------------------------------------------------
# S: .loc / .file
def judge_S(acc, asm, r, files, exp, forest, enc, sup, cd):
    """Plain rendering (probes are `vpK(0, 0);`).  Returns the set of unacceptable in-between records (a, b, file, line)."""
    table, mentions, records = M.observe_S(asm)
    table = {k: M.norm(v, cd) for k, v in table.items()}
    exp_d = dict(exp)
    for pid, info in exp:
        meta = r.meta[pid]
        m = mentions.get(pid)
        if m is None:
            acc.count("unmodelled_S"); continue
        fno, line = m
        acc.count("judged_S")
        family_counts(acc, "S", meta, info)
        acc.kinds.add((construct(meta, info), ".loc", enc))
        if info["phys"] != 1:
            acc.count("nontrivial_S")
        where = "[%s] %s: statement vp%d (%s, physical line %d of %s%s)" % (
            forest, enc, pid, meta["kind"], info["phys"], info["file"],
            ", presumed %s:%d" % (info["presfile"], info["pres"]) if info["directive"] else "")
        rp = cc1_cmd(r=r) + " -cc1-output t.s t.c || exit 0\npython3 c18_position.py S t.s %d '%s'" % (pid, spec(acceptable(info, True)))
        if fno not in table:
            acc.deviation("C18|.file-table|.loc|observed=file-number-without-.file-entry", "%s: .loc %d %d but no .file %d" % (where, fno, line, fno),
                          fs_all(files, sup), rp)
            continue
        fn = table[fno]
        if (M.norm(fn), line) not in acceptable(info, True):
            acc.deviation("C18|%s|.loc|observed=%s" % (construct(meta, info), position_class(fn, line, info)),
                          "%s is covered by `.loc %d %d` = %s:%d" % (where, fno, line, fn, line), fs_all(files, sup), rp)
    # every record between two probes belongs to one of them
    bad = set()
    for a, b, fno, line in records:
        if a == 0 or b == 0 or a not in exp_d or b not in exp_d:
            continue
        fn = M.norm(table.get(fno, "?"))
        ok = acceptable(exp_d[a], True) | acceptable(exp_d[b], True)
        acc.count("loc_records_checked")
        if (fn, line) not in ok:
            bad.add((a, b, fn, line))
            info, meta = exp_d[b], r.meta[b]
            acc.deviation("C18|%s|.loc-between-statements|observed=%s" % (construct(meta, info), position_class(fn, line, info)),
                          "[%s] %s: `.loc %d %d` (%s:%d) appears between the instructions of vp%d and vp%d, whose statements are at %s"
                          % (forest, enc, fno, line, fn, line, a, b, sorted(ok)), fs_all(files, sup),
                          cc1_cmd(r=r) + " -cc1-output t.s t.c || exit 0\npython3 c18_position.py R t.s %d-%d '%s'" % (a, b, spec(ok)))
    return bad


def judge_S_builtin(acc, asm, asm_plain, r, files, exp, forest, enc, sup, cd):
    """Rendering with `vpK(__LINE__, __FILE__);`: the tokens that __LINE__/__FILE__ expand to must not drag in .loc records
    that the plain rendering `vpK(0, 0);` of the same files does not have (differential, plus the acceptable set)."""
    exp_d = dict(exp)

    def unacceptable(text):
        table, mentions, records = M.observe_S(text)
        table = {k: M.norm(v, cd) for k, v in table.items()}
        out = set()
        for a, b, fno, line in records:
            if a == 0 or b == 0 or a not in exp_d or b not in exp_d:
                continue
            if r.meta[a]["kind"] == "macro-body" or r.meta[b]["kind"] == "macro-body":
                continue
            fn = M.norm(table.get(fno, "?"))
            if (fn, line) not in acceptable(exp_d[a], True) | acceptable(exp_d[b], True):
                out.add((a, b, fn, line))
        return out
    extra = unacceptable(asm) - unacceptable(asm_plain)
    acc.count("builtin_token_units_checked")
    for a, b, fn, line in sorted(extra):
        ok = acceptable(exp_d[a], True) | acceptable(exp_d[b], True)
        acc.deviation("C18|__LINE__/__FILE__-token|.loc-between-statements|observed=%s" % ("line-1" if line == 1 else "other-line"),
                      "[%s] %s: with vpK(__LINE__, __FILE__) instead of vpK(0, 0) a record for %s:%d appears between the instructions of vp%d and vp%d, "
                      "whose statements are at %s" % (forest, enc, fn, line, a, b, sorted(ok)), fs_all(files, sup),
                      cc1_cmd() + " -cc1-output t.s t.c || exit 0\npython3 c18_position.py R t.s %d-%d '%s'" % (a, b, spec(ok)))


def _shard_S(args):
    chibicc, wd, sidx, cases, encs = args
    acc = Acc()
    sup = support_files()
    for ci, case in enumerate(cases):
        n, forest, var = unpack(case)
        r = render(forest, "S", var=var)
        for enc in (["z"] if r.files is None else encs):
            files = encode_all(r, enc)
            files[PRE_H_NAME] = pre_h(r.maxprobe).encode()
            exp = expected_of(r, files)
            shutil.rmtree(wd, ignore_errors=True)
            write_files(wd, files)
            st, out, err = core.run_limited(compile_args(chibicc, "t.s", r), cwd=wd, timeout=120)
            acc.count("runs_S")
            if st == "timeout":
                acc.count("timeouts"); continue
            if st != 0:
                acc.deviation("C18|-S|valid-file-%s" % ("killed" if isinstance(st, int) and st < 0 else "rejected"),
                              "[%s] %s: compilation fails (status %s): %s" % (fstr(forest, var), enc, st, err.strip().splitlines()[:1]),
                              dict(files), cc1_cmd(r=r) + " -cc1-output t.s t.c >/dev/null 2>&1 && exit 0; exit 1")
                continue
            judge_S(acc, open(os.path.join(wd, "t.s"), errors="replace").read(), r, files, exp, fstr(forest, var), enc, sup, wd)
    shutil.rmtree(wd, ignore_errors=True)
    return acc.result()


# ---------------------------------------------------------------------------------------------------------------
# X: compiled and executed
def _shard_X(args):
    chibicc, wd, sidx, cases, encs = args
    acc = Acc()
    sup = support_files()
    os.makedirs(wd, exist_ok=True)
    units = []
    gcc_entries = []
    maxprobe = MAXPROBE
    for ci, case in enumerate(cases):
        n, forest, var = unpack(case)
        r = render(forest, "E", var=var)
        maxprobe = max(maxprobe, r.maxprobe)
        for enc in (["z"] if r.files is None else encs):
            files = encode_all(r, enc)
            exp = M.expected(files)
            files[PRE_H_NAME] = pre_h(r.maxprobe).encode()
            d = "x%d_%s" % (ci, enc.replace("+", ""))
            cd = os.path.join(wd, d)
            write_files(cd, files)
            gcc_entries.append(((ci, enc), d))
            fnname = "vpf%d" % len(units)
            st, out, err = core.run_limited([chibicc, "-cc1", "-DVPFN=" + fnname, "-include", PRE_H_NAME, "-cc1-input", "t.c",
                                             "-cc1-output", "t.s", "t.c"], cwd=cd, timeout=120)
            acc.count("runs_X")
            if st == "timeout":
                acc.count("timeouts"); continue
            if st != 0:
                acc.deviation("C18|-S|valid-file-%s" % ("killed" if isinstance(st, int) and st < 0 else "rejected"),
                              "[%s] %s: compilation fails (status %s): %s" % (fstr(forest, var), enc, st, err.strip().splitlines()[:1]),
                              dict(files), cc1_cmd() + " -cc1-output t.s t.c >/dev/null 2>&1 && exit 0; exit 1")
                continue
            rs = render(forest, "S", var=var)
            pd = os.path.join(wd, "plain")
            shutil.rmtree(pd, ignore_errors=True)
            pf = encode_all(rs, enc); pf[PRE_H_NAME] = pre_h(r.maxprobe).encode()
            write_files(pd, pf)
            st2, o2, e2 = core.run_limited(compile_args(chibicc, "t.s"), cwd=pd, timeout=120)
            if st2 == 0 and [p for p, i in M.expected(pf)] == [p for p, i in exp]:
                judge_S_builtin(acc, open(os.path.join(cd, "t.s"), errors="replace").read(), open(os.path.join(pd, "t.s"), errors="replace").read(),
                                r, files, exp, fstr(forest, var), enc, sup, cd)
            st, out, err = core.run_limited(["as", "-o", os.path.join(wd, fnname + ".o"), "t.s"], cwd=cd, timeout=300)
            if st != 0:
                if re.search(r"\.loc|\.file|file number|line number", err):
                    acc.deviation("C18|.file-table|assembler-rejects-line-records", "[%s] %s: as: %s" % (fstr(forest, var), enc, err.strip().splitlines()[:2]),
                                  fs_all(files, sup), cc1_cmd() + " -cc1-output t.s t.c || exit 0\nas -o t.o t.s 2>/dev/null && exit 0; exit 1")
                else:
                    acc.count("as_failed")
                continue
            units.append((fnname, ci, enc, r, files, exp, fstr(forest, var)))
    gcc = gcc_E(wd, gcc_entries) or {}
    if not units:
        return acc.result()
    drv = ["#include <stdio.h>", "static int cur;"]
    drv += ["void vp%d(int l, char *f) { printf(\"%%d %d %%d %%s\\n\", cur, l, f); }" % (i, i) for i in range(1, maxprobe + 1)]
    drv += ["int vpsink;"] + ["void %s(void);" % u[0] for u in units]
    drv += ["int main(void) {"] + ["  cur = %d; %s();" % (k, u[0]) for k, u in enumerate(units)] + ["  return 0; }"]
    with open(os.path.join(wd, "drv.c"), "w") as f:
        f.write("\n".join(drv) + "\n")
    st, out, err = core.run_limited(["gcc", "-O0", "-o", "drv", "drv.c"] + [u[0] + ".o" for u in units], cwd=wd, timeout=900)
    if st != 0:
        raise core.HarnessError("C18 exec driver does not link: %s" % err[-800:])
    st, out, err = core.run_limited([os.path.join(wd, "drv")], cwd=wd, timeout=300)
    if st != 0:
        if st == "timeout":
            acc.count("timeouts"); return acc.result()
        raise core.HarnessError("C18 exec driver failed: %s %s" % (st, err[-300:]))
    got = {}
    for l in out.splitlines():
        w = l.split(" ", 3)
        got.setdefault(int(w[0]), []).append((int(w[1]), int(w[2]), w[3]))
    for k, (fnname, ci, enc, r, files, exp, forest) in enumerate(units):
        obs = got.get(k, [])
        g = gcc.get((ci, enc))
        if [p for p, l, f in obs] != [p for p, i in exp]:
            acc.deviation("C18|run|probe-sequence-differs", "[%s] %s: executed probes %s, expected %s"
                          % (forest, enc, [p for p, l, f in obs], [p for p, i in exp]), dict(files), None)
            continue
        for (pid, line, fn), (_, info) in zip(obs, exp):
            meta = r.meta[pid]
            fn = M.norm(fn, os.path.join(wd, "x%d_%s" % (ci, enc.replace("+", ""))))
            want = (info["pres"], M.norm(info["presfile"]))
            if g is None or g.get(pid) != want:
                acc.count("skipped_unspecified" if meta["kind"] in ("macro-args", "macro-body") else "oracle_disagreements")
                continue
            acc.count("judged_X")
            family_counts(acc, "X", meta, info)
            acc.kinds.add((construct(meta, info), "run", enc))
            fs = dict(files); fs.update(sup)
            fs["drv.c"] = ("#include <stdio.h>\n" + "".join("void vp%d(int l, char *f) { printf(\"%d %%d %%s\\n\", l, f); }\n" % (i, i)
                                                             for i in range(1, r.maxprobe + 1)) + "int vpsink; void vpfn(void); int main(void) { vpfn(); return 0; }\n")
            rp = (cc1_cmd() + " -cc1-output t.s t.c || exit 0\nas -o t.o t.s && gcc -o drv drv.c t.o || exit 0\n./drv > run.txt || exit 0\n"
                  "python3 c18_position.py X run.txt %d '%s'" % (pid, spec([(info["presfile"], info["pres"])])))
            if line != info["pres"]:
                acc.deviation("C18|%s|run:__LINE__|observed=%s" % (construct(meta, info), M.line_class(line, info)),
                              "[%s] %s: probe vp%d (%s, physical line %d of %s) receives __LINE__ == %d at run time; C11/gcc: %d"
                              % (forest, enc, pid, meta["kind"], info["phys"], info["file"], line, info["pres"]), fs, rp)
            if M.norm(fn) != want[1]:
                acc.deviation("C18|%s|run:__FILE__|observed=%s" % (construct(meta, info) + ("" if info["file"] == "t.c" else "+in-header"),
                                                                   file_class(fn, info)),
                              "[%s] %s: probe vp%d in %s receives __FILE__ == %r at run time; C11/gcc: %r"
                              % (forest, enc, pid, info["file"], fn, info["presfile"]), fs,
                              rp + " | grep -q \"observed ('%s'\" && exit 0; exit 1" % M.norm(info["presfile"]))
    shutil.rmtree(wd, ignore_errors=True)
    return acc.result()


# ---------------------------------------------------------------------------------------------------------------
# family L: operands of #line spelled through macros (judged against the literal-operand twin), headers included repeatedly
def l_positions(exp):
    return [(p, i["pres"], i["presfile"], i["phys"], i["file"]) for p, i in exp]


def twin_lines(r, dirlog):
    """The literal-operand twin of a rendering: the same files, except that every #line whose operands need macro replacement is
    re-spelled with the literal number and file name that the model gives the operands.  None: there is no such directive."""
    first = {}
    for d in dirlog:
        first.setdefault((d["file"], d["line"]), d)
    out = None
    for d in r.ldirs:
        if d["ns"] == "L" and d["fs"] in "-L":
            continue
        name = [nm for nm, l in r.files.items() if l is d["lines"]][0]
        e = first.get((name, d["idx"] + 1))
        if e is None or not e["macro"]:
            raise core.HarnessError("the model did not execute the directive %r of %s" % (d["lines"][d["idx"]], name))
        if out is None:
            out = {nm: list(l) for nm, l in r.files.items()}
        out[name][d["idx"]] = "#line %d" % e["n"] + ("" if e["name"] is None else ' "%s"' % e["name"])
    return out


L_DRV = ("#include <stdio.h>\n" + "".join("void vp%d(int l, char *f) { printf(\"%d %%d %%s\\n\", l, f); }\n" % (i, i) for i in range(1, MAXPROBE + 1)) +
         "int vpsink; void vpfn(void); int main(void) { vpfn(); return 0; }\n")
L_BUILD = ("build() { " + cc1_cmd(LDEFS_SH) + " -cc1-output t.s t.c && as -o t.o t.s && gcc -o drv drv.c t.o && ./drv; }\n")


def l_replay(observable, helper):
    """replay script: observe the rendering in . (-> out.txt) and, if there is one, its literal twin in lit/ (-> lit.txt), then run the helper"""
    if observable == "E":
        cmd = "$CHIBICC -cc1 -E %s -cc1-input t.c t.c" % LDEFS_SH
        return ("%s > out.txt 2>/dev/null || exit 0\nif [ -d lit ]; then (cd lit && %s) > lit.txt 2>/dev/null || exit 0; fi\n%s" % (cmd, cmd, helper))
    return L_BUILD + "build > out.txt || exit 0\nif [ -d lit ]; then (cd lit && build) > lit.txt || exit 0; fi\n" + helper


def l_files(variants, observable, sup):
    fs = {}
    for vn, files, exp in variants:
        for k, v in files.items():
            fs[k if vn == "mac" else "lit/" + k] = v
        if observable == "X":
            pre = "" if vn == "mac" else "lit/"
            fs[pre + "drv.c"] = L_DRV
            fs[pre + PRE_H_NAME] = pre_h().encode()
    fs.update(sup)
    return fs


def judge_L(acc, observable, fs_, enc, r, variants, obs, gcc, sup):
    """obs / gcc: {"mac": [(pid, line, file)], "lit": ...} in translation order (None: no observation)."""
    E = observable == "E"
    ltag, ftag = ("__LINE__", "__FILE__") if E else ("run:__LINE__", "run:__FILE__")
    where = "in -E output" if E else "at run time"
    exp = variants[0][2]
    has_lit = len(variants) > 1
    o_mac, o_lit = obs.get("mac"), obs.get("lit")
    if o_mac is None or (has_lit and o_lit is None):
        return
    pids = [p for p, i in exp]
    for vn, o in (("mac", o_mac), ("lit", o_lit)):
        if o is not None and [x[0] for x in o] != pids:
            acc.deviation("C18|%s|probe-sequence-differs" % ("-E" if E else "run"), "[%s] %s%s: probes %s %s, expected %s"
                          % (fs_, enc, "" if vn == "mac" else " (literal twin)", where, [x[0] for x in o], pids),
                          l_files(variants, observable, sup),
                          l_replay(observable, "python3 -c \"import c18_position as M,sys; got=[p for p,v in M._observations('%s',open('%s').read())]; "
                                               "sys.exit(0 if got==%r else 1)\"" % (observable, "out.txt" if vn == "mac" else "lit.txt", pids)))
            return
    g_mac, g_lit = gcc.get("mac"), gcc.get("lit")
    if g_mac is not None and [x[0] for x in g_mac] != pids:
        g_mac = None
    if g_lit is not None and [x[0] for x in g_lit] != pids:
        g_lit = None
    firstocc, nocc = {}, {}
    files_all = None
    for i, (pid, info) in enumerate(exp):
        meta = r.meta[pid]
        want = (info["pres"], M.norm(info["presfile"]))
        occ = nocc[pid] = nocc.get(pid, 0) + 1
        if g_mac is None or (has_lit and g_lit is None):
            acc.count("unjudged_no_reference")
            continue
        if g_mac[i][1:] != want or (has_lit and g_lit[i][1:] != want):
            acc.count("oracle_disagreements")
            continue
        line, fn = o_mac[i][1], o_mac[i][2]
        acc.count("judged_" + observable)
        acc.kinds.add((construct(meta, info), enc) if E else (construct(meta, info), "run", enc))
        if E and info["pres"] != 1:
            acc.count("nontrivial_E")
        if files_all is None:
            files_all = l_files(variants, observable, sup)
        here = "[%s] %s: probe vp%d (occurrence %d; %s, physical line %d of %s)" % (fs_, enc, pid, occ, meta["kind"], info["phys"], info["file"])
        okspec = spec([(info["presfile"], info["pres"])])
        mode = "E" if E else "X"
        # (1) against the model (C11 / gcc).  Not for the line number after `#line __LINE__`: N and N+1 (this tree's listed convention)
        #     cannot be told from "directive ignored" there
        if info["nbi"]:
            acc.count("line_after_#line___LINE___not_judged_against_model")
        elif line != info["pres"]:
            acc.deviation("C18|%s|%s|observed=%s" % (construct(meta, info), ltag, M.line_class(line, info)),
                          "%s has __LINE__ == %s %s; C11/gcc: %d" % (here, line, where, info["pres"]), files_all,
                          l_replay(observable, "python3 c18_position.py %s out.txt %d@%d '%s'" % (mode, pid, occ, okspec)))
        if fn is None or M.norm(fn) != want[1]:
            acc.deviation("C18|%s|%s|observed=%s" % (construct(meta, info) + ("" if info["file"] == "t.c" else "+in-header"), ftag, file_class(fn, info)),
                          "%s has __FILE__ == %r %s; C11/gcc: %r" % (here, fn, where, info["presfile"]), files_all,
                          l_replay(observable, "python3 c18_position.py %s out.txt %d@%d '%s' | grep -q \"observed ('%s'\" && exit 0; exit 1"
                                   % (mode, pid, occ, okspec, M.norm(info["presfile"]))))
        # (2) against the literal twin: a #line has the same effect however its operands are spelled
        if has_lit and info["dmac"]:
            acc.count("judged_%s_after_macro_operand_#line" % observable)
            tl, tf = o_lit[i][1], o_lit[i][2]
            if info["convdep"]:
                acc.count("skipped_line_convention_dependent")       # `#line __LINE__` while a #line is in force: the twin's number is the C11 one
            elif line != tl:
                cls = "physical-line" if line == info["phys"] else "literal-twin%+d" % (line - tl) if line is not None and tl is not None and abs(line - tl) <= 2 \
                    else "differs-from-literal-twin"
                acc.deviation("C18|after-#line-with-macro-operands|%s|observed=%s" % (ltag, cls),
                              "%s has __LINE__ == %s %s, but %s when the operands of the #line directive before it are written literally"
                              % (here, line, where, tl), files_all,
                              l_replay(observable, "python3 c18_position.py T%s out.txt lit.txt %d@%d line" % (mode, pid, occ)))
            if (None if fn is None else M.norm(fn)) != (None if tf is None else M.norm(tf)):
                fc = file_class(fn, info)
                acc.deviation("C18|after-#line-with-macro-operands|%s|observed=%s" % (ftag, fc if fc != "expected-file" else "differs-from-literal-twin"),
                              "%s has __FILE__ == %r %s, but %r when the operands of the #line directive before it are written literally"
                              % (here, fn, where, tf), files_all,
                              l_replay(observable, "python3 c18_position.py T%s out.txt lit.txt %d@%d file" % (mode, pid, occ)))
        # (3) against the first inclusion: every inclusion of a header reports the same positions
        if pid in firstocc:
            j = firstocc[pid]
            if l_positions([exp[j]]) != l_positions([exp[i]]):
                acc.count("skipped_inclusions_differ_in_the_model")
            else:
                acc.count("judged_%s_repeated_inclusion" % observable)
                if info["directive"]:
                    acc.count("judged_%s_repeated_inclusion_after_#line" % observable)
                if line != o_mac[j][1]:
                    acc.deviation("C18|repeated-inclusion|%s|observed=differs-from-first-inclusion" % ltag,
                                  "%s has __LINE__ == %s %s, but %s in the first inclusion of %s" % (here, line, where, o_mac[j][1], info["file"]), files_all,
                                  l_replay(observable, "python3 c18_position.py Q%s out.txt %d line" % (mode, pid)))
                if (None if fn is None else M.norm(fn)) != (None if o_mac[j][2] is None else M.norm(o_mac[j][2])):
                    acc.deviation("C18|repeated-inclusion|%s|observed=differs-from-first-inclusion" % ftag,
                                  "%s has __FILE__ == %r %s, but %r in the first inclusion of %s" % (here, fn, where, o_mac[j][2], info["file"]), files_all,
                                  l_replay(observable, "python3 c18_position.py Q%s out.txt %d file" % (mode, pid)))
        else:
            firstocc[pid] = i


def _shard_L(args):
    chibicc, wd, sidx, cases, encs, observable = args
    acc = Acc()
    sup = support_files()
    os.makedirs(wd, exist_ok=True)
    prepared, gcc_entries = [], []
    for ci, case in enumerate(cases):
        n, forest, var = unpack(case)
        r = render(forest, "E")
        for enc in encs:
            dname = "c%d_%s_" % (ci, enc.replace("+", ""))

            def enc_files(lines_of, vn):
                # gcc takes two `#pragma once` files with the same size and content for one file, and all cases of a shard are preprocessed by
                # one gcc run: a comment makes every such header unique (written before the model reads the bytes)
                return {name: encode([l + " /* %s%s */" % (dname, vn) if l == "#pragma once" else l for l in lines], enc)
                        for name, lines in lines_of.items()}
            files = enc_files(r.files, "mac")
            exp, dirlog = M.expected_ex(files, predef=LPREDEF)
            if set(p for p, i in exp) != set(range(1, r.npid + 1)):
                raise core.HarnessError("model lost a probe: %s" % fstr(forest))
            variants = [("mac", files, exp)]
            tl = twin_lines(r, dirlog)
            if tl is not None:
                tf = enc_files(tl, "lit")
                texp = M.expected_ex(tf, predef=LPREDEF)[0]
                if l_positions(texp) != l_positions(exp):
                    raise core.HarnessError("the literal twin is not equivalent in the model: %s" % fstr(forest))
                variants.append(("lit", tf, texp))
            dirs = {}
            for vn, fs, e in variants:
                d = dname + vn
                if observable == "X":
                    fs = dict(fs); fs[PRE_H_NAME] = pre_h().encode()
                write_files(os.path.join(wd, d), fs)
                gcc_entries.append(((ci, enc, vn), d))
                dirs[vn] = d
            prepared.append((ci, enc, r, variants, dirs))
    gcc = gcc_E(wd, gcc_entries, defs=LDEFS, aslist=True, undef=["VPG%d" % j for j in range(1, LKMAX + 1)]) if gcc_entries else {}
    if gcc is None:
        acc.count("ref_rejected", len(gcc_entries))
        gcc = {}
    obs = {}
    units = []
    for ci, enc, r, variants, dirs in prepared:
        fs_ = fstr(unpack(cases[ci])[1])
        for vn, files, exp in variants:
            cd = os.path.join(wd, dirs[vn])
            twin = "" if vn == "mac" else " (literal twin)"
            if observable == "E":
                st, out, err = core.run_limited([chibicc, "-cc1", "-E"] + LDEFS + ["-cc1-input", "t.c", "t.c"], cwd=cd, timeout=120)
                acc.count("runs_E")
            else:
                fnname = "vpf%d" % len(units)
                st, out, err = core.run_limited(compile_args(chibicc, "t.s", r, fnname), cwd=cd, timeout=120)
                acc.count("runs_X")
            if st == "timeout":
                acc.count("timeouts"); continue
            if st != 0:
                sub = {k: v for k, v in files.items()}
                if observable == "E":
                    acc.deviation("C18|-E|valid-file-%s" % ("killed" if isinstance(st, int) and st < 0 else "rejected"),
                                  "[%s] %s%s: -E fails (status %s): %s" % (fs_, enc, twin, st, err.strip().splitlines()[:1]), sub,
                                  "$CHIBICC -cc1 -E %s -cc1-input t.c t.c >/dev/null 2>&1 && exit 0; exit 1" % LDEFS_SH)
                else:
                    sub[PRE_H_NAME] = pre_h().encode()
                    acc.deviation("C18|-S|valid-file-%s" % ("killed" if isinstance(st, int) and st < 0 else "rejected"),
                                  "[%s] %s%s: compilation fails (status %s): %s" % (fs_, enc, twin, st, err.strip().splitlines()[:1]), sub,
                                  cc1_cmd(r=r) + " -cc1-output t.s t.c >/dev/null 2>&1 && exit 0; exit 1")
                continue
            if observable == "E":
                obs[(ci, enc, vn)] = [(p_, l_, M.norm(f_, cd) if f_ is not None else None) for p_, l_, f_ in M.observe_E(pplex.lex(out))]
            else:
                st, out, err = core.run_limited(["as", "-o", os.path.join(wd, fnname + ".o"), "t.s"], cwd=cd, timeout=300)
                if st != 0:
                    acc.count("as_failed"); continue
                units.append((fnname, (ci, enc, vn), cd))
    if observable == "X" and units:
        drv = ["#include <stdio.h>", "static int cur;"]
        drv += ["void vp%d(int l, char *f) { printf(\"%%d %d %%d %%s\\n\", cur, l, f); }" % (i, i) for i in range(1, MAXPROBE + 1)]
        drv += ["int vpsink;"] + ["void %s(void);" % u[0] for u in units]
        drv += ["int main(void) {"] + ["  cur = %d; %s();" % (k, u[0]) for k, u in enumerate(units)] + ["  return 0; }"]
        with open(os.path.join(wd, "drv.c"), "w") as f:
            f.write("\n".join(drv) + "\n")
        st, out, err = core.run_limited(["gcc", "-O0", "-o", "drv", "drv.c"] + [u[0] + ".o" for u in units], cwd=wd, timeout=900)
        if st != 0:
            raise core.HarnessError("C18 exec driver does not link: %s" % err[-800:])
        st, out, err = core.run_limited([os.path.join(wd, "drv")], cwd=wd, timeout=300)
        if st == "timeout":
            acc.count("timeouts"); units = []
        elif st != 0:
            raise core.HarnessError("C18 exec driver failed: %s %s" % (st, err[-300:]))
        for k, u in enumerate(units):
            obs[u[1]] = []
        for l in out.splitlines() if units else []:
            w = l.split(" ", 3)
            u = units[int(w[0])]
            obs[u[1]].append((int(w[1]), int(w[2]), M.norm(w[3], u[2])))
    for ci, enc, r, variants, dirs in prepared:
        judge_L(acc, observable, fstr(unpack(cases[ci])[1]), enc, r, variants,
                {vn: obs.get((ci, enc, vn)) for vn, _, _ in variants}, {vn: gcc.get((ci, enc, vn)) for vn, _, _ in variants}, sup)
    shutil.rmtree(wd, ignore_errors=True)
    return acc.result()


def l_cases(nmin, nmax, alphabet, modes=(), want="macro"):
    """family L forests: want = "macro": at least one #line with macro operands and no repeated inclusion; "rep": a repeated inclusion"""
    out = []
    for n in range(nmin, nmax + 1):
        for f in lforests(n, 2, -1, tuple(alphabet), tuple(modes)):
            if (want == "rep" and has_rep(f)) or (want == "macro" and has_macro_directive(f) and not has_rep(f)):
                out.append((n, f))
    return out


# ---------------------------------------------------------------------------------------------------------------
def cases_upto(nmax, alphabet=None, nmin=1):
    alpha = tuple(alphabet or LEAVES)
    out = []
    for n in range(nmin, nmax + 1):
        out += [(n, f) for f in forests(n, 2, -1, alpha)]
    return out


def family_cases(nmin, nmax, family, variants=(None,)):
    """family U: UALPHA, every forest in every (column, UCN spelling) variant given; family M: MALPHA with "arg" nodes"""
    out = []
    for n in range(nmin, nmax + 1):
        if family == "U":
            fs = forests(n, 2, -1, tuple(UALPHA))
        else:
            fs = forests(n, 2, -1, tuple(MALPHA), tuple(MARG), 2, M_HDR_MAX_LINES)
        for f in fs:
            for v in variants:
                out.append((n, f, v) if v else (n, f))
    return out


def merge(ctx, results, totals, kinds):
    for n, dev, ks in results:
        for k, v in n.items():
            totals[k] = totals.get(k, 0) + v
        kinds.update(tuple(k) for k in ks)
        for sig in dev:
            cnt, desc, files, replay = dev[sig]
            for _ in range(cnt):
                ctx.violation(sig, desc, files=files, replay=replay)


def run(ctx):
    thorough = ctx.tier == "thorough"
    totals, kinds = {}, set()
    bounds_done = []
    all4 = ["lf", "crlf", "lf+bom", "crlf+bom"]
    all5 = all4 + ["lf-noeof"]
    all6 = all5 + ["mixed"]
    nfiles = [0]

    timing = []

    def phase(name, fn, cases, chunk, mkargs):
        """One bound = one pmap over shards, cut into groups so that the global deadline is honoured between groups."""
        t0 = time.time()
        try:
            return phase_(name, fn, cases, chunk, mkargs)
        finally:
            timing.append("%6.1fs %s" % (time.time() - t0, name))

    def phase_(name, fn, cases, chunk, mkargs):
        shards = core.chunks(cases, chunk)
        args = [mkargs(os.path.join(ctx.work, "%s_%d" % (re.sub(r"\W", "", name), i)), i, s) for i, s in enumerate(shards)]
        group = core.NPROC * 3
        for g in range(0, len(args), group):
            if ctx.out_of_time(reserve=45):
                ctx.incomplete("bound %s: %d of %d shards done when the deadline was reached" % (name, g, len(args)))
                return False
            merge(ctx, core.pmap(fn, args[g:g + group]), totals, kinds)
        bounds_done.append("%s (%d forests)" % (name, len(cases)))
        nfiles[0] += len(cases)
        return True

    full3 = cases_upto(3)
    upto2 = [c for c in full3 if c[0] <= 2]
    only3 = [c for c in full3 if c[0] == 3]
    # ---- E: __LINE__/__FILE__ in -E output ----
    phase("E n<=3 x {lf,crlf}x{bom,-},lf-noeof%s" % (",mixed" if thorough else ""), _shard_E, full3, 60,
          lambda wd, i, s: (ctx.chibicc, wd, i, s, all6 if thorough else all5, [], 3, ("lf",)))
    if thorough:
        phase("E n=4 x {lf,crlf+bom,lf-noeof}", _shard_E, cases_upto(4, nmin=4), 120,
              lambda wd, i, s: (ctx.chibicc, wd, i, s, [], ["lf", "crlf+bom", "lf-noeof"], 0, ("lf",)))
        phase("E n=5 MID alphabet x lf", _shard_E, cases_upto(5, MID, nmin=5), 150,
              lambda wd, i, s: (ctx.chibicc, wd, i, s, [], ["lf"], 0, ("lf",)))
        phase("E n=6 REDUCED alphabet x lf", _shard_E, cases_upto(6, REDUCED, nmin=6), 150,
              lambda wd, i, s: (ctx.chibicc, wd, i, s, [], ["lf"], 0, ("lf",)))
    else:
        phase("E n=4 x lf", _shard_E, cases_upto(4, nmin=4), 120,
              lambda wd, i, s: (ctx.chibicc, wd, i, s, [], ["lf"], 0, ("lf",)))
    # ---- D: diagnostics ----
    phase("D n<=2 x all encodings x {lex,pp,parse}", _shard_D, upto2, 6,
          lambda wd, i, s: (ctx.chibicc, wd, i, s, all6 if thorough else all5, [], 2, ERRKINDS, ERRKINDS))
    if thorough:
        phase("D n=3 x lf x {lex,pp,parse}", _shard_D, only3, 24,
              lambda wd, i, s: (ctx.chibicc, wd, i, s, [], ["lf"], 0, ERRKINDS, ERRKINDS))
    # ---- S: .loc / .file ----
    phase("S n<=2 x all encodings", _shard_S, upto2, 12, lambda wd, i, s: (ctx.chibicc, wd, i, s, all6 if thorough else all5))
    phase("S n=3 x %s" % ("{lf,crlf}x{bom,-}" if thorough else "lf"), _shard_S, only3, 100,
          lambda wd, i, s: (ctx.chibicc, wd, i, s, all4 if thorough else ["lf"]))
    # ---- X: compiled and executed ----
    phase("X n<=2 x %s" % ("all encodings" if thorough else "{lf,crlf+bom}"), _shard_X, upto2, 14,
          lambda wd, i, s: (ctx.chibicc, wd, i, s, all6 if thorough else ["lf", "crlf+bom"]))
    if thorough:
        phase("X n=3 x lf", _shard_X, only3, 100, lambda wd, i, s: (ctx.chibicc, wd, i, s, ["lf"]))

    # =========== family U: universal character names x backslash-newline x column of the continuation line ===========
    lfcrlf = ["lf", "crlf"]
    u12_all = family_cases(1, 2, "U", VARIANTS_ALL)
    u12_paired = family_cases(1, 2, "U", VARIANTS_PAIRED)
    u12_3 = family_cases(1, 2, "U", VARIANTS_3)
    u3_paired = family_cases(3, 3, "U", VARIANTS_PAIRED)
    phase("U: E n<=2 x 5 columns x 4 UCN spellings x %s" % ("{lf,crlf}" if thorough else "lf"), _shard_E, u12_all, 80,
          lambda wd, i, s: (ctx.chibicc, wd, i, s, lfcrlf if thorough else ["lf"], [], 2, ("lf",)))
    if not thorough:
        phase("U: E n<=2 x 5 (column, UCN) pairs x crlf", _shard_E, u12_paired, 80,
              lambda wd, i, s: (ctx.chibicc, wd, i, s, ["crlf"], [], 2, ("lf",)))
    if thorough:
        phase("U: E n=3 x 5 columns x 4 UCN spellings x {lf,crlf+bom}", _shard_E, family_cases(3, 3, "U", VARIANTS_ALL), 120,
              lambda wd, i, s: (ctx.chibicc, wd, i, s, [], ["lf", "crlf+bom"], 0, ("lf",)))
        phase("U: E n=4 x (column, UCN) in {(0,u2),(2,U4)} x lf", _shard_E, family_cases(4, 4, "U", [(0, "u2"), (2, "U4")]), 150,
              lambda wd, i, s: (ctx.chibicc, wd, i, s, [], ["lf"], 0, ("lf",)))
    else:
        phase("U: E n=3 x 3 (column, UCN) pairs x lf", _shard_E, family_cases(3, 3, "U", VARIANTS_3), 120,
              lambda wd, i, s: (ctx.chibicc, wd, i, s, [], ["lf"], 0, ("lf",)))
    phase("U: D n<=2 x %d (column, UCN) pairs x lf x {lex,parse}" % (5 if thorough else 3), _shard_D, u12_paired if thorough else u12_3, 8,
          lambda wd, i, s: (ctx.chibicc, wd, i, s, ["lf"], [], 2, ("lex", "parse"), ()))
    phase("U: S n<=2 x 5 (column, UCN) pairs x lf", _shard_S, u12_paired, 20, lambda wd, i, s: (ctx.chibicc, wd, i, s, ["lf"]))
    phase("U: X n<=2 x (column 0, UCN U4) x lf", _shard_X, family_cases(1, 2, "U", [(0, "U4")]), 14,
          lambda wd, i, s: (ctx.chibicc, wd, i, s, ["lf"]))
    if thorough:
        phase("U: D n=3 x (column 0, UCN U4) x lf x {lex,parse}", _shard_D, family_cases(3, 3, "U", [(0, "U4")]), 24,
              lambda wd, i, s: (ctx.chibicc, wd, i, s, [], ["lf"], 0, (), ("lex", "parse")))
        phase("U: S n=3 x 5 (column, UCN) pairs x lf", _shard_S, u3_paired, 100, lambda wd, i, s: (ctx.chibicc, wd, i, s, ["lf"]))
        phase("U: X n=3 x (column 0, UCN U4) x lf", _shard_X, family_cases(3, 3, "U", [(0, "U4")]), 100,
              lambda wd, i, s: (ctx.chibicc, wd, i, s, ["lf"]))
    # =========== family M: __LINE__/__FILE__ in replacement lists, invocations over 1-4 lines, nested ===========
    phase("M: E n<=2 x {lf,crlf,crlf+bom}", _shard_E, family_cases(1, 2, "M"), 40,
          lambda wd, i, s: (ctx.chibicc, wd, i, s, ["lf", "crlf", "crlf+bom"], [], 2, ("lf",)))
    phase("M: E n=3 x lf", _shard_E, family_cases(3, 3, "M"), 100, lambda wd, i, s: (ctx.chibicc, wd, i, s, [], ["lf"], 0, ("lf",)))
    phase("M: X n<=2 x lf", _shard_X, family_cases(1, 2, "M"), 10, lambda wd, i, s: (ctx.chibicc, wd, i, s, ["lf"]))
    if thorough:
        phase("M: E n=4 x lf", _shard_E, family_cases(4, 4, "M"), 150, lambda wd, i, s: (ctx.chibicc, wd, i, s, [], ["lf"], 0, ("lf",)))
        phase("M: X n=3 x lf", _shard_X, family_cases(3, 3, "M"), 100, lambda wd, i, s: (ctx.chibicc, wd, i, s, ["lf"]))
    # =========== family Z: long files, structural bytes on and around the multiples of I/O buffer sizes ===========
    zencs = ["lf", "crlf", "lf+bom", "crlf+bom"] if thorough else lfcrlf
    zcomb = [(9, z) for z in zspecs(("comb",), zencs, ("main", "header"), ())]
    zsingle = [(9, z) for z in zspecs(("single",), zencs, ("main", "header"), (1, 2, 3) if thorough else (1,))]
    phase("Z: E comb (every multiple of %d up to %d) x features x shifts x {%s} x {main,header}" % (ZPERIOD, ZTOTAL, ",".join(zencs)),
          _shard_E, zcomb, 2, lambda wd, i, s: (ctx.chibicc, wd, i, s, [], [], 0, ()))
    phase("Z: E single (B in %s, k in %s) x features x shifts x {%s} x {main,header}" % (list(ZSIZES), "{1,2,3}" if thorough else "{1}", ",".join(zencs)),
          _shard_E, zsingle, 8, lambda wd, i, s: (ctx.chibicc, wd, i, s, [], [], 0, ()))
    phase("Z: D comb x {lex,parse} at the probes around %s" % list(ZDIAG_AT), _shard_D, zcomb, 1,
          lambda wd, i, s: (ctx.chibicc, wd, i, s, [], [], 0, (), ("lex", "parse")))
    if thorough:
        phase("Z: D single x {lex,parse}", _shard_D, zsingle, 6, lambda wd, i, s: (ctx.chibicc, wd, i, s, [], [], 0, (), ("lex", "parse")))
    phase("Z: S comb", _shard_S, zcomb, 2, lambda wd, i, s: (ctx.chibicc, wd, i, s, []))
    phase("Z: X comb%s" % ("" if thorough else " (in the main file)"), _shard_X, [c for c in zcomb if thorough or c[1][5] == "main"], 2,
          lambda wd, i, s: (ctx.chibicc, wd, i, s, []))
    # =========== family L: operands of #line spelled through macros; headers with #line inside included repeatedly ===========
    lmac12 = l_cases(1, 2, LALPHA)
    lmac3 = l_cases(3, 3, LALPHA if thorough else LRED)
    phase("L: E n<=2 x full operand alphabet (5 number x 6 file sources) x %s" % ("{lf,crlf}x{bom,-}" if thorough else "{lf,crlf+bom}"), _shard_L, lmac12, 40,
          lambda wd, i, s: (ctx.chibicc, wd, i, s, all4 if thorough else ["lf", "crlf+bom"], "E"))
    phase("L: E n=3 x %s x lf" % ("full operand alphabet" if thorough else "reduced operand alphabet LRED"), _shard_L, lmac3, 100,
          lambda wd, i, s: (ctx.chibicc, wd, i, s, ["lf"], "E"))
    if thorough:
        phase("L: E n=4 x operand alphabet LRED4 x lf", _shard_L, l_cases(4, 4, LRED4), 150, lambda wd, i, s: (ctx.chibicc, wd, i, s, ["lf"], "E"))
    lx = lmac12 if thorough else l_cases(1, 1, LALPHA) + l_cases(2, 2, LRED)
    phase("L: X %s x lf" % ("n<=2 x full operand alphabet" if thorough else "n=1 x full operand alphabet, n=2 x LRED"), _shard_L, lx, 16,
          lambda wd, i, s: (ctx.chibicc, wd, i, s, ["lf"], "X"))
    ls = lmac12 if thorough else l_cases(1, 2, LRED)
    phase("L: S n<=2 x %s x lf" % ("full operand alphabet" if thorough else "LRED"), _shard_S, ls, 20, lambda wd, i, s: (ctx.chibicc, wd, i, s, ["lf"]))
    phase("L: D n<=%d x lf x {lex,parse}" % (2 if thorough else 1), _shard_D, l_cases(1, 2 if thorough else 1, LALPHA if not thorough else LRED), 8,
          lambda wd, i, s: (ctx.chibicc, wd, i, s, ["lf"], [], 2, ("lex", "parse"), ()))
    rep12 = l_cases(1, 2, RALPHA, RMODES, "rep")
    rmodes3 = RMODES if thorough else RMODES_Q3
    rep3 = l_cases(3, 3, RALPHA, rmodes3, "rep")
    phase("R: E n<=2 x %d inclusion modes x %s" % (len(RMODES), "{lf,crlf}x{bom,-}" if thorough else "{lf,crlf+bom}"), _shard_L, rep12, 10,
          lambda wd, i, s: (ctx.chibicc, wd, i, s, all4 if thorough else ["lf", "crlf+bom"], "E"))
    phase("R: E n=3 x %d inclusion modes x lf" % len(rmodes3), _shard_L, rep3, 60, lambda wd, i, s: (ctx.chibicc, wd, i, s, ["lf"], "E"))
    if thorough:
        phase("R: E n=4 x %d inclusion modes x lf" % len(RMODES_RED), _shard_L, l_cases(4, 4, RALPHA, RMODES_RED, "rep"), 120,
              lambda wd, i, s: (ctx.chibicc, wd, i, s, ["lf"], "E"))
    else:
        phase("R: E n=4 x alphabet RALPHA3 x %d inclusion modes x lf" % len(RMODES_Q4), _shard_L, l_cases(4, 4, RALPHA3, RMODES_Q4, "rep"), 60,
              lambda wd, i, s: (ctx.chibicc, wd, i, s, ["lf"], "E"))
    phase("R: X n<=2 x %d inclusion modes, n=3 x %d inclusion modes x lf" % (len(RMODES), len(RMODES if thorough else RMODES_Q4)), _shard_L,
          rep12 + (rep3 if thorough else l_cases(3, 3, RALPHA, RMODES_Q4, "rep")), 16 if not thorough else 60,
          lambda wd, i, s: (ctx.chibicc, wd, i, s, ["lf"], "X"))
    phase("R: S n<=%d x lf" % (3 if thorough else 2), _shard_S, rep12 + (rep3 if thorough else []), 10 if not thorough else 60,
          lambda wd, i, s: (ctx.chibicc, wd, i, s, ["lf"]))
    rkinds = ("lex", "parse") if thorough else ("parse",)
    phase("R: D n<=2 x lf x {%s}" % ",".join(rkinds), _shard_D, rep12, 4, lambda wd, i, s: (ctx.chibicc, wd, i, s, ["lf"], [], 2, rkinds, ()))
    if os.environ.get("VERIF_C18_TIMING"):
        sys.stderr.write("\n".join(timing) + "\n")

    judged = sum(totals.get(k, 0) for k in ("judged_E", "judged_D", "judged_S", "judged_X"))
    nontriv = sum(totals.get(k, 0) for k in ("nontrivial_E", "nontrivial_D", "nontrivial_S")) + totals.get("judged_X", 0)
    ctx.cover(evaluations=judged, distinct_nontrivial=nontriv, forests_enumerated=nfiles[0], bounds_completed=bounds_done,
              alphabet_main=LEAVES, alphabet_ucn_splice_family=UALPHA + ["inc[...]"],
              ucn_spellings=sorted(UCNS.values()), continuation_columns=list(COLS),
              alphabet_macro_body_family=MALPHA + ["inc[...]", "arg[...] over " + " ".join(MARG)],
              size_family={"buffer_sizes": list(ZSIZES), "comb_period": ZPERIOD, "comb_file_bytes": ZTOTAL, "shifts": list(ZSHIFTS),
                           "utf8_second_byte_shifts": list(ZU8SHIFTS), "features": {k: list(v) for k, v in ZFEATURES.items()},
                           "placements": ["main file", "included header"]},
              line_operand_family={"number_operand_sources": LNUMSRC, "file_operand_sources": LFILESRC, "alphabet": LALPHA + ["inc[...]"],
                                   "reduced_alphabets": {"LRED": LRED, "LRED4": LRED4},
                                   "judged_by": "equality with the literal-operand twin of the same file set + the model where unambiguous"},
              repeated_inclusion_family={"modes": ["%s:%s" % m for m in RMODES], "modes_quick_n3": ["%s:%s" % m for m in RMODES_Q3],
                                         "modes_quick_n4": ["%s:%s" % m for m in RMODES_Q4], "modes_thorough_n4": ["%s:%s" % m for m in RMODES_RED],
                                         "alphabet": RALPHA + ["inc[...]", "rep:<mode>[...]"], "alphabet_n4_quick": RALPHA3,
                                         "judged_by": "every occurrence of a probe == its first occurrence, + the model, + the literal twin"},
              construct_observable_encoding_classes=len(kinds),
              skipped_undefined=totals.get("skipped_unspecified", 0), oracle_disagreements=totals.get("oracle_disagreements", 0),
              rule="case = (forest of line items, encoding, observable, probe); evaluations = probes judged (observed position compared with "
                   "the model, for __LINE__/__FILE__ only where gcc -E agrees with the model); non-trivial = the probe's expected line is not 1 "
                   "(E, D, S) or the value went through code generation and execution (X).  Families: MAIN (line items x encodings), "
                   "U (universal character names in identifier/string/character constant/comments before, between and after backslash-newlines; "
                   "continuation text at columns 0,1,2,4,8; splice inside the probe), M (__LINE__/__FILE__ in replacement lists of object-like and "
                   "function-like macros, invocations over 1-4 lines, nested in arguments to depth 2 and through replacement lists), "
                   "Z (files and included headers up to 2*65536+1024 bytes with CR / LF / backslash / middle of a splice / middle of a UTF-8 "
                   "character at k*B-1, k*B, k*B+1 for every multiple of B in {512,1024,4096,8192,65536}, LF and CRLF), "
                   "L (#line whose number / file operand is a literal, an object-like macro from the same file / an included header / the command "
                   "line, or __LINE__ / __FILE__: 5 x 6 spellings; each file set also rendered as its literal-operand twin and chibicc compared "
                   "with itself on the two), R (headers containing #line at every position included 2-3 times by the same file or through "
                   "wrapper headers, without guard / with #ifndef guard / with #pragma once: every inclusion must report the positions of the first)",
              **{k: v for k, v in totals.items() if k not in ("skipped_unspecified", "oracle_disagreements")})
    if ctx.exhaustive:
        if totals.get("judged_E", 0) < 5000 or totals.get("judged_D", 0) < 2000 or totals.get("judged_S", 0) < 2000 or totals.get("judged_X", 0) < 500:
            raise core.HarnessError("vacuous: %r" % totals)
        need = {"code", "block-comment", "spliced-head", "spliced-line", "macro-args", "after-macro", "macro-body", "after-#line", "spliced-line+after-#line",
                "spliced-line+after-ucn", "spliced-probe+after-ucn", "token-before-splice+after-ucn", "spliced-probe", "token-before-splice",
                "long-file", "long-file-spliced-line"}
        for k, least in (("judged_E_splice_after_ucn", 5000), ("judged_D_splice_after_ucn", 300), ("judged_S_splice_after_ucn", 200),
                         ("judged_X_splice_after_ucn", 50), ("judged_E_body_of_multiline_invocation", 1500),
                         ("judged_X_body_of_multiline_invocation", 80), ("judged_E_long_file", 20000), ("judged_D_long_file", 800),
                         ("judged_S_long_file", 20000), ("judged_X_long_file", 10000),
                         ("judged_E_after_macro_operand_#line", 8000), ("judged_X_after_macro_operand_#line", 300),
                         ("judged_E_repeated_inclusion", 4000), ("judged_E_repeated_inclusion_after_#line", 2000),
                         ("judged_X_repeated_inclusion", 500)):
            if totals.get(k, 0) < least:
                raise core.HarnessError("vacuous: %s = %d (< %d)" % (k, totals.get(k, 0), least))
        seen = set(k[0] for k in kinds)
        if need - seen:
            raise core.HarnessError("constructs never judged: %s" % sorted(need - seen))
    if totals.get("oracle_disagreements", 0) * 50 > max(judged, 1):
        raise core.HarnessError("model and gcc disagree on %d probes outside the unspecified class" % totals["oracle_disagreements"])
    if totals.get("unmodelled_S", 0) > totals.get("judged_S", 0):
        raise core.HarnessError("the .loc observer does not find the probe statements any more (%r)" % totals)
    for f in (full3[150], full3[len(full3) // 2], full3[-1]):
        r = render(f[1], "E")
        ctx.sample({"forest": fstr(f[1]), "files": {k: "\n".join(v) for k, v in r.files.items()},
                    "expected": [(p, i["presfile"], i["pres"]) for p, i in M.expected(encode_all(r, "lf"))]})
    for case in (family_cases(2, 2, "U", [(2, "U4")])[137], family_cases(3, 3, "M")[-40]):
        n, f, v = unpack(case)
        r = render(f, "E", var=v)
        ctx.sample({"forest": fstr(f, v), "files": {k: "\n".join(x) for k, x in r.files.items()},
                    "expected": [(p, i["presfile"], i["pres"]) for p, i in M.expected(encode_all(r, "lf"))]})
    for f in (("dL-", "dHB", "sp2"), (("rep", ("code", "dBL"), ("dw", "none")), "dLL")):
        r = render(f, "E")
        e, dl = M.expected_ex(encode_all(r, "lf"), predef=LPREDEF)
        tw = twin_lines(r, dl)
        ctx.sample({"forest": fstr(f), "command_line": LDEFS, "files": {k: "\n".join(v) for k, v in r.files.items()},
                    "literal_twin_differs_in": {k: [l for l, m in zip(v, r.files[k]) if l != m] for k, v in (tw or {}).items() if v != r.files[k]},
                    "expected": [(p, i["presfile"], i["pres"]) for p, i in e]})
    zs = ("Z", "single", "cr", -1, "crlf", "header", 4096, 1)
    zr = render(zs, "E")
    ctx.sample({"long_file": fstr(zs), "sizes": {k: len(x) for k, x in zr.raw.items()}, "bytes_4094_4098_of_h1.h": repr(zr.raw["h1.h"][4094:4098]),
                "probes": zr.npid})
    ctx.assume("universal character names below U+00A0 and lone surrogates are not generated (invalid in C11); trigraph-like sequences are not "
               "generated (neither compiler replaces them by default)")
    ctx.assume("__LINE__ in a replacement list is judged only where the model (line of the macro name of the outermost invocation written in a "
               "source file) and gcc -E agree; diagnostics and .loc records of tokens from replacement lists are not judged")
    ctx.assume("directives are not generated inside macro arguments (undefined, C11 6.10.3p11)")
    ctx.assume("`# N \"f\"` (GNU linemarker form) is generated with literal operands only: gcc does not macro-replace it and C11 6.10p1 leaves "
               "`# non-directive` undefined; function-like macros and # / ## are not used in #line operands")
    ctx.assume("the line number after `#line __LINE__` is not judged against the model (N, N+1 and an ignored directive coincide), and not against "
               "the literal twin when another #line is in force at the directive (the operand then carries that directive's N+1); __FILE__ is judged")
    ctx.assume("lone CR line ends are not generated (the property promises LF and CR LF only)")
    ctx.assume("__LINE__ inside the arguments of a multi-line macro invocation is judged only where the model (own physical line) and gcc -E agree")
    ctx.assume("diagnostics and .loc records may use either the physical or the presumed (file, line) pair; wording of diagnostics is not read")
    ctx.assume(".loc records of tokens that come from macro bodies are not judged (the property does not say whether they denote the definition or the expansion)")
