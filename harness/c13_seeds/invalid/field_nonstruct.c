int a[2] = {.x = 1};
