/* C04 driver support: reference dictionaries and observation callbacks.  Compiled by gcc together with generated
 * tables; the unit under test is compiled by chibicc only.  Nothing here knows chibicc's layout: bit sets of fields
 * and byte sets of members are discovered differentially on chibicc's own objects and then held to the dictionary rules.
 * Output protocol:  V <case> <deviation-class> <detail>   |  J <case> <judged evals>  |  S evals=N skipped=M
 */
#include <stdio.h>
#include <string.h>
#include <stdint.h>
#include <stdlib.h>
#include <stdarg.h>
#include <alloca.h>
#include <signal.h>
#include <setjmp.h>
#include <unistd.h>

typedef unsigned long u64;
typedef long i64;
typedef unsigned char u8;

static long n_evals, n_skipped, case_evals;
static int cur_case = -1;
static char seen_dev[24][64];
static int n_seen;

static void viol(const char *dev, const char *fmt, ...) {
  for (int i = 0; i < n_seen; i++)
    if (!strcmp(seen_dev[i], dev)) return;
  if (n_seen < 24) { strncpy(seen_dev[n_seen], dev, 63); seen_dev[n_seen][63] = 0; n_seen++; }
  printf("V %d %s ", cur_case, dev);
  va_list ap; va_start(ap, fmt); vprintf(fmt, ap); va_end(ap);
  printf("\n");
}
static void begin_case(int i) { cur_case = i; n_seen = 0; case_evals = 0; }
static void end_case(void) { printf("J %d %ld\n", cur_case, case_evals); fflush(stdout); }
#define EVAL() (n_evals++, case_evals++)

static sigjmp_buf trap_env; static volatile int trap_armed;
static void on_sig(int sig) { if (trap_armed) siglongjmp(trap_env, sig); _exit(70); }
static void install_traps(void) {
  static char altstack[65536];
  stack_t ss = { .ss_sp = altstack, .ss_size = sizeof altstack, .ss_flags = 0 };
  sigaltstack(&ss, 0);
  struct sigaction sa; memset(&sa, 0, sizeof sa); sa.sa_handler = on_sig; sa.sa_flags = SA_ONSTACK | SA_NODEFER;
  sigaction(SIGSEGV, &sa, 0); sigaction(SIGBUS, &sa, 0); sigaction(SIGILL, &sa, 0); sigaction(SIGFPE, &sa, 0);
}
/* run one case body under a trap: a signal inside chibicc-compiled code is an observation, not a harness crash */
#define GUARDED(body) do { int sg_; if ((sg_ = sigsetjmp(trap_env, 1)) == 0) { trap_armed = 1; body; trap_armed = 0; } \
                           else { trap_armed = 0; if (sg_ != ABANDON) viol("signal", "sig=%d", sg_); } } while (0)
/* leave the current case after an observation that makes going on meaningless or dangerous for the driver itself (an object
   that does not have the bytes it should have must not be filled with a pattern); the observation has been reported */
#define ABANDON 99
static void abandon_case(void) { if (trap_armed) siglongjmp(trap_env, ABANDON); }

static int popcnt(const u8 *p, int n) { int c = 0; for (int i = 0; i < n; i++) c += __builtin_popcount(p[i]); return c; }
static void hexs(char *out, const u8 *p, int n) { for (int i = 0; i < n && i < 40; i++) sprintf(out + 2 * i, "%02x", p[i]); }

/* ------------------------------------------------------------------ (a) bit-fields */
enum { K_UNS = 0, K_SGN = 1, K_BOOL = 2, K_NONE = -1 };
enum { OP_GETF, OP_GETPRE, OP_GETPOST, OP_SET, OP_ADD, OP_SUB, OP_OR, OP_AND, OP_XOR, OP_SHL, OP_SHR, OP_PREINC, OP_POSTINC,
       OP_PREDEC, OP_POSTDEC, OP_SETPRE, OP_SETPOST, OP_G0, OP_G1, OP_S, OP_SSZ, OP_OSZ };
typedef long (*acc_t)(void *, int, u64);
typedef struct { int kind, w, pk, pw, qk, qw; } BfRow;

static u64 fconv(int kind, int w, u64 x) {
  if (kind == K_BOOL) return x != 0;
  if (w >= 64) return x;
  u64 m = (1UL << w) - 1;
  x &= m;
  if (kind == K_SGN && (x >> (w - 1)) & 1) x |= ~m;
  return x;
}
static u64 fmax_(int kind, int w) { return kind == K_BOOL ? 1 : kind == K_UNS ? fconv(K_UNS, w, ~0UL) : (w >= 64 ? (u64)INT64_MAX : (1UL << (w - 1)) - 1); }
static u64 fmin_(int kind, int w) { return kind == K_SGN ? ~fmax_(kind, w) : 0; }
static const char *opclass(int op) {
  return op == OP_SET ? "assign" : op >= OP_ADD && op <= OP_SHR ? "compound" : op >= OP_PREINC && op <= OP_POSTDEC ? "incdec" : "read";
}
static const char *opname[] = {"getf", "getpre", "getpost", "=", "+=", "-=", "|=", "&=", "^=", "<<=", ">>=", "++x", "x++", "--x", "x--", "pre=", "post="};

/* expected effect of op on a field holding old; returns 0 when C11 leaves the result undefined */
static int bf_model(int kind, int w, int op, u64 old, u64 v, u64 *newv, u64 *val) {
  u64 r;
  i64 so = (i64)old;
  int sgn = kind == K_SGN;
  switch (op) {
  case OP_SET: r = v; break;
  case OP_ADD: r = old + v; break;
  case OP_SUB: r = old - v; break;
  case OP_OR: r = old | v; break;
  case OP_AND: r = old & v; break;
  case OP_XOR: r = old ^ v; break;
  case OP_SHL:
    if (v >= 31 || so < 0) return 0;
    if (kind == K_UNS && w >= 32) { if ((int)v >= w) return 0; r = old << v; break; }
    r = old << v;
    if ((r >> v) != old) return 0;
    if (sgn ? r > fmax_(kind, w) : r > 0x7fffffffUL) return 0;
    break;
  case OP_SHR:
    if (v >= 31 || so < 0) return 0;
    r = old >> v; break;
  case OP_PREINC: case OP_POSTINC:
    if (sgn && w >= 32 && old == fmax_(kind, w)) return 0;
    r = old + 1; break;
  case OP_PREDEC: case OP_POSTDEC:
    if (sgn && w >= 32 && old == fmin_(kind, w)) return 0;
    r = old - 1; break;
  default: return 0;
  }
  *newv = fconv(kind, w, r);
  *val = (op == OP_POSTINC || op == OP_POSTDEC) ? old : *newv;
  return 1;
}

/* J = judged bits: the neighbours' bits and everything outside the struct (guards).  Padding bits inside the struct may
   take unspecified values when a member is stored (6.2.6.1p6) and are not judged. */
typedef struct { acc_t acc; u8 *o; int n; const BfRow *r; u8 F[160], P[160], Q[160], J[160]; u64 df, dp, dq; } BfState;

static void bf_bits(BfState *s, int setop, int kind, int w, u8 *out, const char *who) {
  u8 a[160], b[160], d2[160];
  memset(s->o, 0x00, s->n); memcpy(a, s->o, s->n); s->acc(s->o, setop, ~0UL); memcpy(b, s->o, s->n);
  for (int i = 0; i < s->n; i++) out[i] = a[i] ^ b[i];
  memset(s->o, 0xff, s->n); memcpy(a, s->o, s->n); s->acc(s->o, setop, 0); memcpy(b, s->o, s->n);
  for (int i = 0; i < s->n; i++) d2[i] = a[i] ^ b[i];
  int want = kind == K_BOOL ? 1 : w;
  char dev[64];
  if (popcnt(out, s->n) != want || popcnt(d2, s->n) != want) {
    snprintf(dev, sizeof dev, "%s:store-bits!=width", who);
    viol(dev, "all-ones over 0x00 changed %d bits, zero over 0xff changed %d bits, width %d", popcnt(out, s->n), popcnt(d2, s->n), want);
  } else if (memcmp(out, d2, s->n)) {
    snprintf(dev, sizeof dev, "%s:set-bits!=cleared-bits", who);
    viol(dev, "bits set by all-ones differ from bits cleared by zero");
  }
  for (int i = 0; i < s->n; i++) out[i] |= d2[i];
}

static void bf_check_neigh(BfState *s, const char *cls, int op, u64 v, u64 old) {
  char dev[64];
  u64 gp = s->r->pk != K_NONE ? (u64)s->acc(s->o, OP_GETPRE, 0) : 0, gq = s->r->qk != K_NONE ? (u64)s->acc(s->o, OP_GETPOST, 0) : 0;
  if ((s->r->pk != K_NONE && gp != s->dp) || (s->r->qk != K_NONE && gq != s->dq)) {
    snprintf(dev, sizeof dev, "%s:neighbour-field-changed", cls);
    viol(dev, "f %s %#lx (old %#lx): pre %#lx->%#lx post %#lx->%#lx", opname[op], v, old, s->dp, gp, s->dq, gq);
    s->dp = gp; s->dq = gq;
  }
}

static void bf_do(BfState *s, int op, u64 v) {
  const BfRow *r = s->r;
  u64 old = s->df, nv, val;
  if (!bf_model(r->kind, r->w, op, old, v, &nv, &val)) { n_skipped++; return; }
  u8 a[160], b[160];
  char dev[64];
  const char *cls = opclass(op);
  memcpy(a, s->o, s->n);
  u64 got_val = (u64)s->acc(s->o, op, v);
  memcpy(b, s->o, s->n);
  EVAL();
  for (int i = 0; i < s->n; i++)
    if ((a[i] ^ b[i]) & ~s->F[i] & s->J[i]) {
      snprintf(dev, sizeof dev, "%s:bits-outside-field-changed", cls);
      viol(dev, "f %s %#lx (old %#lx): byte %d of object %02x->%02x, field mask %02x", opname[op], v, old, i, a[i], b[i], s->F[i]);
      break;
    }
  u64 got = (u64)s->acc(s->o, OP_GETF, 0);
  if (got != nv) {
    snprintf(dev, sizeof dev, "%s:readback-wrong", cls);
    viol(dev, "f %s %#lx (old %#lx): read back %#lx, want %#lx", opname[op], v, old, got, nv);
  }
  if (got_val != val) {
    snprintf(dev, sizeof dev, "%s:expr-value-wrong", cls);
    viol(dev, "value of (f %s %#lx) with old %#lx is %#lx, want %#lx", opname[op], v, old, got_val, val);
  }
  s->df = got;
  bf_check_neigh(s, cls, op, v, old);
}

static void bf_case(acc_t acc, void *obj, const BfRow *r) {
  BfState S, *s = &S;
  s->acc = acc; s->o = obj; s->r = r;
  s->n = (int)acc(obj, OP_OSZ, 0);
  if (s->n <= 0 || s->n > 160) { viol("harness", "object size %d", s->n); return; }
  u8 *o = s->o, *g0 = (u8 *)acc(obj, OP_G0, 0), *g1 = (u8 *)acc(obj, OP_G1, 0), *ss = (u8 *)acc(obj, OP_S, 0);
  int ssz = (int)acc(obj, OP_SSZ, 0);
  if (g0 < o || g0 + 16 > ss || ss + ssz > g1 || g1 + 16 > o + s->n || ssz <= 0)
    viol("object-overlap", "guard0 at +%ld, struct at +%ld size %d, guard1 at +%ld, enclosing size %d", (long)(g0 - o), (long)(ss - o), ssz, (long)(g1 - o), s->n);
  memset(s->P, 0, sizeof s->P); memset(s->Q, 0, sizeof s->Q);
  bf_bits(s, OP_SET, r->kind, r->w, s->F, "f");
  if (r->pk != K_NONE) bf_bits(s, OP_SETPRE, r->pk, r->pw, s->P, "pre");
  if (r->qk != K_NONE) bf_bits(s, OP_SETPOST, r->qk, r->qw, s->Q, "post");
  for (int i = 0; i < s->n; i++) {
    if ((s->F[i] & s->P[i]) | (s->F[i] & s->Q[i]) | (s->P[i] & s->Q[i])) { viol("fields-overlap", "byte %d of object: f %02x pre %02x post %02x", i, s->F[i], s->P[i], s->Q[i]); break; }
    if ((s->F[i] | s->P[i] | s->Q[i]) && (o + i < ss || o + i >= ss + ssz)) { viol("field-outside-object", "byte %d of enclosing object is outside the struct (+%ld..+%ld)", i, (long)(ss - o), (long)(ss - o) + ssz); break; }
  }
  for (int i = 0; i < s->n; i++) s->J[i] = (o + i < ss || o + i >= ss + ssz) ? 0xff : (s->P[i] | s->Q[i] | s->F[i]);
  u64 fmx = fmax_(r->kind, r->w), fmn = fmin_(r->kind, r->w);
  u64 vals[] = {0, 1, 2, ~0UL, ~1UL, fmx, fmn, fmx + 1, fmn - 1, 0x5555555555555555UL, 0xAAAAAAAAAAAAAAAAUL, 0x0123456789ABCDEFUL, 0x100, 1UL << 32, 1UL << 63};
  u64 olds[] = {0, 1, fmx, fmn, fconv(r->kind, r->w, 0x5555555555555555UL), fconv(r->kind, r->w, 0xAAAAAAAAAAAAAAAAUL)};
  u64 opv[] = {0, 1, ~0UL, 3, 0x5555555555555555UL, fmx};
  u64 shv[] = {0, 1, 3, (u64)(r->w - 1)};
  static const int bgs[] = {0x00, 0xff, 0xa5};
  for (int b = 0; b < 3; b++) {
    memset(o, bgs[b], s->n);
    s->df = (u64)acc(o, OP_GETF, 0);
    s->dp = r->pk != K_NONE ? (u64)acc(o, OP_GETPRE, 0) : 0;
    s->dq = r->qk != K_NONE ? (u64)acc(o, OP_GETPOST, 0) : 0;
    EVAL();
    if (b < 2) {
      u64 all = b ? ~0UL : 0;
      if (s->df != fconv(r->kind, r->w, all))
        viol("read:value-wrong", "object filled with %#x: f reads %#lx, want %#lx", bgs[b], s->df, fconv(r->kind, r->w, all));
      if (r->pk != K_NONE && s->dp != fconv(r->pk, r->pw, all))
        viol("read:neighbour-value-wrong", "object filled with %#x: pre reads %#lx, want %#lx", bgs[b], s->dp, fconv(r->pk, r->pw, all));
      if (r->qk != K_NONE && s->dq != fconv(r->qk, r->qw, all))
        viol("read:neighbour-value-wrong", "object filled with %#x: post reads %#lx, want %#lx", bgs[b], s->dq, fconv(r->qk, r->qw, all));
    }
    for (unsigned i = 0; i < sizeof vals / sizeof *vals; i++) bf_do(s, OP_SET, vals[i]);
    for (unsigned k = 0; k < sizeof olds / sizeof *olds; k++) {
      for (int op = OP_ADD; op <= OP_POSTDEC; op++) {
        int shift = op == OP_SHL || op == OP_SHR, inc = op >= OP_PREINC;
        int nv = inc ? 1 : shift ? 4 : 6;
        for (int j = 0; j < nv; j++) {
          acc(o, OP_SET, olds[k]);
          s->df = (u64)acc(o, OP_GETF, 0);
          if (s->df != olds[k]) { n_skipped++; continue; }   /* a wrong plain store was already reported by the '=' round */
          bf_do(s, op, inc ? 0 : shift ? shv[j] : opv[j]);
        }
      }
    }
  }
  /* stores to the neighbours must leave f alone and touch only their own bits */
  for (int which = 0; which < 2; which++) {
    int k = which ? r->qk : r->pk, w = which ? r->qw : r->pw;
    const u8 *M = which ? s->Q : s->P;
    if (k == K_NONE) continue;
    u64 nv[] = {0, ~0UL, 1, 0x5555555555555555UL, 0xAAAAAAAAAAAAAAAAUL};
    for (int b = 0; b < 3; b++) {
      memset(o, bgs[b], s->n);
      acc(o, OP_SET, 0x0123456789ABCDEFUL);
      u64 f0 = (u64)acc(o, OP_GETF, 0);
      for (int j = 0; j < 5; j++) {
        u8 a[160], c[160];
        memcpy(a, o, s->n);
        acc(o, which ? OP_SETPOST : OP_SETPRE, nv[j]);
        memcpy(c, o, s->n);
        EVAL();
        for (int i = 0; i < s->n; i++)
          if ((a[i] ^ c[i]) & ~M[i] & s->J[i]) { viol("neighbour-store:bits-outside-field-changed", "%s = %#lx: byte %d %02x->%02x mask %02x", which ? "post" : "pre", nv[j], i, a[i], c[i], M[i]); break; }
        u64 g = (u64)acc(o, which ? OP_GETPOST : OP_GETPRE, 0);
        if (g != fconv(k, w, nv[j])) viol("neighbour-store:readback-wrong", "%s = %#lx reads back %#lx, want %#lx", which ? "post" : "pre", nv[j], g, fconv(k, w, nv[j]));
        if ((u64)acc(o, OP_GETF, 0) != f0) viol("neighbour-store:f-changed", "%s = %#lx changed f from %#lx to %#lx", which ? "post" : "pre", nv[j], f0, (u64)acc(o, OP_GETF, 0));
      }
    }
  }
}

/* ------------------------------------------------------------------ live-object registry used by (b)-(f) callbacks */
typedef struct { u8 *p; long n; int pat; long align; int tag; } Reg;
static Reg regs[512];
static volatile int nregs;
static volatile long cb_calls;
static u8 patbyte(int pat, long i) { return (u8)(pat * 37 + i * 11 + 5); }

static int reg_dynamic;   /* set while a run-time sized block (VLA, alloca) is registered: a misplaced one ends the case */
static void reg_reset(void) { nregs = 0; reg_dynamic = 0; }
static void reg_fill(const Reg *r) { for (long i = 0; i < r->n; i++) r->p[i] = patbyte(r->pat, i); }
static int reg_intact(const Reg *r) { for (long i = 0; i < r->n; i++) if (r->p[i] != patbyte(r->pat, i)) return 0; return 1; }

/* register a live object [p, p+n): must be aligned, disjoint from everything registered, and above the callee frame */
static int reg_add(void *p, long n, long align, int tag, const char *what) {
  u8 here;
  u8 *q = p;
  cb_calls++;
  char dev[64];
  int misplaced = 0;
  if (align > 1 && ((uintptr_t)q % align) != 0) {
    snprintf(dev, sizeof dev, "%s:misaligned:align=%ld", what, align);
    viol(dev, "object %d (size %ld): address %% %ld == %ld", tag, n, align, (long)((uintptr_t)q % align));
  }
  for (int i = 0; i < nregs; i++)
    if (n > 0 && regs[i].n > 0 && q < regs[i].p + regs[i].n && regs[i].p < q + n) {
      snprintf(dev, sizeof dev, "%s:overlaps-live-object", what);
      viol(dev, "object %d [%ld bytes] overlaps object %d [%ld bytes] by address distance %ld", tag, n, regs[i].tag, regs[i].n, (long)(q - regs[i].p));
      misplaced = 1;
    }
  if (n > 0 && q < &here + 1 && q + n > &here - 4096 && q < &here) {
    snprintf(dev, sizeof dev, "%s:below-stack-pointer", what);
    viol(dev, "object %d (size %ld) lies %ld bytes below a callee's frame", tag, n, (long)(&here - q));
    misplaced = 1;
  }
  if (misplaced && reg_dynamic) abandon_case();
  if (nregs >= 512) { viol("harness", "registry full"); return -1; }
  regs[nregs] = (Reg){q, n, nregs + 1, align, tag};
  reg_fill(&regs[nregs]);
  return nregs++;
}
static void reg_verify(const char *what) {
  char dev[64];
  for (int i = 0; i < nregs; i++)
    if (!reg_intact(&regs[i])) {
      snprintf(dev, sizeof dev, "%s:contents-changed", what);
      long k = 0; while (regs[i].p[k] == patbyte(regs[i].pat, k)) k++;
      viol(dev, "object %d (size %ld) byte %ld is %02x, was filled with %02x", regs[i].tag, regs[i].n, k, regs[i].p[k], patbyte(regs[i].pat, k));
      reg_fill(&regs[i]);
    }
}
static void reg_drop(int from) { if (from >= 0 && from <= nregs) nregs = from; }

/* callbacks visible to the unit (plain C linkage, pointer/long arguments only) */
static const char *cb_family = "obj";
long c04_reg(void *p, long n, long align, long tag) { return reg_add(p, n, align, (int)tag, cb_family); }
long c04_verify(void) { cb_calls++; reg_verify(cb_family); return 0; }
long c04_mark(void) { return nregs; }
long c04_drop(long from) { reg_verify(cb_family); reg_drop((int)from); return 0; }
/* tag: registers the block and returns `ret`, so it can sit inside an expression */
long c04_tag(void *p, long n, long ret) { reg_dynamic = 1; reg_add(p, n, 16, 1000 + nregs, cb_family); reg_dynamic = 0; return ret; }
long c04_id(long x) { cb_calls++; reg_verify(cb_family); return x; }
/* value read through the variable's own name must be the pattern the registry wrote through its address */
long c04_val(long idx, long off, long size, u64 v) {
  cb_calls++;
  if (idx < 0 || idx >= nregs) { viol("harness", "c04_val index"); return 0; }
  u64 want = 0;
  for (long i = 0; i < size && i < 8; i++) want |= (u64)patbyte(regs[idx].pat, off + i) << (8 * i);
  if (size < 8) v &= (1UL << (8 * size)) - 1;
  if (v != want) viol("locals:name-reads-other-bytes", "object %d offset %ld size %ld: read through its name %#lx, bytes at its address %#lx", regs[idx].tag, off, size, v, want);
  return 0;
}
/* region must equal another region */
long c04_same(void *a, void *b, long n, long what) {
  cb_calls++;
  if (memcmp(a, b, n)) {
    long k = 0; while (((u8 *)a)[k] == ((u8 *)b)[k]) k++;
    viol("copy:bytes-differ", "way %ld: byte %ld of %ld is %02x, source has %02x", what, k, n, ((u8 *)a)[k], ((u8 *)b)[k]);
  }
  return 0;
}
/* plain byte copy done by the driver (a member whose own load/store instructions are not the subject of the case) */
long c04_cpy(void *d, void *s, long n) { cb_calls++; memmove(d, s, n); return 0; }
/* partial initialisation: first `nset` bytes hold set[], all others zero */
static u8 zero_set[64];
long c04_zero(void *p, long n, long nset) {
  cb_calls++;
  u8 *q = p;
  for (long i = 0; i < n; i++) {
    u8 want = i < nset ? zero_set[i] : 0;
    if (q[i] != want) { viol(i < nset ? "init:explicit-byte-wrong" : "init:unmentioned-byte-not-zero", "byte %ld of %ld is %02x, want %02x", i, n, q[i], want); break; }
  }
  return 0;
}
/* dirty the stack below the caller so that zeroes are never luck */
static void __attribute__((noinline)) dirty_stack(int pat, long n) { volatile u8 *p = alloca(n); for (long i = 0; i < n; i++) p[i] = (u8)pat; }
/* call fn with the stack pointer at a chosen residue mod 32 (frames are 16-aligned; ASLR moves the stack in 16-byte steps) */
static long __attribute__((noinline)) call_par(long (*fn)(long), long arg, int par) {
  long ret, shift = par ? 16 : 0;
  __asm__ volatile("mov %%rsp, %%rbx\n\t"
                   "sub $256, %%rsp\n\t"
                   "and $-32, %%rsp\n\t"
                   "sub %3, %%rsp\n\t"
                   "call *%2\n\t"
                   "mov %%rbx, %%rsp"
                   : "=a"(ret), "+D"(arg)
                   : "r"(fn), "r"(shift)
                   : "rbx", "rcx", "rdx", "rsi", "r8", "r9", "r10", "r11", "memory", "cc",
                     "xmm0", "xmm1", "xmm2", "xmm3", "xmm4", "xmm5", "xmm6", "xmm7", "xmm8", "xmm9", "xmm10", "xmm11", "xmm12", "xmm13", "xmm14", "xmm15");
  return ret;
}

/* ------------------------------------------------------------------ (b) aggregate copy */
typedef long (*copy_t)(void *dst, void *src, void *src2, long flag);
typedef long (*geo_t)(long k);
typedef struct { int nflags; long flag[2]; int sel[2]; int two; } CopyRow;
#define COPY_MAX (8192 + 16)
static u8 pat1(long i) { return (u8)((i * 7 + 1) % 0x9f + 1); }
static u8 pat2(long i) { return (u8)((i * 11 + 3) % 0x59 + 0xa6); }
static void copy_case(copy_t fn, geo_t geo, const CopyRow *r) {
  long sa = geo(0), sd = geo(1);
  int nmem = (int)geo(3);
  u8 *D = (u8 *)geo(100), *s1 = (u8 *)geo(101), *s2 = (u8 *)geo(102);
  static const int bgs[] = {0x00, 0xff, 0xa5};
  if (sa <= 0 || sa > COPY_MAX || sd < sa + 32 || sd > 3 * COPY_MAX + 64) { viol("harness", "sizes %ld %ld", sa, sd); return; }
  for (int j = 0; j < r->nflags; j++) {
    long doff = geo(20 + j), doff2 = r->two ? geo(30 + j) : -1;
    if (doff < 16 || doff + sa + 16 > sd) { viol("copy:destination-outside-object", "destination at +%ld size %ld in object of %ld", doff, sa, sd); continue; }
    if (r->two && (doff2 < 16 || doff2 + sa + 16 > sd || (doff2 < doff + sa && doff < doff2 + sa))) { viol("copy:destination-outside-object", "second destination at +%ld, first at +%ld, size %ld in object of %ld", doff2, doff, sa, sd); continue; }
    for (int b = 0; b < 3; b++) {
      memset(D, bgs[b], sd);
      long ph = b * 5 + j * 17 + cur_case;     /* a fresh source pattern every round: stale temporaries never match by luck */
      for (long i = 0; i < sa; i++) { s1[i] = pat1(i + ph); s2[i] = pat2(i + ph); }
      dirty_stack(0xd0 + b, 8192 + 8 * sa);
      fn(D, s1, s2, r->flag[j]);
      EVAL();
      const u8 *S = r->sel[j] ? s2 : s1;
      for (int which = 0; which < 1 + r->two; which++) {
        long dof = which ? doff2 : doff;
        int bad = 0;
        for (int m = 0; m < nmem && !bad; m++) {
          long mo = geo(40 + 2 * m), ms = geo(41 + 2 * m);
          for (long i = mo; i < mo + ms; i++)
            if (D[dof + i] != S[i]) {
              viol(which ? "copy:member-bytes-differ:inner-destination" : "copy:member-bytes-differ", "flag %ld background %#x: byte %ld of %ld-byte aggregate is %02x, source has %02x", r->flag[j], bgs[b], i, sa, D[dof + i], S[i]);
              bad = 1; break;
            }
        }
      }
      for (long i = 0; i < sd; i++)
        if ((i < doff || i >= doff + sa) && (doff2 < 0 || i < doff2 || i >= doff2 + sa) && D[i] != bgs[b]) { viol("copy:bytes-outside-destination-changed", "flag %ld background %#x: byte %+ld relative to the %ld-byte destination became %02x", r->flag[j], bgs[b], i - doff, sa, D[i]); break; }
      for (long i = 0; i < sa; i++)
        if (s1[i] != pat1(i + ph) || s2[i] != pat2(i + ph)) { viol("copy:source-changed", "source byte %ld changed", i); break; }
    }
  }
}

/* ------------------------------------------------------------------ (c) member paths */
typedef long (*path_t)(void *p, long leaf, long op, u64 v);
typedef struct { int nleaf; const u8 *size, *sgn, *ov; } PathRow;
enum { P_GET, P_SET, P_ADDR, P_ADDASSIGN, P_GET2, P_SET2, P_GETG, P_SETG };
static void path_case(path_t fn, const PathRow *r, void *obj, int have_global) {
  u8 *o = obj;
  long n = fn(o, -1, 0, 0);
  u8 *rr = (u8 *)fn(o, -1, 1, 0);
  long rsz = fn(o, -1, 2, 0);
  int nl = r->nleaf;
  if (n <= 0 || n > 2048 || nl > 96) { viol("harness", "object size %ld leaves %d", n, nl); return; }
  if (rr < o + 16 || rr + rsz + 16 > o + n) viol("paths:member-outside-object", "r at +%ld size %ld in object of %ld", (long)(rr - o), rsz, n);
  u8 a[2048], b[2048], judged[2048];
  long off[96];
  for (int k = 0; k < nl; k++) off[k] = (u8 *)fn(o, k, P_ADDR, 0) - o;
  /* bytes judged after a store to leaf k: bytes of leaves that cannot overlap k, and bytes outside member r.  Padding and
     the other members of an enclosing union take unspecified values (6.2.6.1p6,p7) and are not judged. */
#define JUDGED_FOR(k) do { for (long i_ = 0; i_ < n; i_++) judged[i_] = (o + i_ < rr || o + i_ >= rr + rsz); \
    for (int m_ = 0; m_ < nl; m_++) if (!r->ov[(k) * nl + m_] && off[m_] >= 0 && off[m_] + r->size[m_] <= n) memset(judged + off[m_], 1, r->size[m_]); } while (0)
  static const int bgs[] = {0x00, 0xff, 0xa5};
  /* byte set of every leaf: exactly sizeof bytes at its own address, naturally aligned, inside r */
  for (int k = 0; k < nl; k++) {
    u8 *ad = (u8 *)fn(o, k, P_ADDR, 0);
    off[k] = ad - o;
    int sz = r->size[k];
    if (ad < rr || ad + sz > rr + rsz) { viol("paths:leaf-outside-object", "leaf %d at +%ld size %d, member r spans +%ld..+%ld", k, off[k], sz, (long)(rr - o), (long)(rr - o) + rsz); off[k] = -1; continue; }
    if ((uintptr_t)ad % sz) viol("paths:leaf-misaligned", "leaf %d (size %d) at address %% %d == %ld", k, sz, sz, (long)((uintptr_t)ad % sz));
    for (int ph = 0; ph < 2; ph++) {
      memset(o, ph ? 0xff : 0x00, n); memcpy(a, o, n);
      fn(o, k, P_SET, ph ? 0 : ~0UL);
      memcpy(b, o, n); EVAL();
      JUDGED_FOR(k);
      for (long i = 0; i < n; i++) {
        int in = i >= off[k] && i < off[k] + sz;
        if (in ? a[i] == b[i] : (a[i] != b[i] && judged[i])) { viol("paths:store-bytes!=leaf-bytes", "leaf %d (size %d at +%ld): storing %s changed byte +%ld: %02x->%02x", k, sz, off[k], ph ? "0" : "~0", i, a[i], b[i]); break; }
      }
    }
  }
  for (int i = 0; i < nl; i++)
    for (int j = i + 1; j < nl; j++)
      if (!r->ov[i * nl + j] && off[i] >= 0 && off[j] >= 0 && off[i] < off[j] + r->size[j] && off[j] < off[i] + r->size[i])
        viol("paths:distinct-members-overlap", "leaves %d (+%ld,%d) and %d (+%ld,%d) have no union between them", i, off[i], r->size[i], j, off[j], r->size[j]);
  u64 dict[96];
  u64 vals[] = {0x0123456789ABCDEFUL, ~0UL, 0x8000000080008080UL, 1};
  for (int bg = 0; bg < 3; bg++) {
    memset(o, bgs[bg], n);
    for (int k = 0; k < nl; k++) dict[k] = (u64)fn(o, k, P_GET, 0);
    for (int k = 0; k < nl; k++) {
      if (off[k] < 0) continue;
      for (int j = 0; j < 4; j++) {
        int op = j == 0 ? P_SET : j == 1 ? P_SET2 : j == 2 ? (have_global ? P_SETG : P_SET) : P_ADDASSIGN;
        u64 want = fconv(r->sgn[k] ? K_SGN : K_UNS, 8 * r->size[k], op == P_ADDASSIGN ? dict[k] + vals[j] : vals[j]);
        memcpy(a, o, n);
        fn(o, k, op, vals[j]);
        memcpy(b, o, n); EVAL();
        JUDGED_FOR(k);
        for (long i = 0; i < n; i++)
          if (a[i] != b[i] && judged[i] && !(i >= off[k] && i < off[k] + r->size[k])) { viol("paths:bytes-outside-leaf-changed", "store variant %d to leaf %d (+%ld,%d) changed byte +%ld", op, k, off[k], r->size[k], i); break; }
        for (int m = 0; m < nl; m++) {
          u64 g = (u64)fn(o, m, P_GET, 0);
          if (m == k) { if (g != want) viol("paths:readback-wrong", "store variant %d of %#lx to leaf %d (size %d) reads back %#lx, want %#lx", op, vals[j], k, r->size[k], g, want); dict[m] = g; }
          else if (r->ov[k * nl + m]) dict[m] = g;
          else if (g != dict[m]) { viol("paths:other-leaf-changed", "store to leaf %d changed leaf %d from %#lx to %#lx", k, m, dict[m], g); dict[m] = g; }
        }
      }
    }
    for (int k = 0; k < nl; k++) {
      u64 g2 = (u64)fn(o, k, P_GET2, 0), g3 = have_global ? (u64)fn(o, k, P_GETG, 0) : dict[k];
      EVAL();
      if (g2 != dict[k] || g3 != dict[k]) viol("paths:spellings-disagree", "leaf %d: ./[] reads %#lx, ->/pointer arithmetic reads %#lx, global object reads %#lx", k, dict[k], g2, g3);
    }
  }
}

/* ------------------------------------------------------------------ (d)(e)(f): call a unit function and check its value */
typedef struct { long x, want; int skip; u8 set[9]; } CallRow;
long c04_add3(long a, long b, long c) { cb_calls++; reg_verify(cb_family); return a * 100 + b * 10 + c; }
/* a store through the variable's name must have landed in the bytes at the registered address; the pattern is then restored */
long c04_wrote(long idx, long off, long size, u64 v) {
  cb_calls++;
  if (idx < 0 || idx >= nregs) { viol("harness", "c04_wrote index"); return 0; }
  Reg *r = &regs[idx];
  for (long i = 0; i < r->n; i++) {
    u8 want = (i >= off && i < off + size) ? (u8)(v >> (8 * (i - off))) : patbyte(r->pat, i);
    if (r->p[i] != want) {
      viol(i >= off && i < off + size ? "locals:store-through-name-missed-its-bytes" : "locals:store-through-name-hit-other-bytes",
           "object %d (size %ld): after storing %#lx at offset %ld size %ld, byte %ld is %02x, want %02x", r->tag, r->n, v, off, size, i, r->p[i], want);
      break;
    }
  }
  reg_fill(r);
  return 0;
}
/* after `v = 1.5L`: the ten value bytes of an x87 extended hold 1.5; bytes 10..15 are padding and not judged */
long c04_wrote_ld(long idx) {
  static const u8 v15[10] = {0, 0, 0, 0, 0, 0, 0, 0xc0, 0xff, 0x3f};
  cb_calls++;
  if (idx < 0 || idx >= nregs || regs[idx].n != 16) { viol("harness", "c04_wrote_ld index"); return 0; }
  if (memcmp(regs[idx].p, v15, 10)) viol("locals:store-through-name-missed-its-bytes", "long double object %d does not hold 1.5L after the store", regs[idx].tag);
  reg_fill(&regs[idx]);
  return 0;
}
/* (g)(h) variably modified types: sizeof / pointer arithmetic / subscript values computed by the unit, held to the dictionary */
long c04_expect(long got, long want, long what) {
  cb_calls++;
  if (got != want) {
    if (what == 10) viol("literal:not-fresh", "a sub-object of a freshly evaluated compound literal / initialised automatic object reads %ld, its initializer says %ld", got, want);
    else if (what == 12) viol("literal:unmentioned-part-not-zero", "a sub-object without an initializer of a freshly evaluated compound literal / initialised automatic object reads %ld, want %ld", got, want);
    else if (what == 11) viol("literal:file-scope-not-static", "a sub-object of a file-scope compound literal reads %ld, want %ld (initial value plus what earlier calls stored)", got, want);
    else if (what == 0) viol("vla:sizeof-wrong", "sizeof yields %ld, the type was established with %ld bytes", got, want);
    else if (what == 3) viol("vla:sizeof-earlier-object-wrong", "sizeof an object declared before the other uses of its type now yields %ld, the object has %ld bytes", got, want);
    else if (what == 2) viol("vla:pointer-difference-wrong", "difference of two pointers to the variably modified type yields %ld, want %ld", got, want);
    else viol("vla:element-offset-wrong", "pointer arithmetic / subscripting on the variably modified type yields byte offset (or count) %ld, want %ld", got, want);
  }
  return 0;
}
/* a VLA object: sizeof must be the expected size, and the object must have room for that many bytes (registered with them) */
long c04_vla(void *p, long size, long expected, long ret) {
  if (expected < 0 || expected > (1 << 22)) { viol("harness", "c04_vla expected size"); return ret; }
  if (size != expected) {
    cb_calls++;
    viol("vla:sizeof-wrong", "sizeof the object yields %ld, its type was established with %ld bytes", size, expected);
    abandon_case();      /* the object cannot be trusted to have `expected` bytes: do not write a pattern into it */
  }
  reg_dynamic = 1; reg_add(p, expected, 16, 1000 + nregs, cb_family); reg_dynamic = 0;
  return ret;
}
/* a store through a subscripted name must have landed at the given offset of the registered object that starts at obj */
long c04_stored(void *obj, long off, long size, u64 v) {
  for (int i = nregs - 1; i >= 0; i--)
    if (regs[i].p == (u8 *)obj) return c04_wrote(i, off, size, v);
  cb_calls++;
  viol("vla:store-through-name-missed-its-object", "no live object starts at the address the name designates");
  return 0;
}
void *c04_buf(void) { static _Alignas(16) u8 buf[1 << 20]; cb_calls++; return buf; }

/* ------------------------------------------------------------------ (i) pointer arithmetic with index operand expressions */
/* names of the operator forms, in the order of PX_FORMS in models/c04_lvalues.py */
static const char *const px_forms[] = {"base", "p+n", "n+p", "p-n", "p[n]", "n[p]", "p+=n", "p-=n", "(a+4)[n]", "&a[4]-n", "(p+n)-p", "(p-n)-p",
                                       "++p", "p++", "--p", "p--"};
#define PX_NFORMS ((long)(sizeof px_forms / sizeof *px_forms))
#define PX_BASE 4            /* p points at element 4 of a 9-element array */
static u8 markbyte(long i) { return (u8)(0xC1 + i * 3); }
long c04_pxv(long k, long lo) { cb_calls++; return lo + k; }
long c04_mk(void *p, long n) { cb_calls++; for (long i = 0; i < n; i++) ((u8 *)p)[i] = markbyte(i); return 0; }
static int px_args_ok(long v, long sign, long elsz, long form) {
  if (form < 0 || form >= PX_NFORMS || (sign != 1 && sign != -1) || PX_BASE + sign * v < 0 || PX_BASE + sign * v > 8) { viol("harness", "pointer-index arguments %ld %ld %ld", v, sign, form); return 0; }
  if (elsz != zero_set[0]) { viol("ptr-index:sizeof-element-wrong", "sizeof the element type yields %ld, want %d", elsz, zero_set[0]); return 0; }
  return 1;
}
/* the address an lvalue / pointer expression designates: element PX_BASE + sign * v of the array; returns 1 when it is right */
long c04_at(void *got, void *arr, long v, long sign, long elsz, long form) {
  cb_calls++;
  if (!px_args_ok(v, sign, elsz, form)) return 0;
  u8 *want = (u8 *)arr + (PX_BASE + sign * v) * elsz;
  if ((u8 *)got != want) {
    char dev[64]; snprintf(dev, sizeof dev, "%s:address-wrong", px_forms[form]);
    viol(dev, "index operand value %ld, element size %ld: designates byte offset %ld of the array, want %ld", v, elsz, (long)((u8 *)got - (u8 *)arr), (long)(want - (u8 *)arr));
    return 0;
  }
  return 1;
}
/* after `lvalue = marker`: exactly the designated element holds the marker, every other byte of the array its pattern */
long c04_marked(long idx, long v, long sign, long elsz, long form) {
  cb_calls++;
  if (!px_args_ok(v, sign, elsz, form)) return 0;
  if (idx < 0 || idx >= nregs || regs[idx].n != 9 * elsz) { viol("harness", "c04_marked index"); return 0; }
  Reg *r = &regs[idx];
  long off = (PX_BASE + sign * v) * elsz;
  for (long i = 0; i < r->n; i++) {
    int in = i >= off && i < off + elsz;
    u8 want = in ? markbyte(i - off) : patbyte(r->pat, i);
    if (r->p[i] != want) {
      char dev[64]; snprintf(dev, sizeof dev, "%s:%s", px_forms[form], in ? "store-missed-its-element" : "store-hit-other-bytes");
      viol(dev, "index operand value %ld, element size %ld: after the store byte %ld of the array is %02x, want %02x", v, elsz, i, r->p[i], want);
      break;
    }
  }
  reg_fill(r);
  return 0;
}
/* a load through the lvalue must yield the bytes of the designated element */
long c04_rd(void *t, long idx, long v, long sign, long elsz, long form) {
  cb_calls++;
  if (!px_args_ok(v, sign, elsz, form)) return 0;
  if (idx < 0 || idx >= nregs || regs[idx].n != 9 * elsz) { viol("harness", "c04_rd index"); return 0; }
  if (memcmp(t, regs[idx].p + (PX_BASE + sign * v) * elsz, elsz)) {
    char dev[64]; snprintf(dev, sizeof dev, "%s:load-read-other-bytes", px_forms[form]);
    viol(dev, "index operand value %ld, element size %ld: the value loaded through the lvalue is not the designated element", v, elsz);
  }
  return 0;
}
long c04_pd(long got, long want, long form) {
  cb_calls++;
  if (form < 0 || form >= PX_NFORMS) { viol("harness", "form %ld", form); return 0; }
  if (got != want) { char dev[64]; snprintf(dev, sizeof dev, "%s:pointer-difference-wrong", px_forms[form]); viol(dev, "yields %ld, want %ld", got, want); }
  return 0;
}

/* ------------------------------------------------------------------ (j) a store whose right-hand side writes a neighbour */
typedef long (*bn_t)(void *, int, long, long, long);
typedef struct { int nf; int kind[4], w[4]; int x; const u64 *init, *exp; } BnRow;
static const char *const bn_groups[] = {"chain", "rhs-incdec", "rhs-compound", "compound-lhs", "call", "comma", "cond", "operands", "stmtexpr", "lhs-writes", "whole-struct", "union-overlap"};
static void bn_case(bn_t acc, void *obj, const BnRow *r, const int *grp, const char *const *txt, int nt, const long *vw, int nvw, int ninit) {
  u8 *o = obj;
  long n = acc(obj, 94, 0, 0, 5);
  u8 *g0 = (u8 *)acc(obj, 90, 0, 0, 5), *g1 = (u8 *)acc(obj, 91, 0, 0, 5), *ss = (u8 *)acc(obj, 92, 0, 0, 5);
  long ssz = acc(obj, 93, 0, 0, 5);
  if (n <= 0 || n > 160 || r->nf < 3 || r->nf > 4) { viol("harness", "object size %ld", n); return; }
  if (g0 < o || g0 + 16 > ss || ss + ssz > g1 || g1 + 16 > o + n || ssz <= 0) { viol("object-overlap", "guard0 at +%ld, struct at +%ld size %ld, guard1 at +%ld, enclosing size %ld", (long)(g0 - o), (long)(ss - o), ssz, (long)(g1 - o), n); return; }
  static const int bgs[] = {0x00, 0xff};
  u8 a[160], b[160];
  char dev[64];
  for (int t = 0; t < nt; t++)
    for (int in = 0; in < ninit; in++)
      for (int k = 0; k < nvw; k++) {
        const u64 *e = r->exp + ((long)(t * ninit + in) * nvw + k) * (r->nf + 1);
        int bg = bgs[(t + in + k) & 1];
        memset(o, bg, n);
        int ok = 1;
        for (int f = 0; f < r->nf; f++) acc(o, 10 + f, (long)r->init[in * r->nf + f], 0, 5);
        for (int f = 0; f < r->nf; f++) {
          u64 got0 = (u64)acc(o, f, 0, 0, 5);
          if (got0 != r->init[in * r->nf + f]) {
            /* plain stores to all fields, then plain loads: an observation of its own (and the statement cannot be judged) */
            if (ok) EVAL();
            ok = 0;
            viol("plain-stores:readback-wrong", "after storing every field its value, field %d reads %#lx, want %#lx (initial set %d)", f, got0, r->init[in * r->nf + f], in);
          }
        }
        if (!ok) { n_skipped++; continue; }
        memcpy(a, o, n);
        u64 val = (u64)acc(o, 100 + t, vw[2 * k], vw[2 * k + 1], 5);
        memcpy(b, o, n);
        EVAL();
        const char *g = bn_groups[grp[t]];
        for (long i = 0; i < n; i++)
          if (a[i] != b[i] && (o + i < ss || o + i >= ss + ssz)) { snprintf(dev, sizeof dev, "%s:bytes-outside-struct-changed", g); viol(dev, "`%s` v=%ld w=%ld: byte %+ld relative to the struct changed %02x->%02x", txt[t], vw[2 * k], vw[2 * k + 1], (long)(o + i - ss), a[i], b[i]); break; }
        for (int f = 0; f < r->nf; f++) {
          u64 got = (u64)acc(o, f, 0, 0, 5);
          if (got != e[f]) {
            snprintf(dev, sizeof dev, "%s:%s", g, f == r->x ? "assigned-field-wrong" : "neighbour-field-wrong");
            viol(dev, "`%s` v=%ld w=%ld initial set %d: field %d reads %#lx after the statement, want %#lx (it held %#lx before)", txt[t], vw[2 * k], vw[2 * k + 1], in, f, got, e[f], r->init[in * r->nf + f]);
          }
        }
        if (val != e[r->nf]) { snprintf(dev, sizeof dev, "%s:expr-value-wrong", g); viol(dev, "`%s` v=%ld w=%ld initial set %d: the expression yields %#lx, want %#lx", txt[t], vw[2 * k], vw[2 * k + 1], in, val, e[r->nf]); }
      }
}

static int call_rounds = 2;
static void call_case(long (*fn)(long), const CallRow *r) {
  if (r->skip) { n_skipped++; return; }
  for (int rd = 0; rd < call_rounds; rd++) {
    int par = rd & 1;
    reg_reset();
    memcpy(zero_set, r->set, sizeof r->set);
    /* with four rounds the first two run on a zeroed stack, so that an object sized from a stale slot is first seen as
       small and overlapping (reported as such) before the patterned rounds make it absurdly large */
    dirty_stack(call_rounds == 4 && rd < 2 ? 0x00 : par ? 0xee : 0x5a, 65536);
    long c0 = cb_calls;
    long (*volatile cp)(long (*)(long), long, int) = call_par;   /* opaque: the callee runs callbacks that touch driver state */
    long got = cp(fn, r->x, par);
    EVAL();
    if (got != r->want) {
      char dev[64]; snprintf(dev, sizeof dev, "%s:value-wrong", cb_family);
      viol(dev, "function returned %ld, want %ld (stack parity %d)", got, r->want, par);
    }
    n_evals += cb_calls - c0; case_evals += cb_calls - c0;
    if (nregs != 0) viol("harness", "registry not balanced: %d", nregs);
    if (cb_calls == c0) viol("harness", "no callbacks");
  }
}
