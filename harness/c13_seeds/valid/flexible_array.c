struct F { int n; char d[]; };
struct F g = {1, {2, 3}};
int f(struct F *p) { return p->d[p->n] + sizeof(struct F); }
