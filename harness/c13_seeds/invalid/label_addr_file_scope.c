int c = &&a;
