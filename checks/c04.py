"""C04 lvalues designate exactly their bytes/bits.

Every generated unit is compiled ONLY by the chibicc under test; a gcc-compiled driver (harness/c04_drv.h + generated
tables) calls accessor functions of the unit and judges what it observes against self-evident reference dictionaries:

 (a) bit-fields   all (base type, width) pairs x all preceding-field widths 0..63: the set of bits a field occupies is
                  discovered differentially (store all-ones over 0x00, zero over 0xff) and must have exactly `width` bits,
                  be disjoint from the neighbours' sets and lie inside the struct; then every store (=, op=, ++/--) on
                  three backgrounds must change only bits of that set, read back the C11-converted value, yield the
                  converted value as expression value, and leave both neighbours' values alone.
 (b) aggregate copy   10 member mixes x payload sizes {1..72, 96, 127, 128, 129, 255, 256, 257, 511, 512, 1000, 4096} (thorough:
                      1..130, 255..257, 511..513, 1000, 1023..1025, 2048, 4095..4097, 8192) x 22 ways: 12 that move the aggregate
                      {assign, deref, init, argument, 7th argument, return, ?:, comma, chain, element, pointer arithmetic, member of
                      return value} and 10 that consume the VALUE of an aggregate assignment expression {p[2] = p[k] = z, three-link
                      chain through pointers, (a = b).aggregate-member, (a = b).scalar-member for every payload byte, f(a = b),
                      return *d = *s, both arms of ?:, right operand of a comma, value of a statement expression, initialiser}.
                      Chained forms check both destinations.
 (c) member paths     all shapes of depth <= 3 over struct/union/array/anonymous members; leaf dictionary, union-aware.
 (d) locals           all multisets of <= 4 locals from 13 kinds: disjoint, aligned, patterns survive, names read own bytes.
 (e) VLA / alloca     13 sizes (0..100, 256, 1000, 4096) x creation contexts: 16-aligned, disjoint from all live objects, contents
                      and surrounding expression value preserved.
 (f) partial init     the sizes of (b) x forms: unmentioned bytes are zero on a dirtied stack.
 (g) VLA types        one variably modified type used at several sites on different control-flow paths:
                      8 ways to name the type {typedef of char[n], long[n], int[n][3], array of a typedef'd row, char[n][n+1];
                      typeof(VLA object); typeof(type name); written out} x 4 uses {declaration(s) of objects, sizeof(type name),
                      pointer to the type (sizeof *p, p+1, &p[2], &(*p)[last], q-p, p-q, q[-1]), array of the type} x 13 flows
                      {straight, then arm, else arm, first / middle / default case of a switch, goto around the first site, goto
                      that runs the later site first, loop alternating the sites, loop with the type re-established with a new n
                      in each iteration, ?: arms, && short circuit, n modified after the type was established} x 9 lengths
                      (thorough: 1..33, 64, 100, 255).  Judged: sizeof (object, *&object, type name, element), byte offset of the
                      last element, a store to it lands there, 16-alignment, disjointness from every live object, contents, and
                      sizeof of an object declared before the flow after it.  Each unit runs at both stack parities on a zeroed and
                      on a patterned stack.  A deviation is reported only if the same unit compiled by gcc -O0 satisfies the
                      dictionary (second oracle).
 (h) VLA parameters   6 parameter forms {a[n][n], (*a)[n], a[][n], a[n], a[n][n+1], a[static n]} x 5 lengths: sizeof, element
                      offsets and a store inside the callee.
 (i) pointer index    pointer arithmetic as lvalue designator (models/c04_lvalues.py): element types of size 1 (char, void), 2, 3, 4, 8,
                      16, 24 (thorough adds unsigned/signed char, float, double, pointer, sizes 5, 6, 12) x index operand EXPRESSIONS:
                      28 kinds {local, global, member, ->member, bit-field, *pointer, array element; i-j, i+j, i*j, i/j, -i, ~i, i&j,
                      ?:, comma, assignment, op=, ++/-- pre/post, statement expression, compound literal; call result; cast from a
                      long with dirty upper bits, cast from double; literal} x 9 integer types (signed char .. unsigned long, _Bool)
                      x every value -4..4 (unsigned: 0..4) supplied by the driver x 15 operator forms {p+n, n+p, p-n, p[n], n[p],
                      p+=n, p-=n (value and updated pointer), (a+4)[n], &a[4]-n, (p+n)-p, p-(p-n), ++p, p++, --p, p--}.  Judged: the
                      address (compared before anything is dereferenced), then a marker stored through the lvalue changes exactly
                      the designated element of a 9-element array between guards, and a load through it yields that element.
 (j) rhs writes       a store whose right-hand side itself writes to a neighbour of the assigned lvalue: 8 layouts (int, long, char,
                      short units; ordinary members inside a bit-field's unit; _Bool fields; two units; mixed int/long units; every
                      struct overlaid by an unsigned long in an anonymous union) x 5 access paths {->, global ., automatic copy, array
                      element, nested} x all ordered pairs (assigned field X, written neighbour Y) x 41 statement templates in 12
                      groups {X = Y = v, X = Y = Z = v, X = Y++ / ++Y / Y-- / --Y, X = (Y op= v), X op= (Y = v), X op= Y++,
                      X = f() / X op= f() where f writes Y (and Z), comma, ?:, &&, two writing operands, statement expression, writes
                      in the lvalue's own address computation with =, op=, ++, --, whole-struct assignment and a store to the
                      overlapping union member inside the right-hand side} x 2 initial states x 3 (v, w) pairs.  Judged by a
                      reference dictionary over ALL fields (interpreter in models/c04_lvalues.py), the value of the expression,
                      and the guard bytes.
 (k) object lifetime  compound literals (and, as control, initialised named automatic objects): 18 object types (scalars, pointer, arrays
                      complete/incomplete/partly initialised/designated/2-D/string, structs plain/nested/with bit-fields/with a string
                      pointer, union) x initializer classes {all constants, constant expressions, designated, {0}, string, non-constant
                      first/last element} x 6 evaluation scenarios {for loop, goto loop, ?:-arm in a loop, callee called three times,
                      recursion of depth 3 with all activations live, two evaluations live in one block} x 5 spellings {T *p = literal,
                      assigned later, passed as argument, named object, modified through the literal's own lvalue}; plus file-scope
                      literals, which are ONE static object whose stored values persist across calls.  Judged: every evaluation
                      yields the initializer's values although the previous object was overwritten, live objects are disjoint from
                      each other and from named locals and keep their contents.  Every function runs twice.
 Families (i)-(k), like (g)/(h), report a deviation only if gcc -O0 on the same unit satisfies the dictionary.

Nothing is compared with gcc's layout (that is C08); gcc only compiles the driver.
"""
import os, re, itertools
from vlib import core, twin
from models import c04_lvalues as LV

LEVEL = "exploration"
BUDGET = {"quick": 900, "thorough": 3000}      # global deadlines, not targets (quick: ~2.5 CPU-min; the machine is shared)

HDR = os.path.join(core.VERIF, "harness/c04_drv.h")
TYPES = ["_Bool", "char", "short", "int", "long", "unsigned char", "unsigned short", "unsigned int", "unsigned long"]
TN = ["bool", "char", "short", "int", "long", "uchar", "ushort", "uint", "ulong"]
SIZE = [1, 1, 2, 4, 8, 1, 2, 4, 8]
UNS = [1, 0, 0, 0, 0, 1, 1, 1, 1]
K_UNS, K_SGN, K_BOOL, K_NONE = 0, 1, 2, -1


class Case:
    __slots__ = ("fam", "cid", "cls", "spec")

    def __init__(self, fam, cid, cls, spec):
        self.fam, self.cid, self.cls, self.spec = fam, cid, cls, spec


def kind_of(t):
    return K_BOOL if t == 0 else (K_UNS if UNS[t] else K_SGN)


def fw_pairs():
    out = [(0, 1)]
    for t in range(1, 9):
        for w in range(1, SIZE[t] * 8 + 1):
            out.append((t, w))
    return out


def wbucket(w):
    return "w=1" if w == 1 else "w=2..31" if w < 32 else "w=32..63" if w < 64 else "w=64"


# ---------------------------------------------------------------------------------------------- (a) bit-fields
def field_decl(spec, name):
    """spec: ('none',) | ('bf', t, w) | ('unnamed', t, w) | ('mem', t)"""
    k = spec[0]
    if k == "none":
        return ""
    if k == "bf":
        return "%s %s:%d; " % (TYPES[spec[1]], name, spec[2])
    if k == "unnamed":
        return "%s :%d; " % (TYPES[spec[1]], spec[2])
    if k == "mem":
        return "%s %s; " % (TYPES[spec[1]], name)
    raise ValueError(k)


def field_row(spec):
    k = spec[0]
    if k in ("none", "unnamed"):
        return K_NONE, 0
    if k == "bf":
        return kind_of(spec[1]), spec[2]
    return kind_of(spec[1]), SIZE[spec[1]] * 8


def spec_name(spec):
    k = spec[0]
    if k == "none":
        return "none"
    if k == "mem":
        return "mem-" + TN[spec[1]]
    return "%s-%s:%d" % (k, TN[spec[1]], spec[2])


def bf_cases(tier):
    cases = []
    FW = fw_pairs()
    ULONG = 8
    seen = set()

    def add(t, w, pre, post, emb):
        cid = "bf/%s/%s:%d/pre=%s/post=%s" % (emb, TN[t], w, spec_name(pre), spec_name(post))
        if cid in seen:
            return
        seen.add(cid)
        fam = "bitfield"
        if pre[0] == "unnamed":
            fam = "bitfield-after-unnamed"
        elif pre[0] == "mem" or post[0] == "mem":
            fam = "bitfield-next-to-member"
        if emb not in ("ptr",):
            fam += "-" + emb
        kind = "_Bool" if t == 0 else ("unsigned" if UNS[t] else "signed")
        cases.append(Case("bf", cid, "%s|%s %s" % (fam, kind, wbucket(w)), (t, w, pre, post, emb)))

    post0 = ("bf", ULONG, 5)
    # A1: every (type,width) x every preceding width 0..63 (unsigned long pre so that all 64 offsets exist)
    for t, w in FW:
        for p in range(64):
            add(t, w, ("none",) if p == 0 else ("bf", ULONG, p), post0, "ptr")
    # A2: ordinary members as neighbours (storage unit of f may cover them)
    for t, w in FW:
        for pm in (1, 2, 3):
            add(t, w, ("mem", pm), ("mem", 1), "ptr")
        add(t, w, ("mem", 5), ("mem", 7), "ptr")
    # A3: unnamed bit-field (incl. zero width) before f
    for t, w in FW:
        for uw in (0, 1, 7, 33):
            add(t, w, ("unnamed", ULONG, uw), post0, "ptr")
    # A4: other ways to reach the field
    embs = ("dot", "anon", "union", "nested", "arr", "local")
    pres = (0, 5, 29, 61) if tier == "quick" else range(64)
    for emb in embs:
        for t, w in FW:
            if tier == "quick" and not (w in (1, 2, 7, 8, 9, 15, 16, 17, 31, 32, 33, 63, 64) or w == SIZE[t] * 8):
                continue
            for p in pres:
                add(t, w, ("none",) if p == 0 else ("bf", ULONG, p), post0, emb)
    if tier == "thorough":
        # A5: every (type,width) as pre, and as post
        for t, w in FW:
            for pt, pw in FW:
                add(t, w, ("bf", pt, pw), ("bf", 7, 3), "ptr")
        for t, w in FW:
            for pt, pw in FW:
                for p in (("none",), ("bf", 7, 1), ("bf", ULONG, 31)):
                    add(t, w, p, ("bf", pt, pw), "ptr")
    return cases


BF_OPS = ["OP_GETF", "OP_GETPRE", "OP_GETPOST", "OP_SET", "OP_ADD", "OP_SUB", "OP_OR", "OP_AND", "OP_XOR", "OP_SHL", "OP_SHR",
          "OP_PREINC", "OP_POSTINC", "OP_PREDEC", "OP_POSTDEC", "OP_SETPRE", "OP_SETPOST", "OP_G0", "OP_G1", "OP_S", "OP_SSZ", "OP_OSZ"]


def bf_unit_one(i, c):
    t, w, pre, post, emb = c.spec
    body = field_decl(pre, "pre") + "%s f:%d; " % (TYPES[t], w) + field_decl(post, "post")
    base = "p->s"
    sdef = "struct S%d { %s};" % (i, body)
    odef = "struct O%d { char g0[16]; struct S%d s; char g1[16]; };" % (i, i)
    prolog = epilog = ""
    if emb == "dot":
        base = "o%d.s" % i
    elif emb == "anon":
        sdef = "struct S%d { struct { %s}; };" % (i, body)
    elif emb == "union":
        sdef = "struct S%d { union { struct { %s}; unsigned long raw[3]; }; };" % (i, body)
    elif emb == "nested":
        sdef = "struct S%d { char lead; struct { %s} in; };" % (i, body)
        base = "p->s.in"
    elif emb == "arr":
        odef = "struct O%d { char g0[16]; struct S%d s[2]; char g1[16]; };" % (i, i)
        base = "p->s[1]"
    elif emb == "local":
        # operate on an automatic copy; copy back so that the driver sees the effect
        prolog = "struct O%d l = *p; struct O%d *q = p; p = &l; " % (i, i)
        epilog = "*q = l; "
        base = "l.s"
    F, PR, PO = base + ".f", base + ".pre", base + ".post"
    has_pre = pre[0] in ("bf", "mem")
    has_post = post[0] in ("bf", "mem")
    L = ["case 0: r = %s; break;" % F]
    if has_pre:
        L.append("case 1: r = %s; break;" % PR)
        L.append("case 15: %s = v; break;" % PR)
    if has_post:
        L.append("case 2: r = %s; break;" % PO)
        L.append("case 16: %s = v; break;" % PO)
    for n, op in ((3, "="), (4, "+="), (5, "-="), (6, "|="), (7, "&="), (8, "^="), (9, "<<="), (10, ">>=")):
        L.append("case %d: r = (%s %s v); break;" % (n, F, op))
    L.append("case 11: r = ++%s; break;" % F)
    L.append("case 12: r = %s++; break;" % F)
    L.append("case 13: r = --%s; break;" % F)
    L.append("case 14: r = %s--; break;" % F)
    if emb == "local":
        L.append("case 17: return (long)q->g0; case 18: return (long)q->g1; case 19: return (long)&q->s; case 20: return sizeof(q->s); case 21: return sizeof(*q);")
    else:
        L.append("case 17: return (long)p->g0; case 18: return (long)p->g1; case 19: return (long)&p->s; case 20: return sizeof(p->s); case 21: return sizeof(*p);")
    fn = "long a%d(struct O%d *p, int op, unsigned long v) { long r = 0; %sswitch (op) {\n%s\n} %sreturn r; }" % (i, i, prolog, "\n".join(L), epilog)
    return "%s\n%s\nstruct O%d o%d;\n%s\n" % (sdef, odef, i, i, fn)


def bf_build(cases):
    u, rows = [], []
    for i, c in enumerate(cases):
        u.append(bf_unit_one(i, c))
        t, w, pre, post, emb = c.spec
        pk, pw = field_row(pre)
        qk, qw = field_row(post)
        rows.append("{%d,%d,%d,%d,%d,%d}" % (kind_of(t), w, pk, pw, qk, qw))
    u.append("void *c04_obj[] = {%s};" % ",".join("&o%d" % i for i in range(len(cases))))
    u.append("long (*c04_acc[])(void *, int, unsigned long) = {%s};" % ",".join("(void *)a%d" % i for i in range(len(cases))))
    d = ['#include "%s"' % HDR, "extern void *c04_obj[]; extern acc_t c04_acc[];",
         "static const BfRow rows[] = {%s};" % ",\n".join(rows),
         "int main(void) { install_traps(); int n = sizeof rows / sizeof rows[0];",
         "  for (int i = 0; i < n; i++) { begin_case(i); GUARDED(bf_case(c04_acc[i], c04_obj[i], &rows[i])); end_case(); }",
         '  printf("S evals=%ld skipped=%ld\\n", n_evals, n_skipped); return 0; }']
    return "\n".join(u) + "\n", "\n".join(d) + "\n"



# ---------------------------------------------------------------------------------------------- (b) aggregate copy
COPY_SHAPES = {   # name -> (first member decl or None, its size, minimum payload)
    "c": (None, 0), "s": ("short a", 2), "i": ("int a", 4), "l": ("long a", 8), "d": ("double a", 8), "f": ("float a", 4),
    "ld": ("long double a", 16), "a16": ("A16", 0), "u": ("UNION", 0), "sc": ("struct { char x; short y; } a", 4),
}
# ways that only move the aggregate, and ways that CONSUME THE VALUE of an aggregate assignment expression (6.5.16p3: "the value of
# the left operand after the assignment"): chained assignment, member of an assignment, assignment as argument / return value /
# ?: arm / comma operand / statement-expression value / initialiser.
COPY_WAYS = ["assign", "deref", "init", "arg", "arg7", "ret", "cond", "comma", "chain", "elem", "ptrarith", "member-of-ret",
             "assign-chain-elem", "assign-chain-deref", "assign-member", "assign-member-scalar", "assign-arg", "assign-ret",
             "assign-cond", "assign-comma", "assign-stmtexpr", "assign-init"]
# payload sizes: every size up to 72 (past the 16/32/64-byte boundaries at which a code generator plausibly switches from
# unrolled moves to wider moves, string instructions or a loop) and the neighbourhoods of 128, 256, 512, plus 96, 1000 and a page
COPY_SIZES = list(range(1, 73)) + [96, 127, 128, 129, 255, 256, 257, 511, 512, 1000, 4096]
COPY_SIZES_THOROUGH = list(range(1, 131)) + [255, 256, 257, 511, 512, 513, 1000, 1023, 1024, 1025, 2048, 4095, 4096, 4097, 8192]
COPY_MAX = 8192 + 16      # largest sizeof the driver accepts (payload + alignment padding); COPY_MAX in harness/c04_drv.h


def copy_sizes(tier):
    return COPY_SIZES if tier == "quick" else COPY_SIZES_THOROUGH


def copy_weight(c):
    return 40 + c.spec[1]


def copy_cases(tier):
    cases = []
    for sh, (m, msz) in COPY_SHAPES.items():
        for n in copy_sizes(tier):
            if n <= msz:
                continue
            for way in COPY_WAYS:
                cases.append(Case("cp", "cp/%s/%d/%s" % (sh, n, way), "copy|%s %s" % (sh, way), (sh, n, way)))
    return cases


def copy_unit_one(i, c):
    sh, n, way = c.spec
    m, msz = COPY_SHAPES[sh]
    A, D = "struct A%d" % i, "struct D%d" % i
    mems = []   # (expr relative to an A lvalue, size expr)
    cn = n - msz            # length of the trailing char array c[]
    if m is None:
        adef = "%s { char c[%d]; };" % (A, n); mems = [("c", n)]
    elif m == "A16":
        adef = "%s { _Alignas(16) char c[%d]; };" % (A, n); mems = [("c", n)]
    elif m == "UNION":
        A, D = "union A%d" % i, "struct D%d" % i
        adef = "%s { char c[%d]; int w; };" % (A, n); mems = [("c", n)]
    elif sh == "sc":
        adef = "%s { %s; char c[%d]; };" % (A, m, cn); mems = [("a.x", 1), ("a.y", 2), ("c", cn)]
    else:
        adef = "%s { %s; char c[%d]; };" % (A, m, cn); mems = [("a", msz), ("c", cn)]
    arr = way in ("elem", "ptrarith", "assign-chain-elem", "assign-ret")
    ddef = "%s { char g0[16]; %s d%s; char g1[16]; };" % (D, A, "[3]" if arr else "")
    flags, dests = [0], ["z.d"]
    dests2 = None           # a second destination that must receive the same bytes (chained assignments)
    helpers = ""
    if way == "assign":
        body = "dst->d = *src;"
    elif way == "deref":
        body = "%s *q = &dst->d; *q = *src;" % A
    elif way == "init":
        body = ("long m = c04_mark(); char ga[16]; char gb[16]; c04_reg(ga, 16, 16, 1); c04_reg(gb, 16, 16, 2); { %s t = *src; c04_verify(); dst->d = t; } c04_drop(m);" % A)
    elif way == "arg":
        helpers = "static long take%d(%s a, %s *dst) { dst->d = a; return 0; }\n" % (i, A, D)
        body = "take%d(*src, dst);" % i
    elif way == "arg7":   # aggregate behind six register arguments (passed in memory or in the remaining registers)
        helpers = "static long take%d(long a1, long a2, long a3, long a4, long a5, %s *dst, %s a) { dst->d = a; return a1 + a5; }\n" % (i, D, A)
        body = "take%d(1, 2, 3, 4, 5, dst, *src);" % i
    elif way == "ret":
        helpers = "static %s give%d(%s *s) { return *s; }\n" % (A, i, A)
        body = "dst->d = give%d(src);" % i
    elif way == "member-of-ret":
        helpers = "struct W%d { char lead; %s in; }; static struct W%d give%d(%s *s) { struct W%d w; w.lead = 1; w.in = *s; return w; }\n" % (i, A, i, i, A, i)
        body = "dst->d = give%d(src).in;" % i
    elif way == "cond":
        body = "dst->d = flag ? *src : *src2;"; flags = [0, 1]; dests = ["z.d", "z.d"]
    elif way == "comma":
        body = "dst->d = (flag++, *src);"
    elif way == "chain":
        body = "%s t; dst->d = t = *src;" % A
    elif way == "elem":
        body = "dst->d[flag] = *src;"; flags = [1, 2]; dests = ["z.d[1]", "z.d[2]"]
    elif way == "ptrarith":
        body = "*(dst->d + flag) = *src;"; flags = [0, 2]; dests = ["z.d[0]", "z.d[2]"]
    # ---- the value of an aggregate assignment expression is consumed
    elif way == "assign-chain-elem":      # p[2] = p[flag] = z: both elements receive the source, the third stays
        body = "dst->d[2] = dst->d[flag] = *src;"; flags = [0, 1]; dests = ["z.d[2]", "z.d[2]"]; dests2 = ["z.d[0]", "z.d[1]"]
    elif way == "assign-chain-deref":     # three-link chain through pointers to automatic objects
        body = "%s t[2]; %s *q = t; dst->d = q[1] = *q = *src;" % (A, A)
    elif way == "assign-member":          # (a = b).m with an aggregate member m
        helpers = "struct W%d { char lead; %s in; };\n" % (i, A)
        body = "struct W%d w, w2; w2.lead = 1; w2.in = *src; dst->d = (w = w2).in;" % i
    elif way == "assign-member-scalar":   # (a = b).m with scalar members: every byte of the payload travels through one
        first = "" if sh in ("c", "a16", "u") else " c04_cpy(&dst->d.a, &t.a, sizeof t.a);"
        body = "%s t; for (long k = 0; k < %d; k++) dst->d.c[k] = (t = *src).c[k];%s" % (A, n if sh in ("c", "a16", "u") else cn, first)
    elif way == "assign-arg":             # f(a = b)
        helpers = "static long take%d(%s a, %s *dst) { dst->d = a; return 0; }\n" % (i, A, D)
        body = "%s t; take%d(t = *src, dst);" % (A, i)
    elif way == "assign-ret":             # return *d = *s;
        helpers = "static %s pass%d(%s *d, %s *s) { return *d = *s; }\n" % (A, i, A, A)
        body = "dst->d[2] = pass%d(&dst->d[flag], src);" % i; flags = [0, 1]; dests = ["z.d[2]", "z.d[2]"]; dests2 = ["z.d[0]", "z.d[1]"]
    elif way == "assign-cond":            # assignments as both arms of ?:
        body = "%s t; dst->d = flag ? (t = *src) : (t = *src2);" % A; flags = [0, 1]; dests = ["z.d", "z.d"]
    elif way == "assign-comma":           # assignment as the right operand of a comma (and one as the discarded left operand)
        body = "%s t, u; dst->d = (u = *src2, t = *src);" % A
    elif way == "assign-stmtexpr":        # assignment as the value of a statement expression
        body = "%s t; dst->d = ({ flag++; t = *src; });" % A
    elif way == "assign-init":            # assignment as an initialiser
        body = "%s t; { %s u = t = *src; dst->d = u; }" % (A, A)
    else:
        raise ValueError(way)
    sel = [0 if f else 1 for f in flags] if way in ("cond", "assign-cond") else [0] * len(flags)
    g = ["case 0: return sizeof(%s); case 1: return sizeof(%s); case 3: return %d;" % (A, D, len(mems)),
         "case 100: return (long)&dobj%d; case 101: return (long)&sobj%d; case 102: return (long)&tobj%d;" % (i, i, i)]
    for j, dx in enumerate(dests):
        g.append("case %d: return (char *)&%s - (char *)&z;" % (20 + j, dx))
    for j, dx in enumerate(dests2 or []):
        g.append("case %d: return (char *)&%s - (char *)&z;" % (30 + j, dx))
    for j, (mx, ms) in enumerate(mems):
        g.append("case %d: return (char *)&y.%s - (char *)&y; case %d: return sizeof(y.%s);" % (40 + 2 * j, mx, 41 + 2 * j, mx))
    unit = ("%s\n%s\n%s dobj%d; %s sobj%d, tobj%d;\n%slong b%d(%s *dst, %s *src, %s *src2, long flag) { %s return flag; }\n"
            "long g%d(long k) { static %s z; static %s y; switch (k) {\n%s\n} return -1; }\n"
            % (adef, ddef, D, i, A, i, i, helpers, i, D, A, A, body, i, D, A, "\n".join(g)))
    row = "{%d,{%s},{%s},%d}" % (len(flags), ",".join(str(f) for f in (flags + [0])[:2]), ",".join(str(f) for f in (sel + [0])[:2]), 1 if dests2 else 0)
    return unit, row


CB_DECL = ("long c04_reg(void *, long, long, long); long c04_verify(void); long c04_mark(void); long c04_drop(long); long c04_tag(void *, long, long);\n"
           "long c04_id(long); long c04_val(long, long, long, unsigned long); long c04_wrote(long, long, long, unsigned long); long c04_same(void *, void *, long, long);\n"
           "long c04_zero(void *, long, long); long c04_wrote_ld(long); long c04_path(long, void *); long c04_add3(long, long, long); void *alloca(unsigned long);\n"
           "long c04_cpy(void *, void *, long); long c04_vla(void *, long, long, long); long c04_expect(long, long, long);\n"
           "long c04_stored(void *, long, long, unsigned long); void *c04_buf(void);\n"
           "long c04_pxv(long, long); long c04_mk(void *, long); long c04_at(void *, void *, long, long, long, long); long c04_marked(long, long, long, long, long);\n"
           "long c04_rd(void *, long, long, long, long, long); long c04_pd(long, long, long);\n")


def copy_build(cases):
    u, rows = [CB_DECL], []
    for i, c in enumerate(cases):
        a, r = copy_unit_one(i, c)
        u.append(a); rows.append(r)
    n = len(cases)
    u.append("void *c04_fn[] = {%s};" % ",".join("(void *)b%d" % i for i in range(n)))
    u.append("void *c04_geo[] = {%s};" % ",".join("(void *)g%d" % i for i in range(n)))
    d = ['#include "%s"' % HDR, "extern void *c04_fn[], *c04_geo[];", "long c04_path(long i, void *p) { return 0; }",
         "static const CopyRow rows[] = {%s};" % ",\n".join(rows),
         'int main(void) { install_traps(); cb_family = "copy-init"; int n = sizeof rows / sizeof rows[0];',
         "  for (int i = 0; i < n; i++) { begin_case(i); reg_reset(); GUARDED(copy_case((copy_t)c04_fn[i], (geo_t)c04_geo[i], &rows[i])); end_case(); }",
         '  printf("S evals=%ld skipped=%ld\\n", n_evals, n_skipped); return 0; }']
    return "\n".join(u) + "\n", "\n".join(d) + "\n"


# ---------------------------------------------------------------------------------------------- (c) member access paths
PATH_K = ["S", "U", "A", "AS", "AU", "UAS"]


class _G:
    def __init__(self, phase=0):
        self.nl = phase; self.nn = 0

    def leaf(self):
        t = 1 + (self.nl * 3) % 8
        self.nl += 1
        return t

    def node(self):
        self.nn += 1
        return self.nn


def path_type(shape, g):
    """-> (type prefix, declarator suffix, leaves[(steps, type index, key)])"""
    if not shape:
        t = g.leaf()
        return TYPES[t], "", [([], t, [])]
    k, rest = shape[0], shape[1:]
    nid = g.node()
    if k == "A":
        pre, suf, lv = path_type(rest, g)
        return pre, "[3]" + suf, [([("[", j)] + s, t, [(nid, j, False)] + key) for j in range(3) for (s, t, key) in lv]
    la, lb, lc = g.leaf(), g.leaf(), g.leaf()
    cp, cs, clv = path_type(rest, g)
    kid = "k%d" % nid

    def child(keys):
        return [([(".", kid)] + s, t, keys + key) for (s, t, key) in clv]

    def leaf(name, t, keys):
        return ([(".", "%s%d" % (name, nid))], t, keys)
    A, B, Cc = "%s a%d; " % (TYPES[la], nid), "%s b%d; " % (TYPES[lb], nid), "%s c%d; " % (TYPES[lc], nid)
    K = "%s %s%s; " % (cp, kid, cs)
    if k == "S":
        return "struct { %s%s%s}" % (A, K, Cc), "", [leaf("a", la, [(nid, 0, False)])] + child([(nid, 1, False)]) + [leaf("c", lc, [(nid, 2, False)])]
    if k == "U":
        return "union { %s%s%s}" % (A, K, Cc), "", [leaf("a", la, [(nid, 0, True)])] + child([(nid, 1, True)]) + [leaf("c", lc, [(nid, 2, True)])]
    n2 = g.node()
    if k == "AS":
        return ("struct { %sstruct { %s%s}; %s}" % (A, B, K, Cc), "",
                [leaf("a", la, [(nid, 0, False)]), leaf("b", lb, [(nid, 1, False), (n2, 0, False)])] + child([(nid, 1, False), (n2, 1, False)]) + [leaf("c", lc, [(nid, 2, False)])])
    if k == "AU":
        return ("struct { %sunion { %s%s}; %s}" % (A, B, K, Cc), "",
                [leaf("a", la, [(nid, 0, False)]), leaf("b", lb, [(nid, 1, False), (n2, 0, True)])] + child([(nid, 1, False), (n2, 1, True)]) + [leaf("c", lc, [(nid, 2, False)])])
    if k == "UAS":
        return ("union { %sstruct { %s%s}; %s}" % (A, B, K, Cc), "",
                [leaf("a", la, [(nid, 0, True)]), leaf("b", lb, [(nid, 1, True), (n2, 0, False)])] + child([(nid, 1, True), (n2, 1, False)]) + [leaf("c", lc, [(nid, 2, True)])])
    raise ValueError(k)


def may_overlap(k1, k2):
    for a, b in zip(k1, k2):
        if a != b:
            return a[2] and a[0] == b[0]
    return True


def path_expr(base, steps, variant):
    x = base
    for kind, v in steps:
        if kind == ".":
            x = "(&(%s))->%s" % (x, v) if variant == 2 else "%s.%s" % (x, v)
        else:
            x = "(*(%s + %d))" % (x, v) if variant == 2 else "%s[%d]" % (x, v)
    return x


def path_cases(tier):
    cases = []
    maxd = 3
    for d in range(1, maxd + 1):
        for shape in itertools.product(PATH_K, repeat=d):
            for where in ("global", "file-literal", "block-literal"):
                # phase rotates the scalar types of the leaves (char..unsigned long) through the shape
                for ph in (range(4) if tier == "quick" else range(8)) if where == "global" else (0,):
                    cases.append(Case("pa", "pa/%s/%s/ph%d" % ("-".join(shape), where, ph), "paths|%s" % where, (shape, where, ph)))
    return cases


def path_unit_one(i, c):
    shape, where, ph = c.spec
    pre, suf, leaves = path_type(shape, _G(ph))
    R = "struct R%d" % i
    L = ["case -1: return sizeof(*p); case -2: return (long)&p->r; case -3: return sizeof(p->r);"]
    for k, (steps, t, key) in enumerate(leaves):
        e0, e2, eg = path_expr("p->r", steps, 0), path_expr("p->r", steps, 2), path_expr("o%d.r" % i, steps, 0)
        b = k * 8
        L.append("case %d: return %s; case %d: %s = v; break; case %d: return (long)&%s; case %d: %s += v; break;" % (b, e0, b + 1, e0, b + 2, e0, b + 3, e0))
        L.append("case %d: return %s; case %d: %s = v; break; case %d: return %s; case %d: %s = v; break;" % (b + 4, e2, b + 5, e2, b + 6, eg, b + 7, eg))
    unit = ("%s { char g0[16]; %s r%s; char g1[16]; };\n%s o%d;\n"
            "long c%d(%s *p, long leaf, long op, unsigned long v) { switch (leaf < 0 ? leaf - op : leaf * 8 + op) {\n%s\n} return 0; }\n"
            % (R, pre, suf, R, i, i, R, "\n".join(L)))
    if where == "global":
        unit += "long e%d(long x) { return c04_path(%d, &o%d); }\n" % (i, i, i)
    elif where == "file-literal":
        unit += "%s *cl%d = &(%s){ {1} }; %s *cm%d = &(%s){ {2} };\n" % (R, i, R, R, i, R)
        unit += ("long e%d(long x) { long m = c04_mark(); c04_reg(&o%d, sizeof o%d, 1, 0); c04_reg(cm%d, sizeof *cm%d, 1, 2); c04_path(%d, cl%d); c04_drop(m); return 0; }\n"
                 % (i, i, i, i, i, i, i))
    else:
        unit += ("long e%d(long x) { long m = c04_mark(); char g[24]; %s *q1 = &(%s){ {1} }; %s *q2 = &(%s){ {2} }; long a = x;\n"
                 "  c04_reg(g, 24, 16, 0); c04_reg(q2, sizeof *q2, 1, 2); c04_path(%d, q1); c04_drop(m); return a - x; }\n"
                 % (i, R, R, R, R, i))
    n = len(leaves)
    ov = [1 if may_overlap(leaves[a][2], leaves[b][2]) else 0 for a in range(n) for b in range(n)]
    row = ("static const u8 sz%d[] = {%s}, sg%d[] = {%s}, ov%d[] = {%s};\n" %
           (i, ",".join(str(SIZE[t]) for _, t, _ in leaves), i, ",".join(str(1 - UNS[t]) for _, t, _ in leaves), i, ",".join(map(str, ov))))
    return unit, row, "{%d, sz%d, sg%d, ov%d}" % (n, i, i, i), 1 if where == "global" else 0


def path_build(cases):
    u, pre, rows, glob = [CB_DECL], [], [], []
    for i, c in enumerate(cases):
        a, p, r, gl = path_unit_one(i, c)
        u.append(a); pre.append(p); rows.append(r); glob.append(str(gl))
    n = len(cases)
    u.append("void *c04_fn[] = {%s};" % ",".join("(void *)c%d" % i for i in range(n)))
    u.append("void *c04_ent[] = {%s};" % ",".join("(void *)e%d" % i for i in range(n)))
    d = ['#include "%s"' % HDR, "extern void *c04_fn[], *c04_ent[];"] + pre + [
         "static const PathRow rows[] = {%s};" % ",\n".join(rows),
         "static const int isglob[] = {%s};" % ",".join(glob),
         "long c04_path(long i, void *p) { const char *f = cb_family; path_case((path_t)c04_fn[i], &rows[i], p, isglob[i]); cb_family = f; return 0; }",
         'int main(void) { install_traps(); cb_family = "paths-literal"; int n = sizeof rows / sizeof rows[0];',
         "  for (int i = 0; i < n; i++) { begin_case(i); reg_reset(); GUARDED(if (((long (*)(long))c04_ent[i])(5) != 0) viol(\"paths:local-changed\", \"a local of the enclosing function changed\")); end_case(); }",
         '  printf("S evals=%ld skipped=%ld\\n", n_evals, n_skipped); return 0; }']
    return "\n".join(u) + "\n", "\n".join(d) + "\n"


# ---------------------------------------------------------------------------------------------- (d) locals
LOCAL_KINDS = [   # (name, declaration with %s for the variable, alignment the property demands, how to read/write through the name)
    ("char", "char %s", 1, "scalar1"), ("short", "short %s", 2, "scalar2"), ("int", "int %s", 4, "scalar4"), ("long", "long %s", 8, "scalar8"),
    ("ldouble", "long double %s", 16, "opaque16"),
    ("c15", "char %s[15]", 1, "arr15"), ("c16", "char %s[16]", 16, "arr16"), ("c17", "char %s[17]", 16, "arr17"),
    ("c31", "char %s[31]", 16, "arr31"), ("c32", "char %s[32]", 16, "arr32"), ("c33", "char %s[33]", 16, "arr33"),
    ("al32", "_Alignas(32) char %s", 32, "scalar1"), ("st", "struct { int a; char b; } %s", 4, "struct"),
]


def local_cases(tier):
    cases = []
    idx = range(len(LOCAL_KINDS))
    for n in range(1, 5):
        for ms in itertools.combinations_with_replacement(idx, n):
            orders = [ms] if tier == "quick" else sorted(set([ms, tuple(reversed(ms))]))
            for od in orders:
                has32 = any(LOCAL_KINDS[k][0] == "al32" for k in od)
                cases.append(Case("lo", "lo/" + ",".join(LOCAL_KINDS[k][0] for k in od), "locals|%s" % ("with-alignas32" if has32 else "plain"), od))
    return cases


def local_unit_one(i, c):
    decl, reg, rd, wr = [], [], [], []
    for j, k in enumerate(c.spec):
        name, dcl, al, how = LOCAL_KINDS[k]
        v = "v%d" % j
        decl.append(dcl % v + ";")
        reg.append("long k%d = c04_reg(&%s, sizeof %s, %d, %d);" % (j, v, v, al, j))
        if how.startswith("scalar"):
            sz = int(how[6:])
            rd.append("c04_val(k%d, 0, %d, (unsigned long)%s);" % (j, sz, v))
            wr.append("%s = %d; c04_wrote(k%d, 0, %d, %d);" % (v, 0x11 + j, j, sz, 0x11 + j))
        elif how.startswith("arr"):
            n = int(how[3:])
            rd.append("c04_val(k%d, 0, 1, (unsigned long)%s[0]); c04_val(k%d, %d, 1, (unsigned long)%s[%d]);" % (j, v, j, n - 1, v, n - 1))
            wr.append("%s[0] = %d; c04_wrote(k%d, 0, 1, %d); %s[%d] = %d; c04_wrote(k%d, %d, 1, %d);" % (v, 0x21 + j, j, 0x21 + j, v, n - 1, 0x31 + j, j, n - 1, 0x31 + j))
        elif how == "struct":
            rd.append("c04_val(k%d, 0, 4, (unsigned long)%s.a); c04_val(k%d, (char *)&%s.b - (char *)&%s, 1, (unsigned long)%s.b);" % (j, v, j, v, v, v))
            wr.append("%s.b = %d; c04_wrote(k%d, (char *)&%s.b - (char *)&%s, 1, %d); %s.a = %d; c04_wrote(k%d, 0, 4, %d);" % (v, 0x41 + j, j, v, v, 0x41 + j, v, 0x01020304 + j, j, 0x01020304 + j))
        elif how == "opaque16":
            wr.append("%s = 1.5L; c04_wrote_ld(k%d);" % (v, j))
    return ("long d%d(long x) { %s long keep = x; long m = c04_mark();\n  %s\n  c04_id(x); %s\n  c04_verify(); %s\n  c04_verify(); c04_drop(m); return keep + 1; }\n"
            % (i, " ".join(decl), " ".join(reg), " ".join(rd), " ".join(wr)))


def simple_build(prefix, one, family, extra=""):
    def build(cases):
        u, rows = [CB_DECL], []
        for i, c in enumerate(cases):
            r = one(i, c)
            if isinstance(r, tuple):
                u.append(r[0]); rows.append(r[1])
            else:
                u.append(r); rows.append("{5, 6, 0, {0}}")
        n = len(cases)
        u.append("void *c04_fn[] = {%s};" % ",".join("(void *)%s%d" % (prefix, i) for i in range(n)))
        d = ['#include "%s"' % HDR, "extern void *c04_fn[];", "long c04_path(long i, void *p) { return 0; }",
             "static const CallRow rows[] = {%s};" % ",\n".join(rows),
             # loop state is static: a unit that smashes the stack must not derail the enumeration
             'int main(void) { static volatile int i, n; install_traps(); cb_family = "%s"; %s n = sizeof rows / sizeof rows[0];' % (family, extra),
             "  for (i = 0; i < n; i++) { begin_case(i); GUARDED(call_case((long (*)(long))c04_fn[i], &rows[i])); end_case(); }",
             '  printf("S evals=%ld skipped=%ld\\n", n_evals, n_skipped); return 0; }']
        return "\n".join(u) + "\n", "\n".join(d) + "\n"
    return build


# ---------------------------------------------------------------------------------------------- (e) VLA / alloca
VA_SIZES = [0, 1, 7, 8, 15, 16, 17, 31, 32, 100, 256, 1000, 4096]
VA_CTX = ["stmt", "two-live", "loop", "arg-d0", "arg-d1", "arg-d2", "arg-d3", "binop-lhs", "binop-rhs", "binop-deep", "nested-calls", "after-struct-arg", "cond-arm"]
VA_KINDS = ["alloca", "vla-char", "vla-long", "vla-2d"]


def va_contexts(tier):
    return VA_CTX + (["arg-d4", "arg-d5"] if tier == "thorough" else [])


def va_cases(tier):
    cases = []
    for kind in VA_KINDS:
        for ctx_ in va_contexts(tier):
            for n in VA_SIZES:
                if n == 0 and kind != "alloca":
                    continue          # a VLA whose size is not > 0 is undefined (6.7.6.2p5); counted in skipped_undefined by run()
                cases.append(Case("va", "va/%s/%s/%d" % (kind, ctx_, n), "vla-alloca|%s %s" % (kind, ctx_.split("-d")[0]), (kind, ctx_, n)))
    return cases


def va_unit_one(i, c):
    kind, cx, n = c.spec
    x = 5
    if kind != "alloca" and n == 0:
        return "long v%d(long x) { return 0; }\n" % i, "{%d, 0, 1, {0}}" % x     # a VLA of size 0 is undefined (6.7.6.2p5): skipped
    # how a block of n bytes (or n elements) comes to exist; `blk(ret)` is an expression that creates, registers and yields ret
    if kind == "alloca":
        decl = lambda nm, cnt: "char *%s = alloca(%s);" % (nm, cnt)
        size = lambda nm, cnt: "%s" % cnt
        blk = lambda ret: "c04_tag(alloca(n), n, %s)" % ret
    elif kind == "vla-char":
        decl = lambda nm, cnt: "char %s[%s];" % (nm, cnt)
        size = lambda nm, cnt: "sizeof %s" % nm
        blk = lambda ret: "({ char w[n]; long t = c04_mark(); long r_ = c04_tag(w, sizeof w, %s); c04_id(r_); c04_drop(t); r_; })" % ret
    elif kind == "vla-long":
        decl = lambda nm, cnt: "long %s[%s];" % (nm, cnt)
        size = lambda nm, cnt: "sizeof %s" % nm
        blk = lambda ret: "({ long w[n]; long t = c04_mark(); long r_ = c04_tag(w, sizeof w, %s); c04_id(r_); c04_drop(t); r_ + (sizeof w != 8 * n) * 100000; })" % ret
    else:
        decl = lambda nm, cnt: "int %s[%s][3];" % (nm, cnt)
        size = lambda nm, cnt: "sizeof %s" % nm
        blk = lambda ret: ("({ int w[n][3]; long t = c04_mark(); long r_ = c04_tag(w, sizeof w, %s); c04_id(r_); c04_drop(t); "
                           "r_ + (sizeof w != 12 * n || (char *)&w[n - 1][2] - (char *)w != 12 * n - 4 || sizeof w[0] != 12) * 100000; })" % ret)
    head = "long a = x * 3; char b[20]; long m = c04_mark(); c04_reg(b, 20, 16, 1); long r = 0;"
    tail = "c04_verify(); c04_drop(m); return r + (a != x * 3) * 1000000;"
    helpers = ""
    if cx == "stmt":
        body = "%s c04_tag(p, %s, 0); r = c04_id(x) + 1;" % (decl("p", "n"), size("p", "n")); want = x + 1
    elif cx == "two-live":
        body = "%s %s c04_tag(p, %s, 0); c04_tag(q, %s, 0); r = c04_id(x) + 2;" % (decl("p", "n"), decl("q", "n + 9"), size("p", "n"), size("q", "n + 9")); want = x + 2
    elif cx == "loop":
        if kind == "alloca":
            body = "for (long i = 0; i < 40; i++) { char *p = alloca(n); c04_tag(p, n, 0); r += c04_id(i); }"
        else:
            body = "for (long i = 0; i < 40; i++) { long t = c04_mark(); %s c04_tag(p, sizeof p, 0); r += c04_id(i); c04_drop(t); }" % decl("p", "n")
        want = sum(range(40))
    elif cx.startswith("arg-d"):
        d = int(cx[5:])
        e = blk("5"); want = 5
        for lev in range(d + 1):
            # the operands on both sides are negative so that every byte of a pending temporary matters
            e = "c04_add3(%d - x, %s, %d)" % (lev, e, -(lev + 1)); want = (lev - x) * 100 + want * 10 - (lev + 1)
        body = "r = %s;" % e
    elif cx == "binop-lhs":
        body = "r = %s + (x * -3);" % blk("5"); want = 5 - 3 * x
    elif cx == "binop-rhs":
        body = "r = (x * -3) + %s;" % blk("5"); want = 5 - 3 * x
    elif cx == "binop-deep":
        body = "r = (%s + c04_id(x) * -4 + x * -3) + x * -2 - x;" % blk("5"); want = 5 - 10 * x
    elif cx == "nested-calls":
        helpers = ("static long rec%d(long d, long x) { char *q = alloca(d * 8 + 1); long w[d + 1]; long t = c04_mark(); c04_tag(q, d * 8 + 1, 0); c04_tag(w, sizeof w, 0);\n"
                   "  long r = d ? rec%d(d - 1, x) + 1 : c04_id(x); c04_drop(t); return r; }\n" % (i, i))
        body = "%s c04_tag(p, %s, 0); r = rec%d(3, x);" % (decl("p", "n"), size("p", "n"), i); want = x + 3
    elif cx == "after-struct-arg":
        helpers = "struct Big%d { long q[5]; }; static long big%d(struct Big%d s, long y) { return s.q[0] + s.q[4] * 10 + y; }\n" % (i, i, i)
        body = "struct Big%d s = {{1, 2, 3, 4, 5}}; r = big%d(s, %s);" % (i, i, blk("7")); want = 1 + 50 + 7
    elif cx == "cond-arm":
        body = "r = x ? %s + 1 : 0; r += x > 100 ? %s : 3;" % (blk("5"), blk("9")); want = 9
    cnt = "n"
    unit = "%slong v%d(long x) { long n = c04_id(%d); %s\n  %s\n  %s }\n" % (helpers, i, n, head, body, tail)
    return unit, "{%d, %d, 0, {0}}" % (x, want)


# ---------------------------------------------------------------------------------------------- (g) VLA types on several paths
# One variably modified type, several places that use it, and control flow that reaches a later place without having
# executed the textually earlier ones.  Every use must see the size the type had when it was established (6.7.6.2p5,
# 6.7.8p8: a typedef's size expression is evaluated when the typedef is reached).
VT_SIZES = [1, 7, 8, 15, 16, 17, 31, 32, 100]
VT_SIZES_THOROUGH = list(range(1, 34)) + [64, 100, 255]     # typedef-nn squares the length: 255 keeps a frame under 1 MB
# form -> pre(nv): statements establishing the type from variable nv; decl/ptr/arr2(name): declarators; tname: type name;
#         es(nv): sizeof in bytes; last/lastoff(nv): subscripts of the last element and its byte offset; elsz; shared: one type
#         object serves all uses (typedef / typeof of an object) - only then may n change after the type was established
VT_FORMS = {
    "typedef-char": dict(pre=lambda v: "typedef char T[%s];" % v, decl="T %s", ptr="T *%s", arr2="T %s[2]", tname="T", pcast="(T *)",
                         es=lambda v: "%s" % v, last=lambda v: "[%s - 1]" % v, lastoff=lambda v: "(%s - 1)" % v, elsz=1, shared=True),
    "typedef-long": dict(pre=lambda v: "typedef long T[%s];" % v, decl="T %s", ptr="T *%s", arr2="T %s[2]", tname="T", pcast="(T *)",
                         es=lambda v: "(8 * %s)" % v, last=lambda v: "[%s - 1]" % v, lastoff=lambda v: "(8 * %s - 8)" % v, elsz=8, shared=True),
    "typedef-2d": dict(pre=lambda v: "typedef int T[%s][3];" % v, decl="T %s", ptr="T *%s", arr2="T %s[2]", tname="T", pcast="(T *)",
                       es=lambda v: "(12 * %s)" % v, last=lambda v: "[%s - 1][2]" % v, lastoff=lambda v: "(12 * %s - 4)" % v, elsz=4, shared=True),
    "typedef-row": dict(pre=lambda v: "typedef short R[%s]; typedef R T[2];" % v, decl="T %s", ptr="T *%s", arr2="T %s[2]", tname="T", pcast="(T *)",
                        es=lambda v: "(4 * %s)" % v, last=lambda v: "[1][%s - 1]" % v, lastoff=lambda v: "(4 * %s - 2)" % v, elsz=2, shared=True),
    "typedef-nn": dict(pre=lambda v: "typedef char T[%s][%s + 1];" % (v, v), decl="T %s", ptr="T *%s", arr2="T %s[2]", tname="T", pcast="(T *)",
                       es=lambda v: "(%s * (%s + 1))" % (v, v), last=lambda v: "[%s - 1][%s]" % (v, v), lastoff=lambda v: "(%s * (%s + 1) - 1)" % (v, v), elsz=1, shared=True),
    "typeof-var": dict(pre=lambda v: "char w0[%s]; c04_vla(w0, sizeof w0, %s, 0);" % (v, v), decl="typeof(w0) %s", ptr="typeof(w0) *%s", arr2="typeof(w0) %s[2]",
                       tname="typeof(w0)", pcast="(typeof(w0) *)", es=lambda v: "%s" % v, last=lambda v: "[%s - 1]" % v, lastoff=lambda v: "(%s - 1)" % v, elsz=1, shared=True,
                       after=lambda v: " c04_expect(sizeof w0, %s, 3);" % v, tail=lambda v: " c04_expect(sizeof w0, %s, 3);" % v),
    "typeof-type": dict(pre=lambda v: "", decl="typeof(long[n]) %s", ptr="typeof(long[n]) *%s", arr2="typeof(long[n]) %s[2]", tname="typeof(long[n])", pcast="(typeof(long[n]) *)",
                        es=lambda v: "(8 * %s)" % v, last=lambda v: "[%s - 1]" % v, lastoff=lambda v: "(8 * %s - 8)" % v, elsz=8, shared=False),
    "written-out": dict(pre=lambda v: "", decl="int %s[n][3]", ptr="int (*%s)[n][3]", arr2="int %s[2][n][3]", tname="int[n][3]", pcast="(int (*)[n][3])",
                        es=lambda v: "(12 * %s)" % v, last=lambda v: "[%s - 1][2]" % v, lastoff=lambda v: "(12 * %s - 4)" % v, elsz=4, shared=False),
}
VT_USES = ["decl", "sizeof-type", "ptr", "array-of", "cast-ptr"]
VT_CAST_SIZES = [1, 17, 100]      # the cast use is enumerated over three lengths only
# flow -> which of the use sites U1 (textually first), U2, U3 run, in order
VT_FLOWS = ["straight", "if-then", "if-else", "switch-first", "switch-mid", "switch-default", "goto-around", "goto-back",
            "loop-flip", "loop-n", "cond-expr", "andand", "n-changed"]
# signature classes: does the textually first use site run first, not at all, or after a later one; did n change meanwhile
VT_FLOW_GROUP = {"straight": "first-site-first", "if-then": "first-site-first", "switch-first": "first-site-first",
                 "if-else": "later-site-only", "switch-mid": "later-site-only", "switch-default": "later-site-only", "goto-around": "later-site-only",
                 "cond-expr": "later-site-only", "andand": "later-site-only",
                 "goto-back": "later-site-first", "loop-flip": "later-site-first", "loop-n": "later-site-first", "n-changed": "n-changed"}
for _f, _F in VT_FORMS.items():
    _F["group"] = "typedef" if _f.startswith("typedef") else "typeof-object" if _f == "typeof-var" else "unshared"


def vt_cases(tier):
    cases = []
    for use in VT_USES:            # uses outermost: the cast-ptr cases (which the pinned tree cannot compile) share batches
        for form, F in VT_FORMS.items():
            for flow in VT_FLOWS:
                if flow == "n-changed" and not F["shared"]:
                    continue          # a type written out at its use is evaluated there: nothing to compare
                for n in (VT_CAST_SIZES if use == "cast-ptr" else VT_SIZES if tier == "quick" else VT_SIZES_THOROUGH):
                    cases.append(Case("vt", "vt/%s/%s/%s/%d" % (form, use, flow, n), "vla-types|%s,%s,%s" % (F["group"], use, VT_FLOW_GROUP[flow]), (form, use, flow, n)))
    return cases


def vt_use(F, use, k, nv, two):
    """one use site (a block); nv names the variable that held the length when the type was established"""
    es, last, lastoff, elsz = F["es"](nv), F["last"](nv), F["lastoff"](nv), F["elsz"]
    after = F.get("after", lambda v: "")(nv)
    if use == "decl":
        names = ["a%d" % k, "b%d" % k] if two else ["a%d" % k]
        b = ""
        for j, nm in enumerate(names):
            b += ("%s; c04_vla(%s, sizeof %s, %s, 0); c04_expect(sizeof *&%s, %s, 0); c04_expect((char *)&%s%s - (char *)%s, %s, 1); %s%s = %d; c04_stored(%s, %s, %d, %d);%s "
                  % (F["decl"] % nm, nm, nm, es, nm, es, nm, last, nm, lastoff, nm, last, 0x51 + j, nm, lastoff, elsz, 0x51 + j, after))
        return b
    if use == "sizeof-type":
        return "c04_expect(sizeof(%s), %s, 0); c04_expect(sizeof(%s) + 1, %s + 1, 0);%s " % (F["tname"], es, F["tname"], es, after)
    if use == "ptr":
        p, q = "p%d" % k, "q%d" % k
        return ("%s = c04_buf(); c04_expect(sizeof *%s, %s, 0); c04_expect((char *)(%s + 1) - (char *)%s, %s, 1); c04_expect((char *)&%s[2] - (char *)%s, 2 * %s, 1); "
                "c04_expect((char *)&(*%s)%s - (char *)%s, %s, 1); %s = %s + 3; c04_expect(%s - %s, 3, 2); c04_expect(%s - %s, -3, 2); c04_expect((char *)&%s[-1]%s - (char *)%s, 2 * %s + %s, 1); "
                "c04_expect((char *)(%s - 2) - (char *)%s, %s, 1);%s "
                % (F["ptr"] % p, p, es, p, p, es, p, p, es, p, last, p, lastoff, F["ptr"] % q, p, q, p, p, q, q, last, p, es, lastoff, q, p, es, after))
    if use == "cast-ptr":
        b, pc = "c%d" % k, F["pcast"]
        return ("char *%s = c04_buf(); c04_expect((char *)(%s%s + 1) - %s, %s, 1); c04_expect((char *)&(%s%s)[2] - %s, 2 * %s, 1); c04_expect((char *)&(*%s%s)%s - %s, %s, 1);%s "
                % (b, pc, b, b, es, pc, b, b, es, pc, b, last, b, lastoff, after))
    if use == "array-of":
        a = "m%d" % k
        return ("%s; c04_vla(%s, sizeof %s, 2 * %s, 0); c04_expect(sizeof %s[0], %s, 0); c04_expect((char *)&%s[1] - (char *)%s, %s, 1); %s[1]%s = 0x63; c04_stored(%s, %s + %s, %d, 0x63);%s "
                % (F["arr2"] % a, a, a, es, a, es, a, a, es, a, last, a, es, lastoff, elsz, after))
    raise ValueError(use)


def vt_unit_one(i, c):
    form, use, flow, n = c.spec
    F = VT_FORMS[form]
    x = 5
    nv = "n0" if flow == "n-changed" else "n"

    def U(k, two=False, expr=False):
        body = "long t%d = c04_mark(); %sr += 1; c04_drop(t%d);" % (k, vt_use(F, use, k, nv, two), k)
        return "({ %s 0; })" % body if expr else "{ %s }" % body
    P = F["pre"]("n")
    head = "long n = c04_id(%d);" % n
    # after the flow: an object established before it must still have its size, whichever use sites ran
    tail = F.get("tail", lambda v: "")(nv)
    if flow == "straight":
        body = "%s %s %s" % (P, U(1), U(2, True)); want = 2
    elif flow == "if-then":
        body = "%s if (x < 100) %s else %s" % (P, U(1), U(2, True)); want = 1
    elif flow == "if-else":
        body = "%s if (x > 100) %s else %s" % (P, U(1), U(2, True)); want = 1
    elif flow in ("switch-first", "switch-mid", "switch-default"):
        c1, c2 = {"switch-first": (5, 6), "switch-mid": (4, 5), "switch-default": (3, 4)}[flow]
        body = "%s switch (x) { case %d: %s break; case %d: %s break; default: %s }" % (P, c1, U(1), c2, U(2, True), U(3, True)); want = 1
    elif flow == "goto-around":
        body = "%s if (x) goto L%d; %s L%d: %s" % (P, i, U(1), i, U(2, True)); want = 1
    elif flow == "goto-back":
        body = "%s goto M%d; B%d: %s goto E%d; M%d: %s goto B%d; E%d: ;" % (P, i, i, U(1), i, i, U(2, True), i, i); want = 2
    elif flow == "loop-flip":
        body = "%s for (long i = 0; i < 3; i++) { if (i == 1) %s else %s }" % (P, U(1), U(2, True)); want = 3
    elif flow == "loop-n":
        head = ""
        body = "for (long i = 0; i < 3; i++) { long tl = c04_mark(); long n = c04_id(%d + 5 * i); %s if (i == 1) %s else %s%s c04_drop(tl); }" % (n, P, U(1), U(2, True), tail); want = 3
        tail = ""
    elif flow == "cond-expr":
        body = "%s long e = x > 100 ? %s : %s; r += e;" % (P, U(1, False, True), U(2, True, True)); want = 1
    elif flow == "andand":
        body = "%s long e = (x > 100 && %s); e += (x < 100 && %s); r += e;" % (P, U(1, False, True), U(2, True, True)); want = 1
    elif flow == "n-changed":
        body = "%s long n0 = n; n += 3; %s n -= 1; %s" % (P, U(1), U(2, True)); want = 2
    else:
        raise ValueError(flow)
    unit = ("long w%d(long x) { long a = x * 3; char b[20]; long m = c04_mark(); c04_reg(b, 20, 16, 1); long r = 0; %s\n  %s\n"
            " %s c04_verify(); c04_drop(m); return r + (a != x * 3) * 1000000; }\n" % (i, head, body, tail))
    return unit, "{%d, %d, 0, {0}}" % (x, want)


# ---------------------------------------------------------------------------------------------- (h) VLA parameters
VP_FORMS = {   # name -> (parameter list after `long n`, caller's array, its size, checks inside the callee)
    "a[n][n]": ("int a[n][n]", "int buf[n][n]", "4 * n * n", "c04_expect(sizeof a[0], 4 * n, 0); c04_expect((char *)&a[n - 1][n - 1] - (char *)a, 4 * n * n - 4, 1); a[n - 1][n - 1] = 77; c04_stored(a, 4 * n * n - 4, 4, 77);"),
    "(*a)[n]": ("int (*a)[n]", "int buf[n][n]", "4 * n * n", "c04_expect(sizeof *a, 4 * n, 0); c04_expect((char *)(a + 1) - (char *)a, 4 * n, 1); a[n - 1][n - 1] = 77; c04_stored(a, 4 * n * n - 4, 4, 77);"),
    "a[][n]": ("long a[][n]", "long buf[3][n]", "24 * n", "c04_expect(sizeof a[0], 8 * n, 0); c04_expect((char *)&a[2][n - 1] - (char *)a, 24 * n - 8, 1); a[2][n - 1] = 77; c04_stored(a, 24 * n - 8, 8, 77);"),
    "a[n]": ("char a[n]", "char buf[n]", "n", "c04_expect(sizeof a, 8, 0); c04_expect(&a[n - 1] - a, n - 1, 1); a[n - 1] = 77; c04_stored(a, n - 1, 1, 77);"),
    "a[n][n+1]": ("short a[n][n + 1]", "short buf[n][n + 1]", "2 * n * (n + 1)", "c04_expect(sizeof a[0], 2 * n + 2, 0); c04_expect((char *)&a[n - 1][n] - (char *)a, 2 * n * (n + 1) - 2, 1); a[n - 1][n] = 77; c04_stored(a, 2 * n * (n + 1) - 2, 2, 77);"),
    "a[static n]": ("char a[static n]", "char buf[n]", "n", "c04_expect(sizeof a, 8, 0); a[n - 1] = 77; c04_stored(a, n - 1, 1, 77);"),
}
VP_SIZES = [1, 7, 16, 17, 100]


def vp_cases(tier):
    return [Case("vp", "vp/%s/%d" % (f, n), "vla-param|%s" % f.replace(" ", "-"), (f, n)) for f in VP_FORMS for n in VP_SIZES]


def vp_unit_one(i, c):
    f, n = c.spec
    par, buf, bsz, chk = VP_FORMS[f]
    unit = ("static long h%d(long n, %s) { %s return n; }\n"
            "long q%d(long x) { long n = c04_id(%d); long m = c04_mark(); %s; c04_vla(buf, sizeof buf, %s, 0); long r = h%d(n, buf); c04_drop(m); return r + x; }\n"
            % (i, par, chk, i, n, buf, bsz, i))
    return unit, "{5, %d, 0, {0}}" % (5 + n)


# ---------------------------------------------------------------------------------------------- (f) partial initialisation
PI_FORMS = ["char-array", "char-array-str", "struct-array", "struct-first", "long-then-array", "int-array", "short-last", "union-array", "nested", "in-loop"]


def pi_cases(tier):
    cases = []
    for form in PI_FORMS:
        for n in copy_sizes(tier):
            if form in ("char-array-str", "struct-first") and n < 2:
                continue
            cases.append(Case("pi", "pi/%s/%d" % (form, n), "partial-init|%s" % form, (form, n)))
    return cases


def pi_unit_one(i, c):
    form, n = c.spec
    ln, setb = n, [7]
    loop = False
    if form == "char-array":
        d = "char a[%d] = {7};" % n
    elif form == "char-array-str":
        d = "char a[%d] = \"\\007\";" % n
    elif form == "struct-array":
        d = "struct { char c[%d]; } a = {{7}};" % n
    elif form == "struct-first":
        d = "struct { char h; char c[%d]; } a = {.h = 7};" % (n - 1)
    elif form == "long-then-array":
        d = "struct { long l; char c[%d]; } a = {7};" % n; ln = 8 + n; setb = [7, 0, 0, 0, 0, 0, 0, 0]
    elif form == "int-array":
        d = "int a[%d] = {7};" % n; ln = 4 * n; setb = [7, 0, 0, 0]
    elif form == "short-last":
        d = "short a[%d] = {[%d] = 0};" % (n, n - 1); ln = 2 * n; setb = []
    elif form == "union-array":
        d = "union { char c[%d]; char h; } a = {{7}};" % n
    elif form == "nested":
        d = "struct { struct { char h; char c[%d]; } in[2]; } a = {{{7}}};" % n; ln = 2 * (n + 1)
    elif form == "in-loop":
        d = "char a[%d] = {7};" % n; loop = True
    use = "c04_zero(&a, %d, %d);" % (ln, len(setb))
    if loop:
        inner = "for (long k = 0; k < 3; k++) { %s %s for (long j = 0; j < %d; j++) a[j] = 0x77; }" % (d, use, n)
    else:
        inner = "{ %s %s }" % (d, use)
    unit = ("long z%d(long x) { char g0[16]; char g1[16]; long keep = x; long m = c04_mark(); c04_reg(g0, 16, 16, 0); c04_reg(g1, 16, 16, 1);\n  %s\n  c04_verify(); c04_drop(m); return keep + 1; }\n"
            % (i, inner))
    return unit, "{5, 6, 0, {%s}}" % ",".join(str(b) for b in (setb + [0]))


def px_unit_row(i, c):
    return LV.px_unit_one(i, c), LV.px_row(c)


def bn_build(cases):
    return LV.bn_build(cases, HDR)


FAMILIES = {"px": simple_build("x", px_unit_row, "ptr-index"), "bn": bn_build, "cl": simple_build("k", LV.cl_unit_one, "literal"),
            "bf": bf_build, "cp": copy_build, "pa": path_build, "lo": simple_build("d", local_unit_one, "locals"),
            "va": simple_build("v", va_unit_one, "vla-alloca"), "pi": simple_build("z", pi_unit_one, "partial-init"),
            "vt": simple_build("w", vt_unit_one, "vla", "call_rounds = 4;"), "vp": simple_build("q", vp_unit_one, "vla", "call_rounds = 4;")}
WEIGHT = {"cp": copy_weight}
REF_FAMS = ("vt", "vp", "px", "bn", "cl")      # families whose verdicts are cross-checked against gcc -O0 on the same unit
BATCH = {"bf": 320, "cp": 300, "pa": 24, "lo": 400, "va": 130, "pi": 100, "vt": 120, "vp": 30, "px": 60, "bn": 10, "cl": 80}


# ---------------------------------------------------------------------------------------------- batch runner
class _C:
    chibicc = None


GCC_UNIT = [f for f in twin.GCC_REF if f != "-fno-builtin"]      # reference compilation of a unit (alloca is a builtin)


def _compile_unit(chibicc, wd, name, unit):
    p = os.path.join(wd, name + ".c")
    with open(p, "w") as f:
        f.write(unit)
    c = _C()
    c.chibicc = chibicc
    if os.environ.get("C04_SELFTEST_GCC"):     # harness self-test: the units go through gcc; every V line is then a harness bug
        st, out, err = core.run_limited(GCC_UNIT + ["-c", "-o", name + ".o", name + ".c"], cwd=wd, timeout=600)
        return st == 0, "gcc", st, err
    return twin.cc_compile(c, p, os.path.join(wd, name + ".o"), [], cwd=wd)


def _run_driver(wd, exe, good, res, into):
    st, out, err = core.run_limited([exe], cwd=wd, timeout=900)
    if st == "timeout":
        res["error"] = "timeout"
        return False
    if st != 0:
        res["error"] = "driver exit %s: %s %s" % (st, out[-300:], err[-300:])
        return False
    for line in out.splitlines():
        if line.startswith("V "):
            _, i, dev, detail = (line.split(" ", 3) + [""])[:4]
            into["lines"].append((good[int(i)].cid, dev, detail))
        elif line.startswith("J "):
            _, i, n = line.split()
            into["judged"][good[int(i)].cid] = int(n)
        elif line.startswith("S "):
            m = re.match(r"S evals=(\d+) skipped=(\d+)", line)
            into["evals"], into["skipped"] = int(m.group(1)), int(m.group(2))
    return True


def _work(args):
    chibicc, wd, fam, bidx, cases = args
    os.makedirs(wd, exist_ok=True)
    build = FAMILIES[fam]
    res = {"bidx": bidx, "oracle_disagreements": [], "rejected": [], "lines": [], "judged": {}, "evals": 0, "skipped": 0, "error": None, "ncases": len(cases)}
    good = cases
    unit, drv = build(good)
    ok, stage, st, err = _compile_unit(chibicc, wd, "u", unit)
    if not ok and st == "timeout":          # a loaded machine is not an observation about chibicc
        res["error"] = "timeout"
        return res
    if not ok:
        good = []
        for c in cases:
            u1, _ = build([c])
            ok1, stage1, st1, err1 = _compile_unit(chibicc, wd, "one", u1)
            if not ok1 and st1 == "timeout":
                res["error"] = "timeout"
                return res
            if ok1:
                good.append(c)
            else:
                last = re.sub(r"^\s*\^\s*", "", (err1.strip().splitlines() or [""])[-1])[:200]
                res["rejected"].append((c.cid, stage1, str(st1), last))
        if not good:
            return res
        unit, drv = build(good)
        ok, stage, st, err = _compile_unit(chibicc, wd, "u", unit)
        if not ok and st == "timeout":
            res["error"] = "timeout"
            return res
        if not ok:
            # every case compiles alone but not together: report the batch as one chained-compilation failure
            res["rejected"].append(("batch:" + good[0].cid, stage + "-only-in-batch", str(st), (err.strip().splitlines() or [""])[-1][:200]))
            return res
    with open(os.path.join(wd, "d.c"), "w") as f:
        f.write(drv)
    exe = os.path.join(wd, "t.exe")
    st, out, err = core.run_limited(twin.GCC_DRV + ["-o", exe, "d.c", "u.o", "-no-pie", "-Wl,-z,noexecstack"], cwd=wd, timeout=600)
    if st == "timeout":
        res["error"] = "timeout"
        return res
    if st != 0:
        res["error"] = "driver build failed: " + err[-1500:]
        return res
    if not _run_driver(wd, exe, good, res, res):
        return res
    if fam in REF_FAMS and res["lines"]:
        # second oracle: the same unit through gcc -O0 must satisfy the dictionary; a case gcc's code fails too is a generator
        # or dictionary problem, not an observation about chibicc (counted, not judged).  Only consulted when chibicc deviates.
        st, out, err = core.run_limited(GCC_UNIT + ["-c", "-o", "u_ref.o", "u.c"], cwd=wd, timeout=600)
        if st == "timeout":
            res["error"] = "timeout"
            return res
        if st != 0:
            res["error"] = "reference compiler rejects the generated unit: " + err[-1500:]
            return res
        st, out, err = core.run_limited(twin.GCC_DRV + ["-o", "t_ref.exe", "d.c", "u_ref.o", "-no-pie", "-Wl,-z,noexecstack"], cwd=wd, timeout=600)
        if st != 0:
            res["error"] = "timeout" if st == "timeout" else "reference driver build failed: " + err[-1500:]
            return res
        ref = {"lines": [], "judged": {}, "evals": 0, "skipped": 0}
        if not _run_driver(wd, os.path.join(wd, "t_ref.exe"), good, res, ref):
            return res
        refbad = set(cid for cid, dev, detail in ref["lines"])
        res["oracle_disagreements"] = sorted(refbad)
        res["lines"] = [l for l in res["lines"] if l[0] not in refbad or l[1] == "harness"]
    return res


REPLAY = ("# compiles the single case with the chibicc under test, links the gcc-compiled dictionary driver, runs it\n"
          "$CHIBICC -cc1 -cc1-input unit.c -cc1-output unit.s unit.c || exit 1\n"
          "as -o unit.o unit.s || exit 1\n"
          "sed -i \"s|#include \\\".*c04_drv.h\\\"|#include \\\"$VERIF/harness/c04_drv.h\\\"|\" driver.c\n"
          "gcc -O1 -w -std=gnu11 -fno-pie -no-pie -o drv driver.c unit.o -Wl,-z,noexecstack || exit 0\n"
          "./drv > out.txt 2>&1; grep -q '^V ' out.txt && exit 1\nexit 0")
REPLAY_REJ = ("$CHIBICC -cc1 -cc1-input unit.c -cc1-output unit.s unit.c || exit 1\nas -o unit.o unit.s || exit 1\nexit 0")


def make_batches(fam, cases):
    """Equal-count batches; families whose cases differ widely in cost (WEIGHT) are dealt out heaviest first, round robin,
    so that every batch holds the same mix of sizes.  Deterministic."""
    w = WEIGHT.get(fam)
    if not w:
        return core.chunks(cases, BATCH[fam])
    nb = max(1, -(-len(cases) // BATCH[fam]))
    order = sorted(range(len(cases)), key=lambda k: (-w(cases[k]), k))
    bins = [[] for _ in range(nb)]
    for pos, k in enumerate(order):
        bins[pos % nb].append(k)
    return [[cases[k] for k in sorted(b)] for b in bins if b]


def run_family(ctx, fam, cases, stats):
    byid = dict((c.cid, c) for c in cases)
    if len(byid) != len(cases):
        raise core.HarnessError("duplicate case ids in family " + fam)
    batches = make_batches(fam, cases)
    if ctx.seed:
        batches = batches[ctx.seed % len(batches):] + batches[:ctx.seed % len(batches)]
    args = [(ctx.chibicc, os.path.join(ctx.work, "%s%d" % (fam, i)), fam, i, b) for i, b in enumerate(batches)]
    done = 0
    for grp in core.chunks(args, core.NPROC * 2):
        if ctx.out_of_time(reserve=45):
            ctx.incomplete("family %s: deadline after %d of %d batches" % (fam, done, len(batches)))
            break
        for res in core.pmap(_work, grp):
            done += 1
            if res["error"] == "timeout":
                ctx.incomplete("family %s batch %d: driver timeout" % (fam, res["bidx"]))
                continue
            if res["error"]:
                raise core.HarnessError("family %s batch %d: %s" % (fam, res["bidx"], res["error"]))
            stats["evals"] += res["evals"]
            stats["skipped"] += res["skipped"]
            stats["oracle_disagreements"] += len(res["oracle_disagreements"])
            stats["cases"] += res["ncases"]
            # a case counts as judged when an observation was evaluated, or when it was reported (a signal before the first observation)
            reported = set(cid for cid, dev, detail in res["lines"])
            stats["judged_cases"] += sum(1 for cid, v in res["judged"].items() if v > 0 or cid in reported)
            stats["fam_" + fam] = stats.get("fam_" + fam, 0) + res["ncases"]
            stats["famevals_" + fam] = stats.get("famevals_" + fam, 0) + res["evals"]
            for cid, stage, st, last in res["rejected"]:
                stats["rejected"] += 1
                real = cid[6:] if cid.startswith("batch:") else cid
                c = byid[real]
                kind = "crash" if st.startswith("-") else "rejected"
                msg = re.sub(r"[^a-z]+", "-", re.sub(r"^.*?(Error|error):", "", last).lower()).strip("-")[:60]
                sig = "C04|%s|%s:%s:%s:%s" % (c.cls if fam == "vt" else c.cls.split("|")[0], kind, stage, st, msg)
                u1, d1 = FAMILIES[fam]([c]) if sig not in ctx.violations else ("", "")
                ctx.violation(sig, "valid unit %s: %s %s -> %s" % (kind, c.cid, stage, last),
                              files={"unit.c": u1, "driver.c": d1}, replay=REPLAY_REJ)
            for cid, dev, detail in res["lines"]:
                c = byid[cid]
                if dev == "harness":
                    raise core.HarnessError("driver complained in %s: %s" % (cid, detail))
                sig = "C04|%s|%s" % (c.cls, dev)
                u1, d1 = FAMILIES[fam]([c]) if sig not in ctx.violations else ("", "")
                ctx.violation(sig, "%s: %s" % (c.cid, detail), files={"unit.c": u1, "driver.c": d1}, replay=REPLAY)


def run(ctx):
    stats = {"evals": 0, "skipped": 0, "cases": 0, "judged_cases": 0, "rejected": 0, "oracle_disagreements": 0}
    # small families first: if the deadline stops the run, only the tail of the big bit-field enumeration is missing
    fams = [("vp", vp_cases(ctx.tier)), ("bn", LV.bn_cases(ctx.tier)), ("cl", LV.cl_cases(ctx.tier)), ("va", va_cases(ctx.tier)),
            ("pi", pi_cases(ctx.tier)), ("px", LV.px_cases(ctx.tier)), ("lo", local_cases(ctx.tier)), ("pa", path_cases(ctx.tier)),
            ("vt", vt_cases(ctx.tier)), ("cp", copy_cases(ctx.tier)), ("bf", bf_cases(ctx.tier))]
    only = os.environ.get("C04_ONLY")
    for fam, cases in fams:
        if only and fam not in only.split(","):
            continue
        for c in (cases[0], cases[len(cases) // 2], cases[-1])[:2 if fam != "bf" else 3]:
            ctx.sample({"case": c.cid, "class": c.cls, "unit_head": FAMILIES[fam]([c])[0].replace(CB_DECL, "")[:400]}, limit=14)
        if fam == "va":
            stats["skipped"] += (len(VA_KINDS) - 1) * len(va_contexts(ctx.tier))
        run_family(ctx, fam, cases, stats)
    ctx.cover(evaluations=stats["evals"], skipped_undefined=stats["skipped"], cases=stats["cases"], distinct_nontrivial=stats["judged_cases"],
              rejected_or_crashed=stats["rejected"], oracle_disagreements=stats["oracle_disagreements"],
              rule="one case = one generated type/function shape with a stable id; evaluated = one store/copy/creation observed by the driver; "
                   "non-trivial = the case ran and at least one observation was judged against the dictionary")
    ctx.cover(bounds="(a) 241 (base type,width) pairs [9 types, _Bool width 1] x preceding unsigned long bit-field of width 0..63; x {char,short,int,uchar+ushort} "
                     "ordinary neighbours; x unnamed preceding bit-field of width 0,1,7,33; x {global '.', anonymous struct, union, nested struct, array element, "
                     "automatic copy} for %s; thorough adds every pair as pre and as post (241x241, 3x241x241). Per struct: 3 backgrounds x (15 stored values + 6 old values "
                     "x (5 op= x 6 operands + 2 shifts x 4 counts + 4 inc/dec)) + neighbour stores. "
                     "(b) 10 member mixes x payload sizes %s x 22 ways (12 moving the aggregate, 10 consuming the value of an aggregate assignment: chained element/pointer "
                     "assignments, aggregate and scalar member of an assignment, assignment as argument, return value, ?: arms, comma operand, statement-expression value, initialiser). (c) all shapes of depth 1..3 over {struct, union, array[3], struct+anonymous struct, "
                     "struct+anonymous union, union+anonymous struct} x leaf-type phases x {global, file-scope literal, block-scope literal}; 4 store spellings, 3 read spellings. "
                     "(d) all multisets of 1..4 locals from 13 kinds%s, both stack parities mod 32. (e) 4 kinds x 13 contexts x 13 sizes 0..4096. (f) 10 forms x the sizes of (b). "
                     "(g) 8 spellings of a VLA type (5 typedefs, typeof(object), typeof(type), written out) x 4 uses (declare objects, sizeof(type), pointer to it, array of it) x 13 control flows "
                     "(straight, then/else arm, 3 switch positions, goto around, goto back, alternating loop, loop re-establishing the type with a new n, ?: arms, &&, n changed afterwards) x lengths %s, "
                     "each on zeroed and patterned stacks at both parities, gcc -O0 on the same unit as second oracle. (h) 6 VLA parameter forms x 5 lengths. "
                     "(i) pointer arithmetic: element types %s x 28 index operand kinds x 9 integer operand types x values -4..4 x 15 operator forms; address, store of a marker, load. "
                     "(j) stores whose right-hand side writes a neighbour: 8 layouts x 5 access paths x ordered field pairs x %d statement templates (groups %s) x 2 initial states x 3 value pairs; dictionary over all fields. "
                     "(k) object lifetime of compound literals: %d object types x initializer classes x scenarios %s x spellings %s + file-scope literals; gcc -O0 second oracle for (i)-(k)."
                     % ("4 preceding widths x 13+ field widths" if ctx.tier == "quick" else "all 64 preceding widths x all widths", str(copy_sizes(ctx.tier)).replace(" ", ""), "" if ctx.tier == "quick" else " in both declaration orders",
                        str(VT_SIZES if ctx.tier == "quick" else VT_SIZES_THOROUGH).replace(" ", ""),
                        ",".join(LV.PX_ELEMS_QUICK if ctx.tier == "quick" else LV.PX_ELEMS), len(LV.BN_TEMPLATES), ",".join(LV.BN_GROUPS),
                        len(LV.CL_SPECS), ",".join(LV.CL_SCEN), ",".join(LV.CL_SPELL)))
    for k, v in stats.items():
        if k.startswith("fam_"):
            ctx.cover(**{"cases_" + k[4:]: v})
        if k.startswith("famevals_"):
            ctx.cover(**{"evaluations_" + k[9:]: v})
    if ctx.exhaustive and not only and stats["judged_cases"] + stats["rejected"] < stats["cases"]:
        raise core.HarnessError("vacuous: %d of %d cases neither judged nor rejected" % (stats["cases"] - stats["judged_cases"] - stats["rejected"], stats["cases"]))
    if stats["evals"] == 0:
        raise core.HarnessError("vacuous: nothing evaluated")
    ctx.assume("plain char/short/int/long bit-fields are signed (implementation-defined, 6.7.2p5); out-of-range stores to signed fields wrap modulo 2^width")
    ctx.assume("the size of a variably modified type is fixed when its declaration (typedef, object or type name) is reached and does not change afterwards (6.7.6.2p5, 6.7.8p8); "
               "typeof and statement expressions (GNU C, implemented by chibicc and gcc alike) are used to spell some cases")
    ctx.assume("arrays and VLAs of >= 16 bytes and alloca blocks are 16-byte aligned (x86-64 psABI 3.1.2)")
    ctx.assume("padding bits/bytes and the inactive members of a union are not judged after a store (6.2.6.1p6-7); the differential discovery of a field's bit set assumes the all-ones/zero stores themselves leave padding alone")
    ctx.assume("side effects on distinct bit-fields of one storage unit that are unsequenced relative to each other are both performed (6.5p2 speaks of the same scalar object only); "
               "a block-scope compound literal is initialised each time it is evaluated and has one instance per activation of its block (6.5.2.5p5, 6.8p3); a file-scope one is static")
    ctx.assume("the assembler, linker, gcc-compiled driver and CPU are trusted; layout agreement with gcc is property C08, not judged here")
