struct E { int a; };
enum E e;
