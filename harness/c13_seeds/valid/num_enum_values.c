enum E { A = 0, B = 5, C, D = 2147483646, F };
enum E e = C;
int f(void) { return D - B + F; }
