#!/usr/bin/env python3
"""Regenerates /verif/MANIFEST.json from the table below (keeps it valid while checks are added)."""
import json, os, sys
V = os.path.dirname(os.path.dirname(os.path.abspath(__file__)))
props = [json.loads(l) for l in open(os.path.join(V, "properties.jsonl"))]

CHECKS = {
 "C12": dict(category="exploration", technique="three-stage bootstrap (gcc-built S1, S2 built by S1, S3 built by S2) with exhaustive byte comparison of status/stdout/stderr/outputs over a closed corpus x option sets; repeated runs with ASLR off and a different environment",
   text="Stage 2 and stage 3 are rebuilt from the working tree on every run. For every input of a closed corpus (the tree's sources, all test programs, valid and invalid seed programs, generated units of the C01/C07/C19 enumerators) and every option set, S1 and S2 must agree byte-for-byte in exit status, stdout, stderr and produced files, S3 must agree on the tree's own sources (fixpoint), and a second S1 run with ASLR disabled and a larger environment must reproduce the first.",
   note="The statement quantifies over all inputs; the check decides it on a finite corpus, so a self-miscompilation must be exercised by one of the corpus inputs to be seen. Object files are compared after strip -g because the assembler records the working directory. __DATE__/__TIME__/__TIMESTAMP__ are neutralised as the property exempts them."),
 "C19": dict(category="exploration", technique="exhaustive enumeration of all ordered token pairs x adjacency constructions, re-lexed with an independent pp-token lexer; -E idempotence; -S(original) == -S(-E output) on a closed corpus",
   text="All 71x71 ordered pairs of a token alphabet covering every punctuator-prefix relation and every lexical class are made adjacent in 11 (thorough 16) ways the preprocessor can create adjacency; the -E text must re-lex to exactly the two tokens, -E of the -E output must be byte-identical, and for the tree's own sources, its test programs and ~970 generated operator-adjacency programs compiling the -E output must give the same assembly (modulo .loc/.file) as compiling the original.",
   note="Trusts the ~60-line pp-token lexer in models/pplex.py (C11 6.4, no digraphs); pp-numbers that are not valid constants are left to C09; the -S comparison is chibicc against itself."),
 "C01": dict(category="exploration", technique="bounded-exhaustive enumeration of expression forms x operand-type tuples x threshold value grids, twin-compiled (chibicc vs gcc -O0) and compared with a 128-bit C11 reference model",
   text="Every operator (18 binary, 4 unary, casts, ?:, comma, 10 compound assignments, ++/--), every pair of the nine integer types, every conversion context (initializer, assignment, argument, return, eight kinds of condition), two-level compositions and pointer arithmetic for seven element sizes are enumerated completely; each case is executed on a value grid holding every width threshold of its operand types (all 256 values for 8-bit types) and its static type is read back through _Generic/sizeof. A tuple is judged only when the C11 model and gcc agree and the model says the result is defined.",
   note="Trusts gcc 12 -O0 and the 128-bit model where they agree; implementation-defined conversions are fixed as the x86-64 platform documents them; values between grid points of >=16-bit types and nesting deeper than two operators are not explored."),
 "C17": dict(category="model_checking", technique="explicit-state BFS over the real hashmap.c (all reachable table states for colliding key sets) + exhaustive define/undef histories replayed through the shipped binary",
   text="Every reachable state of the tree's own hash table for bounded colliding key universes (2-4 keys sharing a home slot, neighbours, 9-10 fillers forcing rehash with tombstones present) is visited by breadth-first search with the real put/get/delete as transition relation; in each state every key must read back the reference dictionary. All macro define/redefine/undef histories up to length 5 (thorough 6) over names that collide in the real macro table are replayed through cc1 -E with -D/-U and #define/#undef mixes.",
   note="Trusts gcc to compile the white-box harness; key universe and history length are bounded; scope/tag tables are exercised only through the shared hashmap.c implementation."),
}
NA_REASON = "check not built yet in this round (planned in DESIGN.md; nothing is claimed for it until its check runs clean)"

m = {
 "version": 1,
 "setup_cmd": "mkdir -p /verif/evidence /verif/replays && python3 -c 'import sys; assert sys.version_info >= (3, 8)'",
 "hooks": {"guard": "CHIBICC_VERIF", "enable": "none needed: no source hooks exist; every check copies /repo's working tree to a scratch dir and builds it with the stock Makefile",
           "baseline_off_cmd": "/verif/tools/repotest.sh /repo test", "source_commits": [], "add_only": True},
 "engines": [{"name": "check", "path": "/verif/check", "serves_properties": sorted(CHECKS), "kind_free_text": "python3 driver (vlib) + per-property enumerators/harnesses; bounded-exhaustive exploration of the real binary built from /repo's working tree"}],
 "checks": [], "not_applicable": [],
 "notes": "See DESIGN.md. Exit 0 = held on everything explored (KNOWN-FINDING lines for listed defects), 1 = VIOLATION line, 2 = harness failure.",
}
for p in props:
    i = p["id"]
    if i in CHECKS:
        c = CHECKS[i]
        m["checks"].append({"property_id": i, "quick_cmd": "./check %s quick" % i, "thorough_cmd": "./check %s thorough" % i,
            "evidence_file": "/verif/evidence/%s.json" % i, "replay_cmd_template": "./check %s --replay {path}" % i, "engine": "check",
            "level_claimed": {"category": c["category"], "text": c["text"], "design_ref": "§" + i}, "level_note": c["note"], "technique": c["technique"]})
    else:
        m["not_applicable"].append({"property_id": i, "reason": NA_REASON})
json.dump(m, open(os.path.join(V, "MANIFEST.json"), "w"), indent=1)
print("MANIFEST: %d checks, %d not_applicable" % (len(m["checks"]), len(m["not_applicable"])))
