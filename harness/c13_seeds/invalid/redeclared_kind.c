int f;
int f(void) { return 0; }
