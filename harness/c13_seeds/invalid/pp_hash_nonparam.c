#define F(x) #y
char *s = F(1);
