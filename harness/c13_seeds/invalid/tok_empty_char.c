int c = '';
