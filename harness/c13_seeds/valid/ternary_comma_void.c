void v(void) {}
int f(int a, int *p) { a ? v() : v(); (void)a; return a ? *p : 0, p ? a : 1; }
