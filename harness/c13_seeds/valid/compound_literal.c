struct P { int x, y; };
int *gp = (int[]){1, 2};
int f(void) { struct P p = (struct P){1, 2}; return p.x + ((struct P){3, 4}).y + (int){5}; }
