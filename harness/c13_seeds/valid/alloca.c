void *alloca(unsigned long);
int f(int n) { char *p = alloca(n); p[0] = 1; return p[0]; }
