int f(void) { return _Generic(1.0f, int: 1); }
