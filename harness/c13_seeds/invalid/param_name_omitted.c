int f(int) { return 0; }
