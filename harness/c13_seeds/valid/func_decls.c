int f();
int g(void);
static inline int h(int x) { return x; }
_Noreturn void die(void);
extern int printf(const char *, ...);
int main(int argc, char **argv) { return h(argc) + f() + g(); }
