char *s = "abc;
