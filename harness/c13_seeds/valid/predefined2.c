#ifdef __chibicc__
#include <stddef.h>
#endif
char *b = __BASE_FILE__;
char *t = __TIMESTAMP__;
size_t n = __SIZEOF_LONG__ + __STDC_VERSION__;
__typeof__(n) m;
