"""A small C11 preprocessing-token lexer (translation phase 3 on already-spliced text), used to re-lex -E output.
No digraphs/trigraphs.  Returns a list of token spellings; comments are white space."""
import re

PUNCT = ["%:%:", "...", "<<=", ">>=", "->", "++", "--", "<<", ">>", "<=", ">=", "==", "!=", "&&", "||", "*=", "/=", "%=", "+=", "-=",
         "&=", "^=", "|=", "##", "[", "]", "(", ")", "{", "}", ".", "&", "*", "+", "-", "~", "!", "/", "%", "<", ">", "^", "|", "?",
         ":", ";", "=", ",", "#"]
PUNCT = [p for p in PUNCT if p != "%:%:"]
_ident = re.compile(r"[A-Za-z_$\u0080-\U0010ffff][A-Za-z0-9_$\u0080-\U0010ffff]*")
_ppnum = re.compile(r"\.?[0-9](?:[eEpP][+-]|[A-Za-z0-9_.])*")
_str = re.compile(r'(?:u8|u|U|L)?"(?:[^"\\\n]|\\.)*"')
_chr = re.compile(r"(?:u|U|L)?'(?:[^'\\\n]|\\.)+'")


def lex(text):
    toks = []
    i, n = 0, len(text)
    while i < n:
        c = text[i]
        if c in " \t\r\n\f\v":
            i += 1
            continue
        if text.startswith("//", i):
            j = text.find("\n", i)
            i = n if j < 0 else j
            continue
        if text.startswith("/*", i):
            j = text.find("*/", i + 2)
            i = n if j < 0 else j + 2
            continue
        m = _str.match(text, i) or _chr.match(text, i)
        if m:
            toks.append(m.group(0)); i = m.end(); continue
        m = _ppnum.match(text, i)
        if m:
            toks.append(m.group(0)); i = m.end(); continue
        m = _ident.match(text, i)
        if m:
            toks.append(m.group(0)); i = m.end(); continue
        for p in PUNCT:
            if text.startswith(p, i):
                toks.append(p); i += len(p); break
        else:
            toks.append(c); i += 1
    return toks
