struct B { int a : 3; unsigned b : 5; int c : 1; };
int f(void) { struct B x = {1, 2, 0}; x.a = 2; x.b += 3; return x.a + x.b; }
