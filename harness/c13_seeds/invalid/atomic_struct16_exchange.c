struct S { long a, b; } s, t;
void f(void) { t = __builtin_atomic_exchange(&s, t); }
