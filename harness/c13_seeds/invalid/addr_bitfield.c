struct B { int a : 3; } b;
int *p(void) { return &b.a; }
