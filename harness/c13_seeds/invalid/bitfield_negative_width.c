struct B { int a : -1; } b;
int f(void) { b.a = 1; return b.a; }
