int f(int n) { static int a[n]; return sizeof(a); }
