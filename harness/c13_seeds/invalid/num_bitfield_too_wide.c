struct B { int a : 33; } b;
int f(void) { b.a = 1; return b.a; }
