int f(int x) {
  double d = 1;
  return _Generic(x, int: 1, long: 2, default: 3) + _Generic(d, float: 4, double: 5);
}
