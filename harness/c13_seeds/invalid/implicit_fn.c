int f(void) { return g(1); }
