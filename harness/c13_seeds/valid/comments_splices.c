/* c */ int a; // line
int b\
= 2;
#define M(x) \
  x
int c = M(3);
