struct S { char c[3]; } s, o, n;
int f(void) { return __builtin_compare_and_swap(&s, &o, n); }
