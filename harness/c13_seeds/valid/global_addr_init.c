int a[3];
int *p = a + 1;
int *q = &a[2];
char *s = "lit" + 1;
struct { int *m; } o = {&a[0]};
long d = (long)&a;
int (*fp)(void);
