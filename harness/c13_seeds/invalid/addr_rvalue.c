int f(int x) { return *&(x + 1); }
