int x = 1x2;
