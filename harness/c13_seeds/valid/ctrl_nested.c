int g(int);
int f(int x) {
  for (int i = 0, j = 9; i < j; i++, j--)
    while (x) { if (g(i)) goto out; x--; }
out:
  switch (x) default: if (x) case 1: case 2: return 1;
  return 0;
}
