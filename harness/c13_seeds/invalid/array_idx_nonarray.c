struct S { int a; } s = {[0] = 1};
