#!/bin/sh
# usage: mutant.sh <patch.diff> <check-id>...   : applies the patch to a scratch copy of /repo, runs the repo's own
# tests there (must pass) and then the named checks (quick) against the copy.  Prints one line per check.
patch=$(readlink -f "$1"); shift
d=$(mktemp -d /tmp/mutant_XXXXXX)
trap 'rm -rf "$d"' EXIT INT TERM
rsync -a --exclude=.git --exclude='*.o' --exclude=/chibicc --exclude=/stage2 --exclude='*.exe' --exclude='/tmp*' /repo/ "$d"/
(cd "$d" && patch -p1 -s < "$patch") || { echo "MUTANT: patch does not apply"; exit 2; }
if [ -z "$SKIP_REPOTEST" ]; then /verif/tools/repotest.sh "$d" || { echo "MUTANT: repo tests fail with this patch (not a valid mutant)"; exit 3; }; fi
for id in "$@"; do
  out=$(cd /verif && VERIF_REPO="$d" VERIF_NO_EVIDENCE=1 ./check "$id" ${TIER:-quick} 2>&1); rc=$?
  echo "MUTANT $(basename "$patch") check=$id rc=$rc $(echo "$out" | grep -c '^VIOLATION') violation lines"
  echo "$out" | grep '^VIOLATION' | head -3 | cut -c1-260
  [ $rc -ge 2 ] && echo "$out" | tail -5
done
