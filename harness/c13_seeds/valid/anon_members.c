struct S { int a; union { int b; char c; }; struct { int d; }; } s;
int f(void) { struct S t = s; t.b = 1; t.d = 2; s = t; return s.c; }
