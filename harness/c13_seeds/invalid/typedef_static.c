typedef static int T;
