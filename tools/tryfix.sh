#!/bin/sh
# usage: tryfix.sh <patch.diff>...  : applies the patches (in order) to a scratch copy of /repo, runs make test and test-stage2.
d=$(mktemp -d /tmp/tryfix_XXXXXX)
trap 'rm -rf "$d"' EXIT INT TERM
rsync -a --exclude=.git --exclude='*.o' --exclude=/chibicc --exclude=/stage2 --exclude='*.exe' --exclude='/tmp*' /repo/ "$d"/
for p in "$@"; do
  ap=$(readlink -f "$p")
  (cd "$d" && patch -p1 -s --no-backup-if-mismatch < "$ap") || { echo "TRYFIX: $p does not apply"; exit 2; }
done
/verif/tools/repotest.sh "$d" test || exit 1
/verif/tools/repotest.sh "$d" test-stage2 || exit 1
echo "TRYFIX: OK $*"
