_Atomic struct S { int a; } s;
void f(void) { s += 1; }
