"""C06  Calls obey the System V x86-64 calling convention.

E2 twin check, exhaustive inside the bounds printed in the evidence `rule`.  One *signature* = (return type, argument
type list, fixed | variadic with n named parameters, caller context).  For every signature the same generated unit
holds a callee and two callers; it is compiled by the chibicc under test (PFX=cc_) and by gcc -O0 (PFX=ref_), and a
gcc-compiled driver runs the call in four link configurations:
      0 chibicc caller -> gcc callee     1 gcc caller -> chibicc callee     2 chibicc -> chibicc
      3 gcc -> gcc  (self-check of the harness: a failure there is an oracle disagreement, never a verdict)
Argument k is read by the caller from a buffer whose byte i is pat(k,i); the callee copies every parameter (or
va_arg result) into a capture buffer; the driver compares all value bytes (padding and the 6 tail bytes of a long
double are not compared) and the returned bytes likewise.  Every callee is entered through harness/c06_thunk.S, which
checks at each call: %rsp+8 is 16-byte aligned, DF clear, %rbx %rbp %r12-%r15 / %rsp / MXCSR control bits / x87 control
word unchanged by the callee, and records %al (variadic calls made by chibicc: vector registers used <= %al <= 8).
models/c06_abi.py (psABI 3.2.3 classifier) places the probes on the register-exhaustion boundaries, predicts %al
(cross-checked against what gcc callers put there) and labels failures; it never decides byte integrity.
Stages VS / WS (variadic callee whose NAMED parameters are partly passed on the stack; the unnamed arguments fetched from the
overflow area start behind them, rounded up to 8): the named list is [long x g, double x s] + item + follower with
(g,s) in {(0,0),(6,8),(6,0),(0,8),(5,8),(6,7)} restricted to those where the psABI model puts the item on the stack;
item in {struct{char[n]} for every n in 1..40 (1..16 spilled because the registers ran out, 17..40 class MEMORY), 12/20-byte
int, float and mixed structs, 4/6/16-byte structs, 4/20-byte unions, every scalar}; follower (item not last) in {none, long,
double, long double, struct{char[19]}, struct{char[3]}+int} or a struct{char[21]} in front of everything; then unnamed
fillers that use up the remaining GP and SSE registers (both / GP only / SSE only / none), then a va_arg probe of each
kind {int, long, double, long double, pointer, 12-byte INTEGER struct, 12-byte SSE struct, struct{long,double}, 24-byte
struct, struct{char[21]}} and a trailing long and double; also with the hidden return pointer in %rdi; WS passes the
va_list of the same shapes to a consumer built by the other / the same compiler.  quick takes the first two stack modes per
item, the first four followers and the both/none fillers; thorough the whole product.
A separate family uses asm callees/callers that leave noise in the bits the ABI leaves undefined (narrow return
values, narrow arguments) and compares chibicc-compiled consumers with gcc-compiled ones.
Stage N (aggregates among the NAMED parameters of a variadic callee, passed in registers as well as in memory): named list =
pre + [item] + post with item in {one aggregate per (size, eightbyte classes) shape, struct{char[n]} for every n in 1..16,
struct{float}/{float,float}/{float x3}/{float x4}/{double}/{double,double}/{int,int}/{int,float}/{float,int}/{double,int}/
{long,double}/{double,long}/{short}/{int x3}, unions {float,int} {double,long} {float[2],int[2]}, MEMORY struct{char[17]}
struct{char[24]} {long x3} {double x3}, x87 {long double} {double,long double}}, pre in {-, int, double, long x4 (thorough: +
long+double, long x5, double x7, long x5+double x7, long x6+double x8)}, post in {-, int, double (thorough: + long+double,
struct{int,int}, struct{float,float})}; followed by one of three tails of 19-21 unnamed arguments drawn by va_arg - integer,
floating, 8/16-byte INTEGER / SSE / mixed structs while registers remain and after both register files are exhausted (every tail
holds >= 8 GP and >= 10 SSE eightbytes), then long double and MEMORY structs; also with the hidden return pointer in %rdi and with
the va_list handed to a consumer built by the other / the same compiler.  quick: tail "i" for all 12 (pre, post) pairs, tails
"d"/"s" and the hidden-pointer variant for the pairs (-,-) and (int,double); thorough: the whole product.
Stage Z (size-dependent lowering of aggregate copies): struct{char[n]}, and for n % 8 == 0 struct{long[n/8]} and a union of both,
for n in {48,64,65,96,127,128,129,130,192,200,255,256,257,512,1000,1024,2048,4096} (thorough: every n in 41..300, 511..513, 1000,
1023..1025, 2047..2049, 4095, 4096): by value + returned, twice on the stack between other stack arguments, as the result of an
inner call, fetched by va_arg, as named parameter of a variadic callee (+ under pending temporaries / without prototype / behind a
GP argument).  The thunk's %rax == hidden pointer check and all value bytes apply as everywhere; sizes 1..40 are in VS/WS/M.
Failures of aggregates beyond 64 bytes share the class `struct65+[MEMORY]` in the signature.
Family R (psABI 3.2.3 "Returning of Values": the result area of a MEMORY-class return must not overlap any object visible to the
callee; C: the value of the call is produced before the assigned-to object changes): callers `x = f(&x)`, `x = (f(&x))`,
`x = (0, f(&x))`, `x = c ? f(&x) : x`, `y = x = f(&x)`, `T x = f(&x)`, `x = f(&o, &x)`, `x = f(&x, &o)`, `x = f(&x, &x)`, `x = f(x)`,
`s.m = f(&s.m)`, `a[i] = f(&a[i])`, `a[0] = f(a)`, `g = f(&g)`, static local, `*p = f(p)`, pointer saved in a global beforehand,
a parameter as x, call through a function pointer, through a chibicc-compiled forwarding function, and `y = f(&x)` (control),
compiled by chibicc and by gcc -O0, for T = struct{unsigned char[n]} n in 17..40, 48, 64, 100, 127, 128, 129, 136, 200, 256, 1024
(thorough: 17..300, 511..513, 1024, 2048, 4096) and struct{long[n/8]} / union forms for n % 8 == 0, against five callee builds of the
same six functions: a hand-written asm callee that stores the whole result area first and reads its operands afterwards (rd) or
overwrites *p after building the result (wr) - deterministic, independent of any optimiser - and the C text compiled by gcc -O0,
-O2, -Os (-Os builds the result in place: tree-nrv) and by the chibicc under test.  Judged only where the model (computed in the
driver) and the gcc-compiled caller agree (gcc 12 itself receives `T x = f(&x)` directly in x: counted, not judged).  The driver
self-test enters every callee with result area == *p and requires the asm callee to be sensitive to it (vacuity guard).
"""
import os, re, itertools, shutil
from vlib import core, twin
from models import c06_abi as abi
from models.c06_abi import P

LEVEL = "exploration"
BUDGET = {"quick": 900, "thorough": 5400}

HARNESS = os.path.join(core.VERIF, "harness")
CFGNAME = {0: "cc->gcc", 1: "gcc->cc", 2: "cc->cc", 3: "gcc->gcc"}
BATCH = 160

LEAF = [P(x) for x in ("char", "short", "int", "long", "float", "double")]
ARR = [("a", l, 2) for l in LEAF]
LONG, DOUBLE, LDOUBLE, INT, PTR = P("long"), P("double"), P("ldouble"), P("int"), P("ptr")
PRIMS = [P(x) for x in ("char", "short", "int", "long", "ptr", "bool", "float", "double", "ldouble")]


def S(*m): return ("s", tuple(m))
def U(*m): return ("u", tuple(m))


C, SH, I, L, F, D, LD = P("char"), P("short"), P("int"), P("long"), P("float"), P("double"), P("ldouble")
A = lambda t: ("a", t, 2)
# named shapes: 3-4 member register candidates of every eightbyte mix, the MEMORY ones and the x87 ones
NAMED = [S(C, SH, I, L), S(F, F, F), S(F, F, F, F), S(I, F, D), S(D, C), S(C, D), S(F, I, F, I), S(I, I, F, F), S(F, F, I, I),
         S(C, C, C), S(C, C, C, C), S(SH, SH, SH), S(C, F, C, F), S(D, F), S(D, I), S(L, F), S(L, C, C), S(A(F), F), S(A(F), A(F)),
         S(A(I), A(F)), S(A(F), A(I)), S(I, A(F), I), S(F, A(I), F), S(A(C), A(C), A(C), A(C)), S(A(SH), A(SH), SH), S(C, A(SH), I, F),
         U(L, D), U(F, I), U(A(F), D), U(A(F), L), U(A(I), A(F)), U(A(D), A(L)), U(A(L), C), U(S(F, F), D), U(S(I, F), D), S(U(F, I), D),
         S(S(F, F), S(F, F)), S(S(I, F), D), S(S(C, C), S(SH,), F), S(U(D, L), F)]
BIG = [S(L, L, L), S(D, D, D), S(L, D, L), S(A(L), C), S(A(D), F), S(C, L, L), U(A(L), S(L, L, C)), S(A(D), A(D)), S(A(L), A(L), A(L), A(L))]
X87 = [S(LD), S(D, LD), U(LD, L), S(LD, C), U(LD, A(D)), S(LD, LD), S(A(LD)), S(S(LD), LD), U(A(LD), C)]   # only the first is X87-class: every other one is MEMORY


def enum_types(tier):
    """All aggregates of the tier's bound, register candidates (size <= 16) only, in simplest-first order.
    Structs: every member sequence.  Unions: every member *set* (in ascending and descending declaration order) -
    the layout of a union does not depend on member order."""
    out, seen = [], set()
    def add(t):
        if t not in seen and abi.layout(t)[0] <= 16:
            seen.add(t); out.append(t)
    quick = tier == "quick"
    mem = LEAF + ARR
    for n in range(1, (2 if quick else 4) + 1):
        for ms in itertools.product(mem, repeat=n):
            add(("s", ms))
        if n > 1:
            for ms in itertools.combinations(mem, n):
                add(("u", ms)); add(("u", ms[::-1]))
    # one level of nesting: inner aggregates of 1-2 members, alone, beside one plain member, or two inner structs
    inner_alpha = LEAF if quick else mem
    inners = [("s", (m,)) for m in inner_alpha]
    inners += [("s", ms) for ms in itertools.product(inner_alpha, repeat=2)]
    inners += [("u", ms) for ms in itertools.combinations(inner_alpha, 2)]
    for k in "su":
        for inn in inners:
            add((k, (inn,)))
        for inn in inners:
            if quick and len(inn[1]) > 1:
                continue
            for l in (LEAF if quick else mem):
                add((k, (l, inn))); add((k, (inn, l)))
        if not quick:
            small = [i for i in inners if len(i[1]) == 1 or all(m in LEAF for m in i[1])]
            for a_, b_ in itertools.product(small, repeat=2):
                add((k, (a_, b_)))
    for t in NAMED:
        add(t)
    return out


def shape_reps(types):
    """Simplest type of every (size, eightbyte classes) shape."""
    reps = {}
    for t in types:
        key = (abi.layout(t)[0], tuple(abi.classify(t)))
        if key not in reps:
            reps[key] = t
    return [reps[k] for k in sorted(reps)]


class Sig:
    __slots__ = ("args", "ret", "nnamed", "ctx", "probe", "stage")
    def __init__(self, args, ret, probe, stage, nnamed=None, ctx="plain"):
        self.args, self.ret, self.nnamed, self.ctx, self.probe, self.stage = tuple(args), ret, nnamed, ctx, probe, stage
    @property
    def cid(self):
        return "%s|%s|ret=%s|%s|ctx=%s" % (self.stage, "fixed" if self.nnamed is None else "variadic%d" % self.nnamed,
                                         abi.tname(self.ret) if self.ret else "void", ",".join(abi.tname(a) for a in self.args), self.ctx)
    def key(self):
        return (self.args, self.ret, self.nnamed, self.ctx)


# ---- stages VS / WS: named parameters that travel ON THE STACK in front of the unnamed arguments ------------------
def CA(n): return ("s", (("a", C, n),))          # struct { char m0[n]; }: size n, alignment 1


# "odd" named items: every aggregate size 1..40 (all residues mod 8, in registers up to 16 bytes = spilled only when the
# registers ran out, class MEMORY from 17 on), int/float/mixed structs and unions of 4, 6, 12, 20 bytes, and every scalar
VS_MEMORY = [CA(n) for n in range(17, 41)] + [S(I, I, I, I, I), U(("a", C, 19), SH), S(F, F, F, F, F)]
VS_SMALL = [CA(n) for n in range(1, 17)] + [S(I, I, I), S(F, F, F), S(F), S(A(F), I), S(I, A(F)), S(SH, SH, SH), U(("a", C, 3), SH), S(D, F), S(L, I)]
VS_SCALAR = [P(x) for x in ("char", "short", "int", "bool", "float", "long", "ptr", "double", "ldouble")]
# (GP, SSE) registers taken by the named long/double fillers in front of the item: nothing, GP exhausted, SSE exhausted, both,
# one GP left (a 2-GP struct spills, a later long does not), one SSE left
VS_MODES = [(0, 0), (6, 8), (6, 0), (0, 8), (5, 8), (6, 7)]
# what follows the item in the NAMED list (non-last position): nothing; a long / double (on the stack when the registers are
# exhausted, 8-aligned); a long double (16-aligned); another odd-sized MEMORY struct; and one list with an odd struct in front
VS_FOLLOW = [(), (LONG,), (LDOUBLE,), (CA(19),), (DOUBLE,), (CA(3), INT)]
VS_KINDS = [INT, LONG, DOUBLE, LDOUBLE, PTR, S(I, I, I), S(F, F, F), S(L, D), S(L, L, L), CA(21)]


def vs_named_lists(tier):
    """-> [(named list, index of the odd item)]: every list has at least one named parameter that is passed on the stack
    (checked with the psABI model), the item is last or followed by further named parameters."""
    quick = tier == "quick"
    out, seen = [], set()
    for items, modes, nmode in ((VS_MEMORY, VS_MODES, 2 if quick else 6), (VS_SMALL + VS_SCALAR, VS_MODES[1:], 2 if quick else 5)):
        for t in items:
            taken = 0
            for g, s in modes:
                pre = [LONG] * g + [DOUBLE] * s
                places, _, _ = abi.assign(pre + [t])
                if places[-1][0] != "mem":
                    continue
                if taken >= nmode:
                    break
                taken += 1
                for fo in (VS_FOLLOW[:4] if quick else VS_FOLLOW):
                    nm = tuple(pre + [t] + list(fo))
                    if nm not in seen:
                        seen.add(nm); out.append((list(nm), len(pre)))
                if not quick or t in (CA(20), CA(21), S(I, I, I)):
                    nm = tuple([CA(21)] + pre + [t])         # an odd-sized stack parameter FIRST, registers filled after it
                    if nm not in seen:
                        seen.add(nm); out.append((list(nm), len(pre) + 1))
    return out


# ---- stage N: by-value aggregates among the NAMED parameters of a variadic callee ------------------------------------
# every (size, eightbyte classes) shape + struct{char[n]} for every n in 1..16 + SSE / mixed / union forms + MEMORY and x87 ones
def n_items(reps):
    out = []
    for t in list(reps) + [CA(n) for n in range(1, 17)] + [S(F), S(F, F), S(F, F, F), S(F, F, F, F), S(D), S(D, D), S(I, I), S(I, F), S(F, I),
                                                          S(D, I), S(L, D), S(D, L), S(SH), S(I, I, I), U(F, I), U(D, L), U(A(F), A(I)),
                                                          CA(17), CA(24), S(L, L, L), S(D, D, D), S(LD), S(D, LD)]:
        if t not in out:
            out.append(t)
    return out


# named scalars in front of / behind the aggregate (the aggregate is first, in the middle, last; one list leaves it 0-2 GP
# registers, thorough adds the lists that leave it exactly one GP / one SSE register and none)
N_PRE = [[], [INT], [DOUBLE], [LONG] * 4, [LONG, DOUBLE], [LONG] * 5, [DOUBLE] * 7, [LONG] * 5 + [DOUBLE] * 7, [LONG] * 6 + [DOUBLE] * 8]
N_POST = [[], [INT], [DOUBLE], [LONG, DOUBLE], [S(I, I)], [S(F, F)]]
# unnamed arguments: integer, floating and struct va_args drawn while registers remain (the named list leaves up to 6 GP /
# 8 SSE) and after both files are exhausted (each tail holds >= 8 GP and >= 10 SSE eightbytes), then MEMORY / x87 ones
N_TAILS = {
    "i": [INT, DOUBLE, LONG, S(I, I), DOUBLE, PTR, S(F, F), S(L, D), INT, LONG, LONG, DOUBLE, DOUBLE, DOUBLE, DOUBLE, DOUBLE, DOUBLE,
          LDOUBLE, S(L, L, L), INT, DOUBLE],
    "d": [DOUBLE, S(D, D), INT, S(L, L), DOUBLE, LONG, S(F, F, F), INT, S(D, L), DOUBLE, DOUBLE, LONG, LONG, DOUBLE, DOUBLE, S(L, L),
          S(D, D), LDOUBLE, LONG, DOUBLE],
    "s": [S(I, I), S(F, F), CA(3), S(L, D), S(C), LONG, DOUBLE, S(L, L), S(D, D), INT, INT, DOUBLE, DOUBLE, DOUBLE, DOUBLE, DOUBLE,
          CA(21), LONG, DOUBLE],
}
NARG_MAX = 28


def n_sigs(tier, reps):
    quick = tier == "quick"
    out = []
    pres, posts = (N_PRE[:4], N_POST[:3]) if quick else (N_PRE, N_POST)
    for t in n_items(reps):
        for pi, pre in enumerate(pres):
            for qi, post in enumerate(posts):
                nm = pre + [t] + post
                corner = (pi, qi) in ((0, 0), (1, 2))
                for tk in "ids":
                    if quick and tk != "i" and not corner:
                        continue
                    tail = N_TAILS[tk][:NARG_MAX - len(nm)]
                    out.append(Sig(nm + tail, INT, len(pre), "N", nnamed=len(nm)))
                    if corner or (not quick and qi < 3):     # the hidden return pointer takes the first GP register
                        out.append(Sig(nm + tail[:NARG_MAX - 1 - len(nm)], S(L, L, L), len(pre), "N", nnamed=len(nm)))
                # the va_list is handed to a consumer built by the other / the same compiler (vprintf style)
                if (pi, qi) in ((0, 0), (1, 0), (0, 1)) or not quick:
                    for cx in ("vfwdO", "vfwdS"):
                        out.append(Sig(nm + N_TAILS["i"][:NARG_MAX - len(nm)], INT, len(pre), "N", nnamed=len(nm), ctx=cx))
    return out


# ---- stage Z: aggregates beyond the sizes of the other stages (size-dependent lowering of copies) ---------------------
Z_SIZES_QUICK = [48, 64, 65, 96, 127, 128, 129, 130, 192, 200, 255, 256, 257, 512, 1000, 1024, 2048, 4096]
Z_SIZES_THOROUGH = sorted(set(range(41, 301)) | {511, 512, 513, 1000, 1023, 1024, 1025, 2047, 2048, 2049, 4095, 4096})


def LA(n): return ("s", (("a", L, n),))          # struct { long m0[n]; }
def z_types(n, tier):
    ts = [CA(n)]
    if n % 8 == 0:
        ts.append(LA(n // 8))
        if tier != "quick" or n in (64, 128, 256):
            ts.append(U(("a", C, n), ("a", L, n // 8)))
    return ts


def z_sigs(tier):
    quick = tier == "quick"
    out = []
    full = [LONG] * 6 + [DOUBLE] * 8
    for n in (Z_SIZES_QUICK if quick else Z_SIZES_THOROUGH):
        for t in z_types(n, tier):
            out.append(Sig([t, LONG], t, 0, "Z"))                                   # by value and returned
            out.append(Sig(full + [t, INT, t, LONG], INT, 14, "Z"))                 # twice on the stack, between other stack arguments
            out.append(Sig([t, LONG], t, 0, "Z", ctx="A0"))                         # the argument is the result of an inner call
            out.append(Sig([INT, t, LONG, DOUBLE], INT, 1, "Z", nnamed=1))          # fetched by va_arg
            out.append(Sig([t, INT, DOUBLE], t, 0, "Z", nnamed=1))                  # named parameter of a variadic callee, returned
            if not quick or n in (128, 129, 256):
                out.append(Sig([INT, t, DOUBLE], t, 1, "Z"))
                out.append(Sig([LONG, t], t, 1, "Z", ctx="L2"))                     # call under pending temporaries
                out.append(Sig([LONG, t], t, 1, "Z", ctx="noproto"))
    return out


def vs_tail(named, ret, how):
    """Unnamed fillers that use up the argument registers the named parameters left free: how = 'x' both files, 'g' GP only,
    's' SSE only, '0' none."""
    _, gp, sse = abi.assign(named, ret)
    g = abi.GP_MAX - gp if how in "xg" else 0
    s = abi.SSE_MAX - sse if how in "xs" else 0
    return [LONG if i % 2 else INT for i in range(g)] + [DOUBLE] * s


def boundary_positions(t, ret):
    """(g, s) filler counts that put `t` on every side of the register-exhaustion boundary."""
    hidden = 1 if abi.ret_where(ret) == "memory" else 0
    need = abi.arg_need(t) or (0, 0)
    g6, s8 = abi.GP_MAX - hidden, abi.SSE_MAX
    pos = [(0, 0), (g6 - need[0], s8 - need[1]), (g6, s8)]
    if need[0]:
        pos += [(g6 - need[0] + 1, 0), (g6 - need[0] + 1, s8 - need[1])]
    if need[1]:
        pos += [(0, s8 - need[1] + 1), (g6 - need[0], s8 - need[1] + 1)]
    if need[0] == 2:
        pos.append((g6 - 1, s8))
    out = []
    for p in pos:
        if p not in out and p[0] >= 0 and p[1] >= 0:
            out.append(p)
    return out


def gen_sigs(tier):
    quick = tier == "quick"
    types = enum_types(tier)
    reps = shape_reps(types)
    sigs = []
    # A: every aggregate type as argument and as return type on its register-exhaustion boundaries
    for t in types + BIG + X87:
        for g, s in boundary_positions(t, t):
            sigs.append(Sig([LONG] * g + [DOUBLE] * s + [t, LONG, DOUBLE], t, g + s, "A"))
    # B: shape representatives and primitives x all filler counts x trailing argument of each primitive class
    probes = PRIMS + reps + BIG[:3] + X87[:2]
    gs = (0, 4, 5, 6, 7) if quick else range(8)
    ss = (0, 6, 7, 8, 9) if quick else range(10)
    trail = [None, P("long"), P("double"), P("ldouble"), P("char")] if quick else [None] + PRIMS
    for t in probes:
        for g in gs:
            for s in ss:
                for tr in trail:
                    sigs.append(Sig([LONG] * g + [DOUBLE] * s + [t] + ([tr] if tr else []), INT, g + s, "B"))
    # B2: probe first, fillers after it (order), and GP/SSE fillers interleaved
    for t in probes:
        for g, s in ((6, 8), (7, 9), (5, 7)):
            sigs.append(Sig([t] + [LONG] * g + [DOUBLE] * s, INT, 0, "B2"))
            il = [x for pair in itertools.zip_longest([DOUBLE] * s, [LONG] * g) for x in pair if x]
            sigs.append(Sig(il + [t, INT], INT, len(il), "B2"))
    # C: return type of every class x GP pressure (hidden pointer) x a struct argument
    rets = [None] + PRIMS + reps + BIG + X87
    for r in rets:
        for g in ((0, 5, 6, 7) if quick else range(8)):
            for s in ((0, 9) if quick else (0, 8, 9)):
                for pr in ((None, S(L, D)) if quick else (None, S(L, D), S(L, L), S(F, F, F))):
                    sigs.append(Sig([LONG] * g + [DOUBLE] * s + ([pr] if pr else []), r, g + s if pr else max(g + s - 1, 0), "C"))
    # D: two aggregate probes in one call
    dreps = [S(L), S(D), S(L, L), S(D, D), S(L, D), S(D, L), S(F, F, F), S(I, I, I), S(L, L, L), S(LD), S(C), S(F)] if quick else reps + BIG[:2] + X87[:1]
    for t1 in dreps:
        for t2 in dreps:
            for g, s in ((0, 0), (4, 6), (5, 7), (3, 5)):
                sigs.append(Sig([LONG] * g + [DOUBLE] * s + [t1, t2, LONG, DOUBLE], INT, g + s, "D"))
    # V: variadic callees: named prefix x fillers x probe fetched by va_arg x trailing
    named = [[INT], [DOUBLE], [LONG, DOUBLE], [S(L, D)], [LDOUBLE], [S(L, L, L)]]
    if not quick:
        named += [[LONG, S(L, L)], [INT, INT], [S(D, D)], [S(F,)], [DOUBLE, S(C,)], [PTR, LDOUBLE]]
    vprobes = [INT, LONG, DOUBLE, PTR, LDOUBLE] + ([S(I), S(L, L), S(D, D), S(L, D), S(D, L), S(F, F, F), S(C), S(L, L, L), S(LD)] if quick else reps + BIG[:2] + X87[:2])
    vgs = (0, 3, 4, 5, 6) if quick else range(8)
    for nm in named:
        for t in vprobes:
            for g in vgs:
                for s in ss:
                    for tr in (None, [LONG, DOUBLE]):
                        gf = [LONG if i % 2 else INT for i in range(g)]
                        sigs.append(Sig(nm + gf + [DOUBLE] * s + [t] + (tr or []), INT, len(nm) + g + s, "V", nnamed=len(nm)))
    # V2: variadic callees returning every class (hidden pointer is a named GP register)
    for r in (DOUBLE, LDOUBLE, S(L, D), S(L, L, L), S(LD)):
        for t in (LONG, DOUBLE, S(L, D)):
            for g in vgs:
                for s in ss:
                    gf = [LONG if i % 2 else INT for i in range(g)]
                    sigs.append(Sig([INT] + gf + [DOUBLE] * s + [t, LONG, DOUBLE], r, 1 + g + s, "V", nnamed=1))
    # VS: variadic callees whose NAMED parameters (partly) travel on the stack: the unnamed arguments fetched from the overflow
    # area start behind them (after rounding up to 8), whatever the size of the last stack-passed named parameter is
    vlists = vs_named_lists(tier)
    memkinds = (LDOUBLE, S(L, L, L), CA(21))
    for nm, idx in vlists:
        for t in VS_KINDS:
            for how in "x0" if quick else "xgs0":
                if quick and how == "0" and t not in memkinds + (INT,):
                    continue
                if how in "gs" and t not in (INT, DOUBLE, LDOUBLE, S(L, D), S(L, L, L)):
                    continue
                fill = vs_tail(nm, INT, how)
                sigs.append(Sig(nm + fill + [t, LONG, DOUBLE], INT, len(nm) + len(fill), "VS", nnamed=len(nm)))
    # ... and with the hidden return pointer taking the first GP register of the named list
    for nm, idx in vlists:
        if nm[0] == LONG and (not quick or len(nm) == idx + 1):
            for t in (INT, DOUBLE, S(L, L, L)) if quick else VS_KINDS:
                fill = vs_tail(nm[1:], S(L, L, L), "x")
                sigs.append(Sig(nm[1:] + fill + [t, LONG, DOUBLE], S(L, L, L), len(nm) - 1 + len(fill), "VS", nnamed=len(nm) - 1))
    # WS: the same named lists, the va_list handed to a function built by the other / the same compiler
    for nm, idx in vlists:
        if quick and (len(nm) != idx + 1 or (nm[:idx] not in ([], [LONG] * 6 + [DOUBLE] * 8) and abi.arg_need(nm[idx]) is None)):
            continue            # quick: item last, MEMORY items with no fillers or all registers taken
        if not quick and len(nm) > idx + 1 and nm[idx + 1:] not in ([LONG], [LDOUBLE], [CA(19)]):
            continue
        for t in VS_KINDS:
            for cx in ("vfwdO", "vfwdS"):
                fill = vs_tail(nm, INT, "x")
                sigs.append(Sig(nm + fill + [t, LONG, DOUBLE], INT, len(nm) + len(fill), "WS", nnamed=len(nm), ctx=cx))
    # M: fixed signatures with the VS aggregates (every size 1..40): on the stack followed by further stack arguments, and returned
    for t in VS_MEMORY + VS_SMALL:
        full = [LONG] * 6 + [DOUBLE] * 8
        sigs.append(Sig(full + [t, INT, DOUBLE, t, LONG], INT, 14, "M"))
        sigs.append(Sig(full[1:] + [t, INT, DOUBLE, t, LONG], t, 13, "M"))
        if abi.arg_need(t) is None:
            sigs.append(Sig([t, LDOUBLE, t, S(L, L, L), t, LONG], INT, 0, "M"))
            sigs.append(Sig([t, t], t, 0, "M"))
    # K: callee declared without a prototype at the call site (arguments already of promoted types)
    for t in [INT, LONG, DOUBLE, PTR, LDOUBLE, S(L, L), S(D, D), S(L, D), S(F, F, F), S(C), S(L, L, L), S(LD)]:
        for g in (0, 5, 6, 7):
            for s in (0, 7, 8, 9):
                for r in (INT, S(L, L, L)):
                    sigs.append(Sig([LONG] * g + [DOUBLE] * s + [t, LONG, DOUBLE], r, g + s, "K", ctx="noproto"))
    # W: the va_list of a variadic callee is handed to a function built by the other compiler (vprintf-style)
    for nm in ([INT], [DOUBLE], [LONG, DOUBLE]):
        for t in [INT, LONG, DOUBLE, PTR, LDOUBLE, S(L, L), S(D, D), S(L, D), S(L, L, L)]:
            for g in (0, 3, 5, 6):
                for s in (0, 1, 2, 7, 8, 9):
                    for cx in ("vfwdO", "vfwdS"):
                        gf = [LONG if i % 2 else INT for i in range(g)]
                        sigs.append(Sig(nm + gf + [DOUBLE] * s + [t, LONG, DOUBLE], INT, len(nm) + g + s, "W", nnamed=len(nm), ctx=cx))
    # X: the call nested in expressions with pending temporaries, and arguments produced by inner calls
    xreps = [LONG, DOUBLE, LDOUBLE, S(L, L), S(L, D), S(F, F, F), S(L, L, L), S(C)] if quick else PRIMS + reps + BIG[:1] + X87[:1]
    ctxs = ["L1", "L2", "L3", "R1", "R2", "R3", "DL1", "DL2", "DL3", "DR1", "DR2", "A0", "Ap", "Az"]
    for t in xreps:
        for g, s in ((0, 0), (6, 8), (7, 8), (7, 9), (8, 9)):
            for r in (INT, S(L, L, L)) if quick else (INT, DOUBLE, S(L, D), S(L, L, L), LDOUBLE):
                for cx in ctxs:
                    sigs.append(Sig([LONG] * g + [DOUBLE] * s + [t, LONG], r, g + s, "X", ctx=cx))
    sigs += n_sigs(tier, reps)
    sigs += z_sigs(tier)
    # dedupe (stable)
    seen, out = set(), []
    for sg in sigs:
        if len(sg.args) > NARG_MAX:
            continue
        k = sg.key()
        if k not in seen:
            seen.add(k); out.append(sg)
    return out, len(types), len(reps)


# ---- code generation ---------------------------------------------------------
UNIT_HEAD = r'''
#define VP_C3_(a,b,c) a##b##c
#define VP_C3(a,b,c) VP_C3_(a,b,c)
#define OTHER(x) VP_C3(t_,OPFX,x)
#define SAME(x) VP_C3(t_,PFX,x)
#define OTHERRAW(x) VP_C3(OPFX,x,)
#define SAMERAW(x) VP_C3(PFX,x,)
#include <stdarg.h>
extern unsigned char vp_arg[][VP_SLOT], vp_cap[][VP_SLOT], vp_retsrc[], vp_retdst[];
extern volatile int vp_ncall, vp_nid;
extern volatile long vp_one, vp_x[3], vp_sink;
extern volatile double vp_done, vp_dx[3], vp_dsink;
extern volatile long double vp_ldsrc;
extern volatile long vp_lconv;
'''


def build_batch(sigs):
    """-> (unit text, stub asm text, driver table text)."""
    tid = {}
    def T(t):
        if t not in tid:
            tid[t] = len(tid)
        return "T%d" % tid[t]
    u, stubs, rows, calls = [UNIT_HEAD], [], [], []
    body = []
    idfns = {}
    for n, sg in enumerate(sigs):
        at = [T(a) for a in sg.args]
        rt = T(sg.ret) if sg.ret else "void"
        var = sg.nnamed is not None
        nn = sg.nnamed if var else len(at)
        params = ", ".join("%s p%d" % (at[k], k) for k in range(nn)) + (", ..." if var else "")
        proto = ", ".join(at[:nn]) + (", ..." if var else "")
        if not params:
            params = proto = "void"
        b = ["%s FN(e_%d)(%s) {" % (rt, n, params)]
        if var:
            b.append("  va_list ap; va_start(ap, p%d);" % (nn - 1))
        fwd = sg.ctx.startswith("vfwd")
        if fwd:     # the va_list is consumed by a function compiled by the other (vfwdO) / the same (vfwdS) compiler
            w = ["void FN(w_%d)(va_list ap) {" % n]
            w += ["  *(%s *)vp_cap[%d] = va_arg(ap, %s);" % (at[k], k, at[k]) for k in range(nn, len(at))]
            body.append("\n".join(w) + "\n}\nvoid OTHERRAW(w_%d)(va_list); void SAMERAW(w_%d)(va_list);" % (n, n))
        for k in range(len(at)):
            if k < nn:
                b.append("  *(%s *)vp_cap[%d] = p%d;" % (at[k], k, k))
            elif not fwd:
                b.append("  *(%s *)vp_cap[%d] = va_arg(ap, %s);" % (at[k], k, at[k]))
        if fwd:
            b.append("  %s(w_%d)(ap);" % ("OTHERRAW" if sg.ctx == "vfwdO" else "SAMERAW", n))
        if var:
            b.append("  va_end(ap);")
        if LDOUBLE in sg.args or sg.ret == LDOUBLE:
            b.append("  vp_lconv = (long)vp_ldsrc;")      # long double -> integer conversion: chibicc switches the x87 control word for it
        b.append("  vp_ncall++;")
        if sg.ret:
            b.append("  return *(%s *)vp_retsrc;" % rt)
        b.append("}")
        nid = 0
        for which in ("OTHER", "SAME"):
            av = ["*(%s *)vp_arg[%d]" % (at[k], k) for k in range(len(at))]
            if sg.ctx[0] == "A":
                j = {"A0": 0, "Ap": sg.probe, "Az": len(at) - 1}[sg.ctx]
                idfns[sg.args[j]] = at[j]
                av[j] = "%s(i_%s)(%s)" % (which, at[j], av[j])
                nid = 1
            call = "%s(e_%d)(%s)" % (which, n, ", ".join(av))
            asg = "*(%s *)vp_retdst = %s" % (rt, call) if sg.ret else call
            m = re.match(r"(D?)([LR])(\d)", sg.ctx)
            if m:
                one, xs, sink = ("vp_done", "vp_dx", "vp_dsink") if m.group(1) else ("vp_one", "vp_x", "vp_sink")
                e = "(%s, %s)" % (asg, one)
                for i in range(int(m.group(3))):
                    e = "(%s + %s[%d])" % (e, xs, i) if m.group(2) == "L" else "(%s[%d] + %s)" % (xs, i, e)
                stmt = "%s = %s;" % (sink, e)
            else:
                stmt = asg + ";"
            b.append("%s %s(e_%d)(%s);" % (rt, which, n, "" if sg.ctx == "noproto" else proto))
            b.append("void FN(%s_%d)(void) { %s }" % ("r" if which == "OTHER" else "s", n, stmt))
        body.append("\n".join(b))
        sink = dsink = 0
        m = re.match(r"(D?)([LR])(\d)", sg.ctx)
        if m:
            k = int(m.group(3))
            if m.group(1): dsink = 1.0 + sum([0.5, 0.25, 0.125][:k])
            else: sink = 1 + sum([10, 100, 1000][:k])
        _, _, nvec = abi.assign(sg.args, sg.ret)
        # dead stack scrubbed before the test: room for the by-value copies / temporaries of large aggregates
        extra = 6 * sum(abi.layout(t)[0] for t in sg.args + ((sg.ret,) if sg.ret else ()) if abi.layout(t)[0] > 64)
        rows.append("{%d,%d,%d,%d,%d,%d,%d,%d,%s,{%s}}" % (len(at), tid[sg.ret] if sg.ret else -1, nvec, 1 if var or sg.ctx == "noproto" else 0, nid,
                                                        1 if abi.ret_where(sg.ret) == "memory" else 0, extra, sink, repr(dsink),
                                                     ",".join(str(tid[a]) for a in sg.args) or "0"))
        calls.append("{t_cc_r_%d,t_ref_r_%d,t_cc_s_%d,t_ref_s_%d}" % (n, n, n, n))
        for p in ("cc_", "ref_"):
            stubs += ["t_%se_%d" % (p, n), "t_%sr_%d" % (p, n), "t_%ss_%d" % (p, n)]
    # identity functions used by the argument-of-a-call contexts
    idtxt = []
    for t, nm in idfns.items():
        idtxt.append("%s FN(i_%s)(%s x) { vp_nid++; return x; }\n%s OTHER(i_%s)(%s); %s SAME(i_%s)(%s);" % (nm, nm, nm, nm, nm, nm, nm, nm, nm))
        for p in ("cc_", "ref_"):
            stubs.append("t_%si_%s" % (p, nm))
    for t, i in sorted(tid.items(), key=lambda kv: kv[1]):
        u.append("typedef %s;  /* %s */" % (abi.cdecl(t, "T%d" % i), abi.tname(t)))
    unit = "\n".join(u) + "\n" + "\n".join(idtxt) + "\n" + "\n".join(body) + "\n"
    asm = ["    .text"]
    for s in stubs:
        asm.append("    .globl %s\n%s: lea %s(%%rip), %%r10\n    jmp vp_thunk" % (s, s, s[2:]))
    asm.append('    .section .note.GNU-stack,"",@progbits')
    tys = []
    slot = 64
    for t, i in sorted(tid.items(), key=lambda kv: kv[1]):
        size, mask = abi.value_mask(t)
        if size > 64:
            if len(mask) != size:
                raise core.HarnessError("aggregate of more than 64 bytes with padding: " + abi.tname(t))
            slot = max(slot, (size + 64 + 63) // 64 * 64)
            mask = []
        bits = sum(1 << o for o in mask)
        tys.append("{%d,0x%xUL,%d}" % (size, bits, 1 if t == P("bool") else 0))
    unit = "#define VP_SLOT %d\n" % slot + unit
    d = ["#define VP_NSIG %d" % len(sigs), "#define VP_SLOT %d" % slot,
         "struct vp_ty { int size; unsigned long mask; int isbool; };",
         "struct vp_sg { short nargs, ret, nvec, variadic, nid, retmem; long scrub, sink; double dsink; short arg[32]; };",
         "static const struct vp_ty VP_TY[] = {%s};" % ",\n".join(tys),
         "static const struct vp_sg VP_SG[] = {\n%s};" % ",\n".join(rows)]
    for n in range(len(sigs)):
        d.append("void t_cc_r_%d(void), t_ref_r_%d(void), t_cc_s_%d(void), t_ref_s_%d(void);" % (n, n, n, n))
    d.append("static void (*const VP_CALL[][4])(void) = {\n%s};" % ",\n".join(calls))
    with open(os.path.join(HARNESS, "c06_drv.c")) as f:
        drv = f.read()
    return twin.PRELUDE + unit, "\n".join(asm) + "\n", "\n".join(d) + "\n" + drv


REPLAY = r'''# single signature; exit 1 iff the recorded configuration still fails
$CHIBICC -DPFX=cc_ -DOPFX=ref_ -c -o cc.o unit.c || exit %(ccfail)d
gcc -O0 -fno-strict-aliasing -w -std=gnu11 -fno-builtin -fno-pie -DPFX=ref_ -DOPFX=cc_ -c -o ref.o unit.c || exit 0
gcc -c -o stubs.o stubs.S && gcc -c -o thunk.o c06_thunk.S || exit 0
gcc -O1 -w -std=gnu11 -fno-pie -no-pie -o drv driver.c cc.o ref.o stubs.o thunk.o -Wl,-z,noexecstack || exit 0
./drv %(lin)d 1 > out.txt; cat out.txt
grep -q '^[FC] ' out.txt && exit 1
exit 0
'''


class _C:
    chibicc = None


def _compile_cc(chibicc, wd, unit):
    p = os.path.join(wd, "unit.c")
    with open(p, "w") as f:
        f.write(unit)
    _C.chibicc = chibicc
    return twin.cc_compile(_C, p, os.path.join(wd, "cc.o"), ["-DPFX=cc_", "-DOPFX=ref_"], cwd=wd)


def _tool(argv, cwd, timeout):
    """gcc / as invocation of the harness; a tool process killed from outside (SIGTERM/SIGKILL on the shared machine) is retried."""
    for attempt in range(3):
        st, o, e = core.run_limited(argv, cwd=cwd, timeout=timeout)
        if st not in (-15, -9):
            break
    return st, o, e


def _ref_compile(src, obj, flags, cwd):
    for attempt in range(3):
        ok, err = twin.ref_compile(src, obj, flags, cwd=cwd)
        if ok or err.strip():
            break
    return ok, err


def _run_drv(exe, wd, first=None, count=None, timeout=300):
    argv = [exe] + ([str(first)] if first is not None else []) + ([str(count)] if count is not None else [])
    return core.run_limited(argv, cwd=wd, timeout=timeout)


def _parse(out):
    fails, oracle, crash, summ = [], [], None, None
    for line in out.splitlines():
        w = line.split()
        if not w: continue
        if w[0] == "F":
            fails.append((int(w[1]), int(w[2]), dict(x.split("=", 1) for x in w[3:])))
        elif w[0] == "O":
            oracle.append(line)
        elif w[0] == "C":
            crash = (int(w[1]), int(w[2]), int(w[3]))
        elif w[0] == "S":
            summ = dict((k, int(v)) for k, v in (x.split("=") for x in w[1:]))
    return fails, oracle, crash, summ


def _run_batch(a):
    chibicc, wd, bidx, sigs, thunk_o = a
    os.makedirs(wd, exist_ok=True)
    res = {"bidx": bidx, "ccfail": [], "fails": [], "oracle": [], "tests": 0, "calls": 0, "harness": None, "nsig": 0}
    live = list(range(len(sigs)))
    # 1. chibicc side; a rejected batch is bisected down to single signatures, which are dropped and reported
    while True:
        unit, stubs, drv = build_batch([sigs[i] for i in live])
        ok, stage, st, err = _compile_cc(chibicc, wd, unit)
        if ok or not live:
            break
        bad = []
        stack = [live]
        while stack:
            part = stack.pop()
            u1, _, _ = build_batch([sigs[i] for i in part])
            ok1, stage1, st1, err1 = _compile_cc(chibicc, wd, u1)
            if ok1:
                continue
            if len(part) == 1:
                bad.append(part[0])
                res["ccfail"].append((part[0], stage1, st1, (err1.strip().splitlines() or [""])[-1][:300]))
            else:
                stack.append(part[:len(part) // 2]); stack.append(part[len(part) // 2:])
        if not bad:
            res["harness"] = "chibicc fails on the batch but on no part of it: %s %s %s" % (stage, st, err[-300:])
            return res
        live = [i for i in live if i not in bad]
    if not live:
        return res
    res["nsig"] = len(live)
    # 2. reference side, stubs, driver
    ok, err = _ref_compile(os.path.join(wd, "unit.c"), os.path.join(wd, "ref.o"), ["-DPFX=ref_", "-DOPFX=cc_"], cwd=wd)
    if not ok:
        res["harness"] = "gcc rejects the unit: " + err[-1500:]
        return res
    with open(os.path.join(wd, "stubs.S"), "w") as f: f.write(stubs)
    with open(os.path.join(wd, "driver.c"), "w") as f: f.write(drv)
    st, o, e = _tool(["gcc", "-c", "-o", "stubs.o", "stubs.S"], wd, 300)
    if st != 0:
        res["harness"] = "stubs: " + e[-500:]; return res
    st, o, e = _tool(twin.GCC_DRV + ["-o", "drv", "driver.c", "cc.o", "ref.o", "stubs.o", thunk_o, "-no-pie", "-Wl,-z,noexecstack"], wd, 600)
    if st != 0:
        res["harness"] = "driver link: status=%s %s" % (st, e[-1500:]); return res
    exe = os.path.join(wd, "drv")
    # 3. run; a fatal signal ends the process (exit 77) and the loop is resumed after the offending test
    first, total = 0, len(live) * 4
    cand = []
    guard = 0
    while first < total:
        guard += 1
        st, out, err = _run_drv(exe, wd, first)
        fails, oracle, crash, summ = _parse(out)
        cand += [(n, c, d) for n, c, d in fails]
        res["oracle"] += oracle
        if summ and st == 0:
            break
        if crash:
            cand.append((crash[0], crash[1], {"crash": str(crash[2])}))
            first = crash[0] * 4 + crash[1] + 1
            continue
        res["harness"] = "driver died without a crash record: status=%s first=%d %s" % (st, first, err[-300:])
        return res
    # 4. every candidate is re-run alone in a fresh process (earlier wild writes must not be blamed on later tests)
    for n, c, d in cand:
        st, out, err = _run_drv(exe, wd, n * 4 + c, 1, timeout=60)
        fails, oracle, crash, summ = _parse(out)
        if crash:
            d2 = {"crash": str(crash[2])}
        elif st == "timeout":
            d2 = {"crash": "hang"}
        elif fails:
            d2 = fails[0][2]
        else:
            res.setdefault("unconfirmed", []).append((live[n], c, d))
            continue
        res["fails"].append((live[n], c, d2))
    res["tests"] = total
    shutil.rmtree(wd, ignore_errors=True)
    return res


# ---- classification of a failure ------------------------------------------------
BADBITS = [(0x01, "rbx"), (0x02, "rbp"), (0x04, "r12"), (0x08, "r13"), (0x10, "r14"), (0x20, "r15")]
SIGNAME = {"11": "SIGSEGV", "7": "SIGBUS", "4": "SIGILL", "8": "SIGFPE", "14": "hang(SIGALRM)", "6": "SIGABRT", "5": "SIGTRAP", "hang": "hang"}


def arg_label(sg, k):
    places, _, _ = abi.assign(sg.args, sg.ret)
    t = sg.args[k]
    pl = places[k]
    lab = "%s@%s,%s" % (abi.class_pattern(t), abi.pressure(t, pl[1], pl[2]), "in-regs" if pl[0] == "reg" else "in-memory")
    if sg.nnamed is not None:
        lab += ",named" if k < sg.nnamed else ",va_arg"
        if k >= sg.nnamed and pl[0] == "mem" and named_stack_end(sg, places) % 8:
            lab += ",named-stack-args-end-off-the-8-grid"
    return lab


def named_stack_end(sg, places=None):
    """Offset (from the first stack argument) at which the named parameters passed on the stack end."""
    if places is None:
        places, _, _ = abi.assign(sg.args, sg.ret)
    end = 0
    for j in range(sg.nnamed or 0):
        if places[j][0] == "mem":
            sz, al, _ = abi.layout(sg.args[j])
            end = (end + max(8, al) - 1) // max(8, al) * max(8, al) + sz
    return end


def classify_failure(sg, cfg, d):
    """-> (signature, description)"""
    direction = CFGNAME[cfg]
    if sg.ctx == "vfwdO":
        direction += ",va_list:" + ("gcc->cc" if cfg in (0, 3) else "cc->gcc")
    kind = "fixed" if sg.nnamed is None else "variadic"
    ctx = "" if sg.ctx == "plain" else "|ctx=%s" % ("inner-call-as-argument" if sg.ctx[0] == "A" else "va_list-forwarded" if sg.ctx[0] == "v" else "no-prototype" if sg.ctx[0] == "n"
                                                    else "pending-temporaries")
    if "crash" in d:
        what, dev = "probe:" + arg_label(sg, min(sg.probe, len(sg.args) - 1)) if sg.args else "no-args", "crash:" + SIGNAME.get(d["crash"], d["crash"])
        if sg.stage == "C":
            what = "ret:" + abi.class_pattern(sg.ret)
    elif "bad" in d:
        bad = int(d["bad"], 16)
        devs = []
        if bad & 0x100: devs.append("stack-misaligned-at-call")
        if bad & 0x3f: devs.append("callee-saved-clobbered:" + "+".join(n for b, n in BADBITS if bad & b))
        if bad & 0x40: devs.append("rsp-not-restored")
        if bad & 0x400: devs.append("mxcsr-changed")
        if bad & 0x800: devs.append("x87cw-changed")
        if bad & 0x1200: devs.append("DF-set")
        what = "callee-state"
        if bad & 0x100:      # alignment depends on how many eightbytes travel on the stack
            what = "probe:" + (arg_label(sg, min(sg.probe, len(sg.args) - 1)) if sg.args else "no-args") + ",ret:" + abi.class_pattern(sg.ret)
        dev = ",".join(devs)
    elif "arg" in d:
        k = int(d["arg"].split("@")[0])
        what, dev = "arg:" + arg_label(sg, k), "arg-bytes-differ"
        if "ncall" in d: dev += ",callee-ran-%s-times" % d["ncall"]
    elif "ret" in d:
        what, dev = "ret:%s(%s)" % (abi.class_pattern(sg.ret), abi.ret_where(sg.ret)), "returned-bytes-differ"
    elif "raxptr" in d:
        what, dev = "ret:%s(%s)" % (abi.class_pattern(sg.ret), abi.ret_where(sg.ret)), "rax-is-not-the-hidden-pointer"
    elif "al" in d:
        al, vec = int(d["al"].split(",")[0]), int(d["al"].split("=")[-1])
        what, dev = "vector-count", "al-below-vector-registers-used" if al < vec else "al-above-8"
    elif "sink" in d or "dsink" in d:
        what, dev = "pending-temporaries", "surrounding-expression-value-lost"
    else:
        what, dev = "call-count", "+".join(sorted(d))
    # aggregates beyond 64 bytes (stage Z) share one class: a size threshold in the lowering is one root cause, not one per size
    what = re.sub(r"(struct|union)(\d+)\[MEMORY\]", lambda m: m.group(0) if int(m.group(2)) <= 64 else m.group(1) + "65+[MEMORY]", what)
    sig = "C06|%s|%s|%s%s|%s" % (direction, kind, what, ctx, dev)
    desc = "%s: %s %s -> %s   [%s]" % (direction, sg.cid, " ".join("%s=%s" % kv for kv in sorted(d.items())), dev, proto_text(sg))
    return sig, desc


def proto_text(sg):
    nn = len(sg.args) if sg.nnamed is None else sg.nnamed
    def cn(t): return abi.PRIM[t[1]][3] if t[0] == "p" else abi.cdecl(t, "").strip()
    ps = [cn(a) for a in sg.args[:nn]] + (["..."] if sg.nnamed is not None else [])
    s = "%s f(%s)" % (cn(sg.ret) if sg.ret else "void", ", ".join(ps) or "void")
    if sg.nnamed is not None:
        s += " called with variable arguments (%s)" % ", ".join(cn(a) for a in sg.args[nn:])
    return s


# ---- family G: bits the ABI leaves undefined ---------------------------------------
G_TYPES = [("bool", "_Bool", 8), ("schar", "signed char", 8), ("uchar", "unsigned char", 8), ("char", "char", 8), ("short", "short", 16),
           ("ushort", "unsigned short", 16), ("int", "int", 32), ("uint", "unsigned int", 32)]


def garbage_unit():
    u = ["long FN(g_idl)(long x) { return x; }", "extern long vp_g_tab[];"]
    names = []
    for nm, ct, bits in G_TYPES:
        u.append("%s vp_gr_%s(void);" % (ct, nm))
        forms = {"conv": "return vp_gr_%s();" % nm, "store": "long x = vp_gr_%s(); return x;" % nm,
                 "cond": "return vp_gr_%s() ? 11 : 22;" % nm, "not": "return !vp_gr_%s();" % nm,
                 "cmp": "return vp_gr_%s() == (%s)%s;" % (nm, ct, "1" if nm == "bool" else "-1"),
                 "arg": "return FN(g_idl)(vp_gr_%s());" % nm, "arith": "return vp_gr_%s() + 1L;" % nm,
                 "neg": "return -(long)vp_gr_%s();" % nm, "tolocal": "%s v = vp_gr_%s(); return (long)v * 3;" % (ct, nm),
                 "ret": "return FN(g_fw_%s)();" % nm}
        u.append("static %s FN(g_fw_%s)(void) { return vp_gr_%s(); }" % (ct, nm, nm))
        for f, bodytxt in forms.items():
            u.append("long FN(gr_%s_%s)(void) { %s }" % (nm, f, bodytxt))
            names.append(("gr_%s_%s" % (nm, f), nm, bits, "ret"))
        # narrow parameters with noise above their width (all six GP registers carry the same noisy word)
        u.append("long FN(ga_%s)(%s a, %s b, %s c, %s d, %s e, %s f) { return (long)a + 3 * (long)b + 5 * (long)c + 7 * (long)d + 11 * (long)e + 13 * (long)f + (a ? 100000 : 0) + (f == (%s)%s ? 1000000 : 0); }"
                 % (nm, ct, ct, ct, ct, ct, ct, ct, "1" if nm == "bool" else "-1"))
        names.append(("ga_%s" % nm, nm, bits, "arg"))
    u.append("float vp_gr_float(void);")
    for f, bodytxt in {"conv": "return vp_gr_float();", "add": "return vp_gr_float() + 1.0;", "cmp": "return vp_gr_float() > 0;"}.items():
        u.append("double FN(gr_float_%s)(void) { %s }" % (f, bodytxt))
        names.append(("gr_float_%s" % f, "float", 32, "retf"))
    u.append("double FN(ga_float)(float a, float b, float c, float d) { return (double)a + 3.0 * b + 5.0 * c + 7.0 * d; }")
    names.append(("ga_float", "float", 32, "argf"))
    return "\n".join(u) + "\n", names


G_DRV = r'''
#include <stdio.h>
#include <string.h>
extern unsigned long vp_g_val, vp_g_args[6];
extern unsigned char vp_g_fargs[64];
long vp_g_call(void *); double vp_g_calld(void *);
struct row { const char *name; int bits, kind; void *cc, *ref; };
%s
int main(void) {
  static const unsigned long lows[] = {0, 1, 2, 0x7f, 0x80, 0xff, 0x100, 0x7fff, 0x8000, 0xffff, 0x10000, 0x7fffffff, 0x80000000, 0xffffffff};
  static const unsigned long noise[] = {0xA5A5A5A5A5A5A5A5UL, 0x5A5A5A5A5A5A5A5AUL, 0xFFFFFFFFFFFFFFFFUL, 0};
  static const float fl[] = {0.0f, 1.5f, -2.25f, 3.0e20f};
  long evals = 0, distinct = 0;
  for (unsigned r = 0; r < sizeof rows / sizeof *rows; r++) {
    long seen0 = 0, seenset = 0;
    for (unsigned ni = 0; ni < 4; ni++) for (unsigned li = 0; li < 14; li++) {
      int bits = rows[r].bits;
      unsigned long lo = lows[li], mask = bits == 64 ? ~0UL : (1UL << bits) - 1;
      if (lo > mask) continue;
      if (!strncmp(rows[r].name + 3, "bool", 4) && lo > 1) continue;      /* bits 1..7 of a _Bool are defined to be 0 */
      unsigned long v = (noise[ni] & ~mask) | lo;
      if (rows[r].kind == 0 || rows[r].kind == 1) {
        long a, b;
        if (rows[r].kind == 0) { vp_g_val = v; a = ((long (*)(void))rows[r].cc)(); b = ((long (*)(void))rows[r].ref)(); }
        else { for (int i = 0; i < 6; i++) vp_g_args[i] = v; a = vp_g_call(rows[r].cc); b = vp_g_call(rows[r].ref); }
        evals++;
        if (!seenset) { seen0 = b; seenset = 1; } else if (b != seen0) seenset = 2;
        if (a != b) printf("G %%s lo=0x%%lx noise=%%u cc=%%ld ref=%%ld\n", rows[r].name, lo, ni, a, b);
      } else {
        if (li >= 4) continue;
        unsigned int fb; memcpy(&fb, &fl[li], 4);
        unsigned long w = (noise[ni] << 32) | fb;
        double a, b;
        if (rows[r].kind == 2) { vp_g_val = w; a = ((double (*)(void))rows[r].cc)(); b = ((double (*)(void))rows[r].ref)(); }
        else { for (int i = 0; i < 8; i++) memcpy(vp_g_fargs + 8 * i, (i & 1) ? (void *)&noise[ni] : (void *)&w, 8);
               a = vp_g_calld(rows[r].cc); b = vp_g_calld(rows[r].ref); }
        evals++;
        if (!seenset) { memcpy(&seen0, &b, 8); seenset = 1; } else if (memcmp(&seen0, &b, 8)) seenset = 2;
        if (memcmp(&a, &b, 8)) printf("G %%s lo=%%g noise=%%u cc=%%g ref=%%g\n", rows[r].name, (double)fl[li], ni, a, b);
      }
    }
    if (seenset == 2) distinct++;
  }
  printf("S evals=%%ld distinct=%%ld rows=%%u\n", evals, distinct, (unsigned)(sizeof rows / sizeof *rows));
  return 0;
}
'''

def run_garbage(ctx, thunk_o):
    wd = ctx.mkdir("garb")
    unit, names = garbage_unit()
    kinds = {"ret": 0, "arg": 1, "retf": 2, "argf": 3}
    decl = "".join("long cc_%s(), ref_%s();\n" % (n, n) for n, _, _, _ in names)
    rows = decl + "static const struct row rows[] = {\n" + ",\n".join(
        '{"%s",%d,%d,cc_%s,ref_%s}' % (n, bits, kinds[k], n, n) for n, _, bits, k in names) + "};\n"
    drv = G_DRV % rows
    res = twin.twin_run(ctx, wd, "g", unit, drv, extra_units=[thunk_o])
    files = {"unit.c": twin.PRELUDE + unit, "driver.c": drv, "c06_thunk.S": open(os.path.join(HARNESS, "c06_thunk.S")).read()}
    replay = ("$CHIBICC -DPFX=cc_ -c -o cc.o unit.c || exit 1\n"
              "gcc -O0 -w -std=gnu11 -fno-builtin -fno-pie -DPFX=ref_ -c -o ref.o unit.c || exit 0\n"
              "gcc -O1 -w -fno-pie -no-pie -o drv driver.c cc.o ref.o c06_thunk.S -Wl,-z,noexecstack || exit 0\n"
              "./drv > out.txt; cat out.txt; grep -q '^G %s ' out.txt && exit 1\nexit 0")
    if res["status"] == "cc-fail":
        ctx.violation("C06|undefined-bits|rejected|%s:%s" % (res["stage"], res["code"]), "chibicc rejects the narrow-value unit: " + res["stderr"][-300:],
                      files=files, replay="$CHIBICC -DPFX=cc_ -c -o cc.o unit.c && exit 0; exit 1")
        return 0, 0
    if res["status"] != "ok" or res["code"] != 0:
        raise core.HarnessError("garbage family: %s %s" % (res.get("stage"), (res.get("stderr") or "")[-800:]))
    m = re.search(r"^S evals=(\d+) distinct=(\d+) rows=(\d+)", res["stdout"], re.M)
    if not m:
        raise core.HarnessError("garbage family: no summary")
    seen = set()
    for line in res["stdout"].splitlines():
        if line.startswith("G "):
            name = line.split()[1]
            if name in seen: continue
            seen.add(name)
            fam, ty = name.split("_")[0], name.split("_")[1]
            side = "narrow-return-consumed-by-chibicc-caller" if fam == "gr" else "narrow-parameter-received-by-chibicc-callee"
            ctx.violation("C06|undefined-bits|%s|%s|%s" % (side, ty, name.split("_")[2] if fam == "gr" else "param"),
                          "bits above the declared width leak into the value: " + line, files=files, replay=replay % name)
    if int(m.group(2)) < int(m.group(3)) * 0.8:
        raise core.HarnessError("garbage family vacuous: only %s of %s rows saw distinct results" % (m.group(2), m.group(3)))
    return int(m.group(1)), int(m.group(2))


# ---- family R: the result area of a MEMORY-class return must not overlap objects the callee can reach -----------------
# (psABI 3.2.3: "this storage must not overlap any data visible to the callee through other names than this argument")
R_SIZES_QUICK = list(range(17, 41)) + [48, 64, 100, 127, 128, 129, 136, 200, 256, 1024]
R_SIZES_THOROUGH = sorted(set(range(17, 301)) | {511, 512, 513, 1024, 2048, 4096})
R_KINDS = ["asm", "gcc-O0", "gcc-O2", "gcc-Os", "cc"]
E_NONE, E_R, E_SRC, E_OTH, E_BL, E_BL2, E_BOTH = range(7)
# (text of the statement, class of the assigned-to object, modes, helper, body, expected out, expected out2)
# F1 = rd|wr (one pointer), F0 = gl|wg (pointer saved in a global), FP = the same through a function pointer
R_FORMS = [
    ("x = f(&x)", "local", "01", "", "T x = SRC; x = F1(&x); OUT(x);", E_R, E_NONE),
    ("x = (f(&x))", "local", "01", "", "T x = SRC; x = (F1(&x)); OUT(x);", E_R, E_NONE),
    ("x = (0, f(&x))", "local", "01", "", "T x = SRC; x = (vp_zero, F1(&x)); OUT(x);", E_R, E_NONE),
    ("x = c ? f(&x) : x", "local", "01", "", "T x = SRC; x = vp_one ? F1(&x) : x; OUT(x);", E_R, E_NONE),
    ("y = x = f(&x)", "local", "01", "", "T x = SRC; T y; y = x = F1(&x); OUT(x); OUT2(y);", E_R, E_R),
    ("T x = f(&x)", "local-initialiser", "1", "", "T x = F1(&x); OUT(x);", E_R, E_NONE),
    ("x = f(&other, &x)", "local", "0", "", "T o = OTH; T x = SRC; x = al_bl(&o, &x); OUT(x); OUT2(o);", E_BL, E_OTH),
    ("x = f(&x, &other)", "local", "0", "", "T o = OTH; T x = SRC; x = al_bl(&x, &o); OUT(x); OUT2(o);", E_BL2, E_OTH),
    ("x = f(&x, &x)", "local", "0", "", "T x = SRC; x = al_bl(&x, &x); OUT(x);", E_BOTH, E_NONE),
    ("x = f(x) by value", "local", "0", "", "T x = SRC; x = al_bv(x); OUT(x);", E_R, E_NONE),
    ("s.m = f(&s.m)", "member", "01", "",
     "struct { long pre; T m; long post; } s; s.pre = 0x1111; s.post = 0x2222; s.m = SRC; s.m = F1(&s.m); OUT(s.m); "
     "if (s.pre != 0x1111 || s.post != 0x2222) vp_al_guard = 1;", E_R, E_NONE),
    ("a[i] = f(&a[i])", "element", "01", "", "T a[3]; a[0] = OTH; a[2] = OTH; a[1] = SRC; a[vp_one] = F1(&a[vp_one]); OUT(a[1]); OUT2(a[2]);", E_R, E_OTH),
    ("a[0] = f(a)", "element", "01", "", "T a[2]; a[0] = SRC; a[1] = OTH; a[0] = F1(a); OUT(a[0]); OUT2(a[1]);", E_R, E_OTH),
    ("g = f(&g)", "global", "01", "", "vp_al_glob = SRC; vp_al_glob = F1(&vp_al_glob); OUT(vp_al_glob);", E_R, E_NONE),
    ("static x = f(&x)", "static-local", "01", "", "static T x; x = SRC; x = F1(&x); OUT(x);", E_R, E_NONE),
    ("*p = f(p)", "dereference", "01", "", "T x = SRC; T *p = &x; *p = F1(p); OUT(x);", E_R, E_NONE),
    ("q = &x; x = f()", "local", "01", "", "T x = SRC; vp_al_saved = &x; x = F0(); OUT(x);", E_R, E_NONE),
    ("parameter x = f(&x)", "parameter", "01", "static void FN(h_par_M)(T x) { x = F1(&x); OUT(x); }", "FN(h_par_M)(SRC);", E_R, E_NONE),
    ("x = (*fp)(&x)", "local", "01", "", "T x = SRC; x = FP(&x); OUT(x);", E_R, E_NONE),
    ("x = h(&x) where h returns f(p)", "local", "01", "static T FN(h_via_M)(T *p) { return F1(p); }", "T x = SRC; x = FN(h_via_M)(&x); OUT(x);", E_R, E_NONE),
    ("y = f(&x) (no overlap possible)", "other-local", "01", "", "T x = SRC; T y; y = F1(&x); OUT(y); OUT2(x);", E_R, E_SRC),
]


def r_type(n, tk):
    if tk == "b": return "typedef struct { unsigned char b[%d]; } T;" % n
    if tk == "l": return "typedef struct { long a[%d]; } T;" % (n // 8)
    if tk == "u": return "typedef union { unsigned char b[%d]; long l[%d]; } T;" % (n, n // 8)
    raise ValueError(tk)


def r_jobs(tier):
    quick = tier == "quick"
    jobs = []
    for n in (R_SIZES_QUICK if quick else R_SIZES_THOROUGH):
        jobs.append((n, "b"))
        if n % 8 == 0 and (not quick or n <= 64 or n == 256):
            jobs.append((n, "l"))
        if n % 8 == 0 and (not quick or n in (24, 128)):
            jobs.append((n, "u"))
    return jobs


def r_rows():
    rows = []
    for fi, (txt, lhs, modes, helper, body, e1, e2) in enumerate(R_FORMS):
        for m in modes:
            rows.append((fi, int(m)))
    return rows


def r_build(n, tk):
    """-> {file name: text} of one (size, type kind) unit of family R."""
    ty = r_type(n, tk)
    head = "#define N %d\n%s\n" % (n, ty)
    u = [twin.PRELUDE, head,
         "extern unsigned char vp_al_src[], vp_al_oth[], vp_al_out[], vp_al_out2[];",
         "extern T *vp_al_saved; extern T vp_al_glob; extern volatile int vp_zero, vp_one; extern volatile long vp_al_guard;",
         "extern T (*vp_al_fp_rd)(T *), (*vp_al_fp_wr)(T *);",
         "T al_rd(T *), al_bl(T *, T *), al_bv(T), al_gl(void), al_wr(T *), al_wg(void);",
         "#define SRC (*(T *)vp_al_src)\n#define OTH (*(T *)vp_al_oth)\n#define OUT(x) (*(T *)vp_al_out = (x))\n#define OUT2(x) (*(T *)vp_al_out2 = (x))"]
    rows, decl = [], []
    for ri, (fi, m) in enumerate(r_rows()):
        txt, lhs, modes, helper, body, e1, e2 = R_FORMS[fi]
        def sub(t):
            return (t.replace("F1", "al_wr" if m else "al_rd").replace("F0", "al_wg" if m else "al_gl")
                     .replace("FP", "vp_al_fp_wr" if m else "vp_al_fp_rd").replace("_M", "_%d" % ri))
        if helper:
            u.append(sub(helper))
        u.append("void FN(r_%d)(void) { %s }" % (ri, sub(body)))
        decl.append("void cc_r_%d(void), ref_r_%d(void);" % (ri, ri))
        rows.append('{"%s","%s",%d,%d,%d,cc_r_%d,ref_r_%d}' % (txt, lhs, m, e1, e2, ri, ri))
    # C callees: for the plain byte-array struct the result object is accessed by name only (its address is never taken), which
    # lets an optimising compiler build it directly in the caller-provided result area (gcc -O2/-Os: tree-nrv)
    if tk == "b":
        D, SP, AO, SV, pre = "r.b[i]", "p->b", "o->b", "v.b", "T r;"
    else:
        D, SP, AO, SV, pre = "d[i]", "((unsigned char *)p)", "((unsigned char *)o)", "((unsigned char *)&v)", "T r; unsigned char *d = (unsigned char *)&r;"
    k = [head, "#define KC_(a,b) a##b\n#define KC(a,b) KC_(a,b)\n#define K(x) KC(KP,x)\nextern T *vp_al_saved;",
         "T K(rd)(T *p) { %s\n  for (int i = 0; i < N; i++) %s = 0x5A;\n  for (int i = 0; i < N; i++) %s = %s[N - 1 - i] ^ 0x33;\n  return r; }" % (pre, D, D, SP),
         "T K(bl)(T *o, T *p) { %s\n  for (int i = 0; i < N; i++) %s = 0x5A;\n  for (int i = 0; i < N; i++) %s = %s[i] + %s[N - 1 - i];\n  return r; }" % (pre, D, D, AO, SP),
         "T K(bv)(T v) { %s\n  for (int i = 0; i < N; i++) %s = 0x5A;\n  for (int i = 0; i < N; i++) %s = %s[N - 1 - i] ^ 0x33;\n  return r; }" % (pre, D, D, SV),
         "T K(gl)(void) { return K(rd)(vp_al_saved); }",
         "T K(wr)(T *p) { %s\n  for (int i = 0; i < N; i++) %s = 3 * i + 13;\n  for (int i = 0; i < N; i++) %s[i] = 0xDD;\n  return r; }" % (pre, D, SP),
         "T K(wg)(void) { return K(wr)(vp_al_saved); }"]
    a = ["# hand-written callees: the whole result area (%rdi) is written first, the operands are read afterwards", "    .text"]
    for f in ("rd", "bl", "bv", "gl", "wr", "wg"):
        a.append("    .globl al_%s\nal_%s: jmp *vp_al_fn_%s(%%rip)" % (f, f, f))
    fill = "    mov %rdi, %rax\n    xor %ecx, %ecx\n1:  movb $0x5A, (%rdi,%rcx)\n    inc %rcx\n    cmp $N, %rcx\n    jb 1b\n".replace("$N", "$%d" % n)
    rev = ("    lea %d(%%rsi), %%r8\n    xor %%ecx, %%ecx\n2:  mov (%%r8), %%dl\n    xor $0x33, %%dl\n    mov %%dl, (%%rdi,%%rcx)\n    dec %%r8\n    inc %%rcx\n"
           "    cmp $%d, %%rcx\n    jb 2b\n    ret\n" % (n - 1, n))
    a.append("    .globl ka_rd, ka_bv, ka_gl, ka_bl, ka_wr, ka_wg")
    a.append("ka_gl:\n    mov vp_al_saved(%rip), %rsi\n    jmp ka_rd\nka_bv:\n    lea 8(%rsp), %rsi\nka_rd:\n" + fill + rev)
    a.append("ka_bl:\n" + fill + ("    lea %d(%%rdx), %%r8\n    xor %%ecx, %%ecx\n2:  mov (%%r8), %%dl\n    add (%%rsi,%%rcx), %%dl\n    mov %%dl, (%%rdi,%%rcx)\n"
                                  "    dec %%r8\n    inc %%rcx\n    cmp $%d, %%rcx\n    jb 2b\n    ret\n" % (n - 1, n)))
    a.append("ka_wg:\n    mov vp_al_saved(%%rip), %%rsi\nka_wr:\n    mov %%rdi, %%rax\n    xor %%ecx, %%ecx\n1:  lea 13(%%rcx,%%rcx,2), %%edx\n    mov %%dl, (%%rdi,%%rcx)\n"
             "    inc %%rcx\n    cmp $%d, %%rcx\n    jb 1b\n    xor %%ecx, %%ecx\n2:  movb $0xDD, (%%rsi,%%rcx)\n    inc %%rcx\n    cmp $%d, %%rcx\n    jb 2b\n    ret\n" % (n, n))
    a.append('    .section .note.GNU-stack,"",@progbits')
    with open(os.path.join(HARNESS, "c06_alias_drv.c")) as f:
        drv = f.read()
    d = [head, "struct al_row { const char *form, *lhs; int mode, e1, e2; void (*cc)(void), (*ref)(void); };"] + decl
    d.append("static const struct al_row ROWS[] = {\n%s};\n#define NROWS %d" % (",\n".join(rows), len(rows)))
    return {"al_u.c": "\n".join(u) + "\n", "al_k.c": "\n".join(k) + "\n", "al_a.S": "\n".join(a) + "\n", "al_d.c": "\n".join(d) + "\n" + drv}


R_GCC = ["gcc", "-fno-strict-aliasing", "-w", "-std=gnu11", "-fno-builtin", "-fno-pie"]
R_GCC_K = ["gcc", "-fno-strict-aliasing", "-w", "-std=gnu11", "-fno-builtin", "-fpie"]     # gcc 12 -Os builds the result in place only with -fpie
R_REPLAY = r"""# family R, one (size, type) unit; exit 1 iff test %(idx)d (chibicc-compiled caller) still fails while the gcc-compiled caller passes
$CHIBICC -DPFX=cc_ -c -o u_cc.o al_u.c || exit %(ccfail)d
$CHIBICC -DKP=kc_ -c -o k_cc.o al_k.c || exit %(ccfail)d
gcc -O0 -fno-strict-aliasing -w -std=gnu11 -fno-builtin -fno-pie -DPFX=ref_ -c -o u_ref.o al_u.c || exit 0
for o in 0 2 s; do gcc -O$o -fno-strict-aliasing -w -std=gnu11 -fno-builtin -fpie -DKP=k${o}_ -c -o k_$o.o al_k.c || exit 0; done
gcc -c -o a.o al_a.S || exit 0
gcc -O1 -w -std=gnu11 -fno-pie -no-pie -o drv al_d.c u_cc.o k_cc.o u_ref.o k_0.o k_2.o k_s.o a.o -Wl,-z,noexecstack || exit 0
./drv %(idx)d 2 > out.txt; cat out.txt
grep -q '^A %(ref)d .* ok$' out.txt || exit 0
grep -q '^A %(idx)d .* ok$' out.txt && exit 0
grep -q '^[AC] %(idx)d ' out.txt && exit 1
exit 0
"""


def _run_alias(a):
    chibicc, wd, n, tk = a
    os.makedirs(wd, exist_ok=True)
    res = {"n": n, "tk": tk, "harness": None, "ccfail": None, "lines": [], "crashes": [], "sens": 0, "tests": 0}
    files = r_build(n, tk)
    for name, text in files.items():
        with open(os.path.join(wd, name), "w") as f:
            f.write(text)
    _C.chibicc = chibicc
    for src, obj, fl in (("al_u.c", "u_cc.o", "-DPFX=cc_"), ("al_k.c", "k_cc.o", "-DKP=kc_")):
        for attempt in range(3):
            ok, stage, st, err = twin.cc_compile(_C, os.path.join(wd, src), os.path.join(wd, obj), [fl], cwd=wd, timeout=600)
            if ok or st not in (-15, -9):
                break
        if not ok and st in (-15, -9, "timeout"):
            res["harness"] = "chibicc %s on %s: status %s (killed from outside / machine overloaded)" % (stage, src, st); return res
        if not ok:
            res["ccfail"] = (src, stage, st, (err.strip().splitlines() or [""])[-1][:300])
            return res
    cmds = [R_GCC + ["-O0", "-DPFX=ref_", "-c", "-o", "u_ref.o", "al_u.c"]]
    cmds += [R_GCC_K + ["-O" + o, "-DKP=k%s_" % o, "-c", "-o", "k_%s.o" % o, "al_k.c"] for o in ("0", "2", "s")]
    cmds += [["gcc", "-c", "-o", "a.o", "al_a.S"],
             twin.GCC_DRV + ["-o", "drv", "al_d.c", "u_cc.o", "k_cc.o", "u_ref.o", "k_0.o", "k_2.o", "k_s.o", "a.o", "-no-pie", "-Wl,-z,noexecstack"]]
    for c in cmds:
        st, o, e = _tool(c, wd, 900)
        if st != 0:
            res["harness"] = "%s: %s %s" % (" ".join(c[:8]), st, e[-800:]); return res
    total = len(R_KINDS) * len(r_rows()) * 2
    first = 0
    while first < total:
        st, out, err = core.run_limited([os.path.join(wd, "drv"), str(first)], cwd=wd, timeout=900)
        done = False
        crash = None
        for line in out.splitlines():
            w = line.split()
            if not w: continue
            if w[0] == "A": res["lines"].append((int(w[1]), int(w[2]), int(w[3]), int(w[4]), w[5])); res["tests"] += 1
            elif w[0] == "V": res["sens"] = int(w[1].split("=")[1], 16)
            elif w[0] == "C": crash = (int(w[1]), int(w[2]))
            elif w[0] == "S": done = True
        if done and st == 0:
            break
        if crash:
            idx = crash[0]
            res["lines"].append((idx, idx // 2 // len(r_rows()), idx // 2 % len(r_rows()), idx % 2, "crash:" + SIGNAME.get(str(crash[1]), str(crash[1]))))
            res["tests"] += 1
            first = idx + 1
            continue
        res["harness"] = "alias driver died without a crash record: status=%s first=%d %s" % (st, first, err[-300:])
        return res
    shutil.rmtree(wd, ignore_errors=True)
    return res


def run_alias(ctx):
    """-> (evaluations, judged, oracle disagreements).  Violations are filed here."""
    jobs = r_jobs(ctx.tier)
    rows = r_rows()
    args = [(ctx.chibicc, os.path.join(ctx.work, "al_%d%s" % (n, tk)), n, tk) for n, tk in jobs]
    # the big units first (they take longest)
    args.sort(key=lambda a: -a[2])
    evals = judged = odis = 0
    sens_all = None
    sens_any = 0
    for res in core.pmap(_run_alias, args):
        n, tk = res["n"], res["tk"]
        if res["harness"]:
            raise core.HarnessError("family R size %d%s: %s" % (n, tk, res["harness"]))
        if res["ccfail"]:
            src, stage, st, err = res["ccfail"]
            files = r_build(n, tk)
            ctx.violation("C06|compile|fixed|ret:MEMORY-class,return-area-overlap-unit|%s-fails:%s" % (stage, st),
                          "valid unit (%s, size %d, %s): chibicc %s stage fails (%s): %s" % (src, n, r_type(n, tk), stage, st, err),
                          files=files, replay="$CHIBICC -DPFX=cc_ -DKP=kc_ -c -o x.o %s && exit 0; exit 1" % src)
            continue
        if not res["sens"] & 3 == 3:
            raise core.HarnessError("family R size %d%s vacuous: the asm callee is not sensitive to an overlapping result area (sens=0x%x)" % (n, tk, res["sens"]))
        sens_all = res["sens"] if sens_all is None else sens_all & res["sens"]
        sens_any |= res["sens"]
        by = dict((l[0], l) for l in res["lines"])
        if res["tests"] != len(R_KINDS) * len(rows) * 2:
            raise core.HarnessError("family R size %d%s: %d tests run, %d expected" % (n, tk, res["tests"], len(R_KINDS) * len(rows) * 2))
        for idx in sorted(by):
            if idx % 2:
                continue
            _, kind, row, _, verdict = by[idx]
            ref = by.get(idx + 1)
            evals += 2
            fi, m = rows[row]
            txt, lhs = R_FORMS[fi][0], R_FORMS[fi][1]
            if ref is None or ref[4] != "ok":
                odis += 1                   # gcc 12 itself receives `T x = f(&x)` directly in x: that form is not judged
                ctx.sample({"oracle_disagreement": "family R: gcc-compiled caller differs from the model", "size": n, "type": tk, "form": txt,
                            "callee": R_KINDS[kind], "mode": m, "gcc": ref and ref[4]}, limit=10)
                continue
            judged += 1
            if verdict == "ok":
                continue
            dev = ("crash:" + verdict.split(":", 1)[1]) if verdict.startswith("crash") else \
                  {"out": "assigned-object-differs", "out2": "other-object-differs", "guar": "neighbouring-object-differs"}[verdict[:4].rstrip("@")]
            # a failure against the chibicc-built callee only is a callee-side defect (cc->cc), not an overlap of the result area
            sig = "C06|%s|fixed|ret:MEMORY-class,assigned-to:%s|%s" % ("cc->cc" if kind == 4 else "cc->any", lhs, dev)
            desc = ("chibicc caller -> %s callee (%s): `%s` with %s (size %d): %s [chibicc-compiled caller]; the gcc-compiled caller and the model agree. "
                    "The callee %s" % (R_KINDS[kind], "result written first, operands read afterwards" if m == 0 else "result built, then the object behind the pointer overwritten",
                                       txt, r_type(n, tk), n, verdict,
                                       "may assume that the result area does not overlap *p (psABI 3.2.3)"))
            if sig in ctx.violations or any(core.fnmatch.fnmatchcase(sig, p) for p in ctx.findings):
                ctx.violation(sig, desc)
                continue
            ctx.violation(sig, desc, files=r_build(n, tk), replay=R_REPLAY % {"idx": idx, "ref": idx + 1, "ccfail": 0})
    if judged == 0 or odis * 10 > judged:
        raise core.HarnessError("family R: %d cases judged, %d where the gcc-compiled caller differs from the model" % (judged, odis))
    ctx.cover(return_area_overlap_units=len(jobs), return_area_overlap_forms=len(R_FORMS), return_area_overlap_evaluations=evals,
              return_area_overlap_judged=judged, return_area_overlap_gcc_caller_differs_from_model_not_judged=odis,
              return_area_overlap_sensitive_callees=",".join("%s:%s" % (R_KINDS[k], "rd" if b == 0 else "wr") for k in range(5) for b in range(2) if sens_any >> (2 * k + b) & 1))
    return evals, judged, odis


def run(ctx):
    thunk_o = os.path.join(ctx.work, "c06_thunk.o")
    core.sh(["gcc", "-c", "-o", thunk_o, os.path.join(HARNESS, "c06_thunk.S")], check=True)
    gev, gdist = run_garbage(ctx, thunk_o)
    sigs, ntypes, nreps = gen_sigs(ctx.tier)
    only = os.environ.get("C06_STAGES")
    if only:
        sigs = [s for s in sigs if s.stage in only.split(",")]
    rev = rjudged = rdis = 0
    if not only or "R" in only.split(","):
        rev, rjudged, rdis = run_alias(ctx)
    # shard: signatures with many parameters are spread evenly; VERIF_SEED only rotates the assignment
    nb = (len(sigs) + BATCH - 1) // BATCH
    rot = ctx.seed % nb if nb else 0
    batches = [[] for _ in range(nb)]
    for i, sg in enumerate(sigs):
        batches[(i + rot) % nb].append(sg)
    args = [(ctx.chibicc, os.path.join(ctx.work, "b%d" % i), i, b, thunk_o) for i, b in enumerate(batches)]
    thunk_src = open(os.path.join(HARNESS, "c06_thunk.S")).read()
    done = tests = nsig = odis = ncrash = unconf = nrejected = 0
    stage_counts = {}
    failing = set()
    for grp in core.chunks(args, core.NPROC * 2):
        if ctx.out_of_time(reserve=60):
            ctx.incomplete("deadline: %d of %d batches finished" % (done, len(batches)))
            break
        for res in core.pmap(_run_batch, grp):
            done += 1
            bsigs = batches[res["bidx"]]
            if res["harness"]:
                raise core.HarnessError("batch %d: %s" % (res["bidx"], res["harness"]))
            tests += res["tests"]; nsig += res["nsig"]
            for sg in bsigs:
                stage_counts[sg.stage] = stage_counts.get(sg.stage, 0) + 1
            for line in res["oracle"]:
                odis += 1
                w = line.split()
                ctx.sample({"oracle_disagreement": line, "sig": bsigs[int(w[1])].cid}, limit=10)
            unconf += len(res.get("unconfirmed", []))
            for i, stage, st, err in res["ccfail"]:
                sg = bsigs[i]
                nrejected += 1
                unit, stubs, drv = build_batch([sg])
                what = "probe:" + arg_label(sg, min(sg.probe, len(sg.args) - 1)) if sg.args else "no-args"
                sig = "C06|compile|%s|%s|%s-fails:%s" % ("fixed" if sg.nnamed is None else "variadic", what, stage, st)
                ctx.violation(sig, "valid unit: chibicc %s stage fails (%s) on %s [%s]: %s" % (stage, st, sg.cid, proto_text(sg), err),
                              files={"unit.c": unit}, replay="$CHIBICC -DPFX=cc_ -DOPFX=ref_ -c -o cc.o unit.c && exit 0; exit 1")
            for i, cfg, d in res["fails"]:
                sg = bsigs[i]
                if cfg == 3 and sg.ctx != "vfwdO":
                    odis += 1
                    ctx.sample({"oracle_disagreement": "gcc->gcc fails", "sig": sg.cid, "detail": d}, limit=10)
                    continue
                if "crash" in d: ncrash += 1
                failing.add((sg.key(), cfg))
                sig, desc = classify_failure(sg, cfg, d)
                if sig in ctx.violations or any(core.fnmatch.fnmatchcase(sig, p) for p in ctx.findings):
                    ctx.violation(sig, desc)
                    continue
                unit, stubs, drv = build_batch([sg])
                ctx.violation(sig, desc, files={"unit.c": unit, "stubs.S": stubs, "driver.c": drv, "c06_thunk.S": thunk_src},
                              replay=REPLAY % {"ccfail": 0, "lin": cfg})
    n_item_count = len(n_items(shape_reps(enum_types(ctx.tier))))
    # vacuity guard of N: some named aggregate of at most 8 bytes, of 9..16 bytes and of class MEMORY, in registers and with va_args of both files behind it
    if not only or "N" in only.split(","):
        small = sum(1 for sg in sigs if sg.stage == "N" and any(a[0] in "su" and abi.layout(a)[0] <= 8 and abi.arg_need(a) for a in sg.args[:sg.nnamed]))
        if small == 0 or stage_counts.get("N", 0) < 100:
            raise core.HarnessError("stage N degenerate: %d signatures, %d with a named aggregate of <= 8 bytes in a register" % (stage_counts.get("N", 0), small))
        ctx.cover(named_small_aggregate_in_register_signatures=small)
    # vacuity guard of VS/WS: named parameters on the stack ending off the eightbyte grid, followed by a va_arg served from memory
    offgrid = resid = 0
    if not only or "VS" in only.split(","):
        rs = set()
        for sg in sigs:
            if sg.stage in ("VS", "WS"):
                places, _, _ = abi.assign(sg.args, sg.ret)
                e = named_stack_end(sg, places)
                if e == 0:
                    raise core.HarnessError("VS signature without a stack-passed named parameter: " + sg.cid)
                if e % 8 and any(pl[0] == "mem" for pl in places[sg.nnamed:]):
                    offgrid += 1; rs.add(e % 8)
        resid = len(rs)
        if resid != 7:
            raise core.HarnessError("VS enumeration degenerate: named stack area ends at residues %s mod 8" % sorted(rs))
    if odis:
        raise core.HarnessError("%d oracle disagreements (gcc->gcc failed or model %%al != gcc %%al), see evidence samples" % odis)
    if unconf:
        ctx.cover(failures_not_reproduced_in_isolation=unconf)
    if tests != 4 * nsig:
        raise core.HarnessError("driver ran %d tests for %d compiled signatures" % (tests, nsig))
    if ctx.exhaustive and nsig + nrejected != len(sigs):
        raise core.HarnessError("%d signatures run + %d rejected by chibicc != %d enumerated" % (nsig, nrejected, len(sigs)))
    if nsig == 0 and not (only and only == "R"):
        raise core.HarnessError("no signature was executed")
    ctx.cover(evaluations=tests + gev + rev, signatures=len(sigs), signatures_run=nsig, distinct_nontrivial=nsig + gdist + rjudged // len(R_KINDS),
              aggregate_types=ntypes, eightbyte_shapes=nreps, failing_signature_configs=len(failing), crashes=ncrash, rejected_by_chibicc=nrejected,
              undefined_bit_evaluations=gev, per_stage=stage_counts, oracle_disagreements=odis,
              rule="one case = one signature (return type, parameter types, fixed/variadic+named count, caller context) linked in 3 "
                   "caller/callee compiler pairings (+gcc->gcc as self-check); non-trivial = the callee was entered and every value "
                   "byte of every argument and of the return value was compared against pat(k,i); all signatures are distinct by "
                   "construction (deduplicated on the full descriptor)",
              bounds="A: all structs (member sequences) and unions (member sets, both declaration orders) of <=%d scalar|T[2] members over "
                     "{char,short,int,long,float,double} plus one nesting level (inner aggregate of 1-2 members alone, beside a plain member, or two inner structs), size<=16 "
                     "(+%d named shapes, %d MEMORY, %d x87 aggregates), each as argument and return type at the (g,s) filler positions that "
                     "exactly fit / miss by one GP or SSE register; B: %d probes (9 primitives + one aggregate per (size, eightbyte classes) shape) x "
                     "g GP fillers x s SSE fillers x trailing primitive; B2: probe first / interleaved fillers; C: every return class x g x s x struct arg; "
                     "D: pairs of aggregate probes; V: variadic callees (named prefix of 1-2 incl. struct/long double/MEMORY struct) x va_arg of "
                     "int,long,double,pointer,long double,structs; VS: variadic callees with NAMED parameters on the stack: %d named lists = [long x g, double x s] + item + follower, "
                     "(g,s) in {(0,0),(6,8),(6,0),(0,8),(5,8),(6,7)} where the item is stack-passed%s, item in {struct{char[n]} n=1..40, 12/20-byte int/float/mixed structs, "
                     "4/6/16-byte structs, 4/20-byte unions, 9 scalars} (%d items), follower in {none,long,long double,struct{char[19]}%s} or struct{char[21]} first, "
                     "x unnamed fillers exhausting {both%s,no} register files x va_arg probe in {int,long,double,long double,pointer,s(i,i,i),s(f,f,f),s(l,d),s(l,l,l),struct{char[21]}} "
                     "+ trailing long,double, + hidden-return-pointer variants; M: the same aggregates in fixed signatures, on the stack in front of further stack arguments and as return type; WS: the VS lists with the va_list handed to the other/same compiler's consumer; X: call nested under 1-3 pending long/double temporaries on either side "
                     "and with argument 0/probe/last produced by an inner call; K: callee declared without prototype at the call site; "
                     "W: va_list handed to a function built by the other compiler; G: narrow return values / parameters with noise in undefined bits; "
                     "N: variadic callees with a by-value aggregate among the NAMED parameters: %d items (every (size, classes) shape, struct{char[n]} n=1..16, SSE / mixed / union forms, "
                     "4 MEMORY, 2 x87) x %d named prefixes x %d named suffixes x 3 tails of 19-21 va_args (int, long, pointer, double, 8/16-byte INTEGER/SSE/mixed structs drawn while registers "
                     "remain and after exhaustion, long double, MEMORY structs) + hidden return pointer + va_list forwarded to the other/same compiler (%d signatures); "
                     "Z: aggregates of %s bytes (struct{char[n]}, struct{long[n/8]}, union of both) by value / returned (rax = hidden pointer checked) / on the stack between stack "
                     "arguments / result of an inner call / va_arg / named parameter of a variadic callee (%d signatures); "
                     "R: return area vs objects visible to the callee: %d caller forms x 2 callee behaviours x %d (size, type) units (sizes %s) x 5 callee builds "
                     "(asm result-first, gcc -O0/-O2/-Os, chibicc) x 2 caller compilers"
                     % (2 if ctx.tier == "quick" else 4, len(NAMED), len(BIG), len(X87), len(PRIMS) + nreps + 5, len(vs_named_lists(ctx.tier)),
                        " (quick: the first two such modes per item)" if ctx.tier == "quick" else "", len(VS_MEMORY + VS_SMALL + VS_SCALAR), "" if ctx.tier == "quick" else ",double,struct{char[3]}+int", "" if ctx.tier == "quick" else ",GP only,SSE only",
                        n_item_count, 4 if ctx.tier == "quick" else len(N_PRE), 3 if ctx.tier == "quick" else len(N_POST), stage_counts.get("N", 0),
                        ",".join(map(str, Z_SIZES_QUICK)) if ctx.tier == "quick" else "41..300,511..513,1000,1023..1025,2047..2049,4095,4096", stage_counts.get("Z", 0),
                        len(R_FORMS), len(r_jobs(ctx.tier)), "17..40,48,64,100,127,128,129,136,200,256,1024" if ctx.tier == "quick" else "17..300,511..513,1024,2048,4096"),
              named_aggregate_items=n_item_count, large_aggregate_sizes=len(Z_SIZES_QUICK if ctx.tier == "quick" else Z_SIZES_THOROUGH), large_aggregate_max_size=4096,
              named_stack_lists=len(vs_named_lists(ctx.tier)), named_stack_end_off_grid_signatures=offgrid, named_stack_item_sizes="1..40 (every residue mod 8, last and non-last)")
    for sg in (sigs[0], sigs[len(sigs) // 3], sigs[2 * len(sigs) // 3], sigs[-1]) if sigs else ():
        ctx.sample({"signature": sg.cid, "prototype": proto_text(sg)})
    ctx.assume("gcc 12 -O0 is ABI-conforming; the gcc->gcc pairing of every signature passes (enforced)")
    ctx.assume("padding bytes and bytes 10..15 of a long double are not part of the value and are not compared")
    ctx.assume("argument values are normal finite numbers when read as float/double/long double; _Bool arguments are 0/1")
    ctx.assume("C11 requires at least one named parameter before '...', so the named prefix is 1..2, not 0")
