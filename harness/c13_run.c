// C13 batch runner: feeds many small inputs to `chibicc -cc1` one process at a time, with resource limits,
// and reports for each the wait status, the head of stderr, a hash of the produced assembly and - when the
// front end dies from a signal and tracing is on - the chain of return addresses (relative to the load base)
// so that the caller can name the crashing function from the binary's symbol table.  External observer only:
// nothing is injected into the compiler.
//
// usage: c13_run <chibicc> <trace 0|1> <cpu_s> <wall_s> <mem_mb> <asm-out-dir|->   (cwd = private scratch dir)
// stdin : records  "R <id> <nbytes> <nopts>\n" <nopts lines, one option each> <nbytes raw bytes> "\n"
// stdout: records  "S <id> <status> <errlen> <asmhash> <asmnew> <tracelen> <peak-rss-kb> <screened>\n" <errlen bytes> <tracelen bytes>
//         status: E<n> exit code, S<n> killed by signal n, T wall-clock timeout
//         asmhash: 16 hex digits FNV-1a of the output file when status is E0 and a file exists, else 0
//         screened: 1 if the run was made under the screening limits (see main)
//         asmnew: 1 if this runner moved the output to <asm-out-dir>/<hash>.s (first sighting), else 0
#define _GNU_SOURCE
#define STAGE1_MB 256L
#define HEAVY_LOCK "/tmp/c13_heavy.lock"
#include <errno.h>
#include <fcntl.h>
#include <signal.h>
#include <stdint.h>
#include <stdio.h>
#include <stdlib.h>
#include <string.h>
#include <sys/file.h>
#include <sys/ptrace.h>
#include <sys/resource.h>
#include <sys/stat.h>
#include <sys/time.h>
#include <sys/types.h>
#include <sys/uio.h>
#include <sys/user.h>
#include <sys/wait.h>
#include <time.h>
#include <unistd.h>

#define ERRMAX 1200
#define MAXOPTS 2100   // option-repetition families pass up to 2 x 1000 options
#define MAXFRAMES 400
#define STACK_LIMIT (8L << 20)

static char *chibicc;
static int trace, cpu_s, wall_s;
static long mem_mb;
static char *asmdir;

static void die(const char *m) {
  fprintf(stderr, "c13_run: %s: %s\n", m, strerror(errno));
  exit(3);
}

static double now(void) {
  struct timespec ts;
  clock_gettime(CLOCK_MONOTONIC, &ts);
  return ts.tv_sec + ts.tv_nsec * 1e-9;
}

typedef struct { uint64_t lo, hi; } Range;

// Finds the executable's load base, its executable mapping and the stack mapping of process `pid`.
static int read_maps(pid_t pid, uint64_t *base, Range *text, Range *stack) {
  char path[64], line[1024], exe[512];
  snprintf(path, sizeof path, "/proc/%d/exe", pid);
  ssize_t n = readlink(path, exe, sizeof exe - 1);
  if (n < 0) return -1;
  exe[n] = 0;
  snprintf(path, sizeof path, "/proc/%d/maps", pid);
  FILE *f = fopen(path, "r");
  if (!f) return -1;
  *base = 0; text->lo = text->hi = 0; stack->lo = stack->hi = 0;
  int have_base = 0;
  while (fgets(line, sizeof line, f)) {
    uint64_t lo, hi, off; char perms[8]; char name[600] = "";
    if (sscanf(line, "%lx-%lx %7s %lx %*s %*s %599[^\n]", &lo, &hi, perms, &off, name) < 4) continue;
    char *nm = name; while (*nm == ' ') nm++;
    if (!strcmp(nm, exe)) {
      if (!have_base && off == 0) { *base = lo; have_base = 1; }
      if (perms[2] == 'x') { if (!text->lo) text->lo = lo; text->hi = hi; }
    }
    if (!strcmp(nm, "[stack]")) { stack->lo = lo; stack->hi = hi; }
  }
  fclose(f);
  return have_base ? 0 : -1;
}

static int peek(pid_t pid, uint64_t addr, void *buf, size_t len) {
  struct iovec l = {buf, len}, r = {(void *)addr, len};
  return process_vm_readv(pid, &l, 1, &r, 1, 0) == (ssize_t)len ? 0 : -1;
}

static int is_retaddr(pid_t pid, Range *text, uint64_t w) {
  if (w < text->lo + 5 || w >= text->hi) return 0;
  unsigned char b[5];
  if (peek(pid, w - 5, b, 5)) return 0;
  return b[0] == 0xE8;   // direct call
}

// Writes a textual trace of the stopped child into buf; returns its length.
static int make_trace(pid_t pid, int sig, char *buf, int cap) {
  struct user_regs_struct regs;
  uint64_t base; Range text, stack;
  int n = 0;
  if (ptrace(PTRACE_GETREGS, pid, 0, &regs) || read_maps(pid, &base, &text, &stack))
    return snprintf(buf, cap, "notrace\n");
  uint64_t rip = regs.rip, rsp = regs.rsp, rbp = regs.rbp;
  int overflow = stack.hi && (rsp < stack.lo + 65536 || stack.hi - rsp > STACK_LIMIT - 262144);
  siginfo_t si; uint64_t fault = 0;
  if (!ptrace(PTRACE_GETSIGINFO, pid, 0, &si)) fault = (uint64_t)si.si_addr;
  int nullish = (sig == SIGSEGV || sig == SIGBUS) && fault < 65536;
  n += snprintf(buf + n, cap - n, "sig=%d overflow=%d nullish=%d inexe=%d\n", sig, overflow, nullish,
                rip >= text.lo && rip < text.hi);
  int nf = 0;
  uint64_t fp = 0;
  if (overflow) {
    // Stack exhausted (unbounded recursion): where exactly it stops depends on the environment, so report every
    // return address found in the lowest 128 KB of the live stack; the caller names the recursion cycle from it.
    static uint64_t words[16384];
    uint64_t a = (rsp < stack.lo ? stack.lo : rsp) & ~7UL;
    size_t len = sizeof words;
    if (a + len > stack.hi) len = stack.hi - a;
    if (!peek(pid, a, words, len))
      for (size_t i = 0; i < len / 8 && nf < MAXFRAMES && n < cap - 64; i++)
        if (is_retaddr(pid, &text, words[i])) { n += snprintf(buf + n, cap - n, "f %lx\n", words[i] - base); nf++; }
    return n;
  }
  if (rip >= text.lo && rip < text.hi) {
    n += snprintf(buf + n, cap - n, "f %lx\n", rip - base); nf++;
    fp = rbp;
  } else {
    // crashed inside a library: scan the stack for the first return address into the executable
    uint64_t words[512];
    uint64_t a = rsp & ~7UL;
    for (int blk = 0; blk < 8 && !fp && nf == 0; blk++, a += sizeof words) {
      if (a + sizeof words > stack.hi) break;
      if (peek(pid, a, words, sizeof words)) break;
      for (int i = 0; i < 512; i++)
        if (is_retaddr(pid, &text, words[i])) {
          n += snprintf(buf + n, cap - n, "f %lx\n", words[i] - base); nf++;
          uint64_t slot = a + 8UL * i, w2[2];
          // the callee-saved rbp is usually still the frame pointer of that function
          if (rbp > slot && rbp < stack.hi && !peek(pid, rbp, w2, 16) && is_retaddr(pid, &text, w2[1])) fp = rbp;
          break;
        }
    }
  }
  while (fp && nf < 48 && n < cap - 64) {
    uint64_t w[2];
    if (fp < stack.lo || fp + 16 > stack.hi || (fp & 7) || peek(pid, fp, w, 16)) break;
    if (w[1] < text.lo || w[1] >= text.hi) break;
    n += snprintf(buf + n, cap - n, "f %lx\n", w[1] - base); nf++;
    if (w[0] <= fp) break;
    fp = w[0];
  }
  return n;
}

static uint64_t hash_file(const char *path, long *len) {
  int fd = open(path, O_RDONLY);
  if (fd < 0) return 0;
  static unsigned char b[1 << 16];
  uint64_t h = 0xcbf29ce484222325ULL; ssize_t r; *len = 0;
  while ((r = read(fd, b, sizeof b)) > 0) {
    for (ssize_t i = 0; i < r; i++) { h ^= b[i]; h *= 0x100000001b3ULL; }
    *len += r;
  }
  close(fd);
  return h ? h : 1;
}

static int is_fatal_sig(int s) {
  return s == SIGSEGV || s == SIGFPE || s == SIGABRT || s == SIGBUS || s == SIGILL || s == SIGXCPU ||
         s == SIGSYS || s == SIGTRAP || s == SIGXFSZ;
}

int main(int argc, char **argv) {
  if (argc != 7 && argc != 10) { fprintf(stderr, "usage: c13_run chibicc trace cpu wall mem_mb asmdir [heavy_max screen_cpu screen_mem_mb]\n"); return 3; }
  // throttle: once heavy_max runs of this batch ended in a timeout or at the memory limit, the remaining ones get the
  // screening limits (the record says which limits were in force)
  int heavy_max = argc == 10 ? atoi(argv[7]) : 0, heavy = 0;
  int screen_cpu = argc == 10 ? atoi(argv[8]) : 0; long screen_mem = argc == 10 ? atol(argv[9]) : 0;
  chibicc = argv[1]; trace = atoi(argv[2]); cpu_s = atoi(argv[3]); wall_s = atoi(argv[4]);
  mem_mb = atol(argv[5]); asmdir = strcmp(argv[6], "-") ? argv[6] : NULL;

  sigset_t chld; sigemptyset(&chld); sigaddset(&chld, SIGCHLD);
  sigprocmask(SIG_BLOCK, &chld, NULL);

  static char hdr[256], optbuf[MAXOPTS][512], err[ERRMAX + 1], tr[MAXFRAMES * 24 + 256];
  char *data = NULL; size_t datacap = 0;
  while (fgets(hdr, sizeof hdr, stdin)) {
    char id[128]; long nbytes; int nopts;
    if (sscanf(hdr, "R %127s %ld %d", id, &nbytes, &nopts) != 3 || nopts > MAXOPTS) die("bad record header");
    for (int i = 0; i < nopts; i++) {
      if (!fgets(optbuf[i], sizeof optbuf[i], stdin)) die("short options");
      optbuf[i][strcspn(optbuf[i], "\n")] = 0;
    }
    if ((size_t)nbytes + 1 > datacap) { datacap = nbytes + 4096; data = realloc(data, datacap); }
    if (fread(data, 1, nbytes + 1, stdin) != (size_t)nbytes + 1) die("short data");

    unlink("v.s");
    int fd = open("v.c", O_WRONLY | O_CREAT | O_TRUNC, 0644);
    if (fd < 0 || write(fd, data, nbytes) != nbytes) die("write v.c");
    close(fd);

    // Memory discipline (the machine is shared): at most ONE child of any c13_run on the machine may own more than
    // STAGE1_MB of address space at a time.  A throttled batch runs every case first with RLIMIT_AS = STAGE1_MB; an exit
    // (any code) under that limit is the same exit under the full limit and is final, so is a CPU / wall timeout; a death
    // by any other signal is re-run with the full limit while holding the machine-wide lock HEAVY_LOCK, and that second
    // run is the one reported.  Unthrottled invocations (confirmations, replays) with a limit above STAGE1_MB run under
    // the lock right away.
    int screened = heavy_max > 0 && heavy >= heavy_max;
    int stage = (heavy_max > 0 && !screened && mem_mb > STAGE1_MB) ? 1 : 2;
    int st, timed_out, trlen; struct rusage ru; long mem_now; int cpu_now;
  again:
    cpu_now = screened ? screen_cpu : cpu_s; mem_now = screened ? screen_mem : stage == 1 ? STAGE1_MB : mem_mb;
    int lk = -1;
    if (stage == 2 && mem_now > STAGE1_MB) {
      lk = open(HEAVY_LOCK, O_CREAT | O_RDWR | O_CLOEXEC, 0666);
      if (lk >= 0) { fchmod(lk, 0666); flock(lk, LOCK_EX); }
    }
    unlink("v.s");
    pid_t pid = fork();
    if (pid < 0) die("fork");
    if (pid == 0) {
      struct rlimit rl;
      rl.rlim_cur = cpu_now; rl.rlim_max = cpu_now + 1; setrlimit(RLIMIT_CPU, &rl);
      rl.rlim_cur = rl.rlim_max = mem_now << 20; setrlimit(RLIMIT_AS, &rl);
      rl.rlim_cur = rl.rlim_max = 0; setrlimit(RLIMIT_CORE, &rl);
      rl.rlim_cur = rl.rlim_max = STACK_LIMIT; setrlimit(RLIMIT_STACK, &rl);
      rl.rlim_cur = rl.rlim_max = 256L << 20; setrlimit(RLIMIT_FSIZE, &rl);
      int e = open("v.err", O_WRONLY | O_CREAT | O_TRUNC, 0644);
      int nul = open("/dev/null", O_RDWR);
      dup2(nul, 0); dup2(nul, 1); dup2(e, 2);
      sigprocmask(SIG_UNBLOCK, &chld, NULL);
      char *av[MAXOPTS + 10]; int ac = 0;
      av[ac++] = chibicc; av[ac++] = "-cc1";
      for (int i = 0; i < nopts; i++) av[ac++] = optbuf[i];
      av[ac++] = "-cc1-input"; av[ac++] = "v.c"; av[ac++] = "-cc1-output"; av[ac++] = "v.s"; av[ac++] = "v.c";
      av[ac] = NULL;
      if (trace) ptrace(PTRACE_TRACEME, 0, 0, 0);
      execv(chibicc, av);
      _exit(127);
    }

    double deadline = now() + wall_s;
    st = 0; timed_out = 0; trlen = 0;
    memset(&ru, 0, sizeof ru);
    for (;;) {
      pid_t r = wait4(pid, &st, WNOHANG, &ru);
      if (r == pid) {
        if (WIFSTOPPED(st)) {
          int s = WSTOPSIG(st);
          if (is_fatal_sig(s) && s != SIGTRAP && !trlen) trlen = make_trace(pid, s, tr, sizeof tr);
          ptrace(PTRACE_CONT, pid, 0, s == SIGTRAP ? 0 : s);
          continue;
        }
        break;
      }
      double left = deadline - now();
      if (left <= 0) { kill(pid, SIGKILL); wait4(pid, &st, 0, &ru); timed_out = 1; break; }
      struct timespec ts = {(time_t)left, (long)((left - (time_t)left) * 1e9)};
      sigtimedwait(&chld, NULL, &ts);
    }

    if (lk >= 0) close(lk);                 // releases the lock
    if (stage == 1 && !timed_out && WIFSIGNALED(st) && WTERMSIG(st) != SIGXCPU && WTERMSIG(st) != SIGKILL) {
      stage = 2;
      goto again;
    }

    char status[16];
    if (timed_out) strcpy(status, "T");
    else if (WIFSIGNALED(st)) snprintf(status, sizeof status, "S%d", WTERMSIG(st));
    else snprintf(status, sizeof status, "E%d", WEXITSTATUS(st));

    if (timed_out || (WIFSIGNALED(st) && (WTERMSIG(st) == SIGXCPU || WTERMSIG(st) == SIGKILL || ru.ru_maxrss >= mem_now * 512)))
      heavy++;

    int errlen = 0;
    fd = open("v.err", O_RDONLY);
    if (fd >= 0) { errlen = read(fd, err, ERRMAX); if (errlen < 0) errlen = 0; close(fd); }

    uint64_t h = 0; long alen = 0; int isnew = 0;
    if (!strcmp(status, "E0")) {
      h = hash_file("v.s", &alen);
      if (h && asmdir) {
        char p[700];
        snprintf(p, sizeof p, "%s/%016lx.s", asmdir, h);
        if (access(p, F_OK) != 0 && rename("v.s", p) == 0) isnew = 1;
      }
    }
    /* last field: peak resident set of the child in KB (a death at the address-space limit is told from a wild access) */
    printf("S %s %s %d %016lx %d %d %ld %d\n", id, status, errlen, h, isnew, trlen, (long)ru.ru_maxrss, screened);
    fwrite(err, 1, errlen, stdout);
    fwrite(tr, 1, trlen, stdout);
    fflush(stdout);
  }
  return 0;
}
