int f(int x) { return *x; }
