char *a = "x" "y";
char b[] = "\t\0\377\x7f";
unsigned short *c = u"ab";
unsigned *d = U"c";
int *e = L"w";
char *f = u8"z";
