#line 2147483648
int a = ;
