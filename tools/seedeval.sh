#!/bin/sh
# usage: seedeval.sh <ID> [check-ids...]: imports /tmp/wt_<ID>/seeded/{1,2,3} as /verif/seeded/<ID>-n, then for each:
#  applies the patch to a scratch copy of /repo HEAD, runs `make test` there, runs demo.sh against patched and clean builds,
#  and runs the named checks (default: <ID>) against the patched copy.  Prints one summary line per seed.
id=$1; shift; checks=${*:-$id}
clean=$(mktemp -d /tmp/seedclean_XXXXXX)
rsync -a --exclude=.git --exclude='*.o' --exclude=/chibicc --exclude=/stage2 --exclude='*.exe' /repo/ $clean/ && make -s -C $clean -j16 chibicc >/dev/null 2>&1
# SEEDSRC=<dir holding 1/ 2/ 3/> and SEEDOFF=<k> import a later round as <ID>-(n+k); SEEDS="4 5 6" re-evaluates stored ones
for n in ${SEEDS:-1 2 3}; do
  m=$((n + ${SEEDOFF:-0}))
  src=${SEEDSRC:-/tmp/wt_$id/seeded}/$n; [ -f $src/patch.diff ] || src=/verif/seeded/$id-$m
  [ -f $src/patch.diff ] || continue
  dst=/verif/seeded/$id-$m; mkdir -p $dst; [ $src != $dst ] && cp -r $src/. $dst/
  n=$m
  d=$(mktemp -d /tmp/seed_XXXXXX)
  rsync -a --exclude=.git --exclude='*.o' --exclude=/chibicc --exclude=/stage2 --exclude='*.exe' /repo/ $d/
  if ! (cd $d && patch -p1 -s --no-backup-if-mismatch < $dst/patch.diff >/dev/null 2>&1); then echo "SEED $id-$n: PATCH-DOES-NOT-APPLY"; rm -rf $d; continue; fi
  rt=$(/verif/tools/repotest.sh $d 2>&1 | tail -1)
  make -s -C $d -j16 chibicc >/dev/null 2>&1
  (cd $dst && timeout 600 bash demo.sh $d/chibicc >/dev/null 2>&1); dp=$?
  (cd $dst && timeout 600 bash demo.sh $clean/chibicc >/dev/null 2>&1); dc=$?
  res=""
  for c in $checks; do
    out=$(cd /verif && VERIF_REPO=$d VERIF_NO_EVIDENCE=1 ./check $c quick 2>&1); rc=$?
    res="$res $c:rc=$rc:$(echo "$out" | grep -c '^VIOLATION')viol"
    echo "$out" | grep '^VIOLATION' | head -2 | cut -c1-230 > $dst/caught_by_$c.txt
  done
  echo "SEED $id-$n: $rt | demo patched=$dp clean=$dc |$res"
  rm -rf $d
done
rm -rf $clean
