"""C14 driver process discipline under failure and concurrency (fault enumeration).

Part 1 (shapes x faults): every command shape (mode x -o x input-kind list x output location) of
models/c14_driver.py is run through the real driver with no fault, then once per (observed subprocess step x
fault kind).  cc1 faults are injected by an argv[0] shim, as/ld faults by PATH shims (harness/c14_shim.c); files
created and removed by the whole process tree are observed with an LD_PRELOAD interposer
(harness/c14_preload.c), per invocation.
Part 2 (schedules): two (thorough: also three) drivers in one directory, the shims block on a unix socket and the
orchestrator runs every interleaving of the drivers' subprocess steps, with and without one injected fault; each
driver's exit status and outputs must equal those of its solo run.

Judged (only what the property states): exit status != 0 when a step fails / input is bad / output is unwritable
and == 0 otherwise; the output of a translation unit whose front end failed is neither created nor changed; no
temporary left; the directory changes by exactly the requested outputs; concurrent runs == solo runs.
"""
import itertools, json, os, select, shutil, socket, subprocess, sys, time

if __name__ == "__main__":
    sys.path.insert(0, os.path.dirname(os.path.dirname(os.path.abspath(__file__))))
from vlib import core
from models import c14_driver as M

LEVEL = "fault_enumeration"
BUDGET = {"quick": 300, "thorough": 1800}

FAULTS = {"quick": ["exit1", "exit3", "segv", "kill", "noexec", "partial"],
          "thorough": ["exit1", "exit3", "segv", "kill", "noexec", "partial"]}
ALL_KINDS = ["c", "c_pp", "c_parse", "c_gen", "c_nx", "c_dir", "s", "s_bad", "s_nx", "o", "o_bad", "o_nx"]
# input-kind alphabets per list length
ALPHABET = {
    "quick": {1: ALL_KINDS, 2: ["c", "c_pp", "c_gen", "c_nx", "c_dir", "s", "s_bad", "o"]},
    "thorough": {1: ALL_KINDS, 2: ALL_KINDS, 3: ["c", "c_gen", "c_nx", "s", "o"]},
}
GOOD_KINDS = frozenset(["c", "s", "o"])
RUN_TIMEOUT = 60


# ----------------------------------------------------------------------------------------------------
# tools: shim, interposer, input materials
# ----------------------------------------------------------------------------------------------------
def build_tools(chibicc, include, workroot):
    """Build shim + interposer + input materials; returns the picklable configuration for workers."""
    tools = os.path.join(workroot, "tools")
    os.makedirs(tools, exist_ok=True)
    h = os.path.join(core.VERIF, "harness")
    core.sh(["gcc", "-O2", "-shared", "-fPIC", "-o", os.path.join(tools, "c14_preload.so"),
             os.path.join(h, "c14_preload.c"), "-ldl"], check=True)
    core.sh(["gcc", "-O2", "-o", os.path.join(tools, "c14_shim"), os.path.join(h, "c14_shim.c")], check=True)
    real_as, real_ld = shutil.which("as"), shutil.which("ld")
    if not real_as or not real_ld:
        raise core.HarnessError("as/ld not found on PATH")
    mats = {}
    for slot in range(3):
        for k in ("c", "c_pp", "c_parse", "c_gen"):
            mats[M.in_name(k, slot)] = M.c_source(k, slot).encode()
        for k in ("s", "s_bad"):
            mats[M.in_name(k, slot)] = M.s_source(k, slot).encode()
        for k in ("o", "o_bad"):
            sp = os.path.join(tools, "m.s")
            with open(sp, "w") as f:
                f.write(M.s_source(k, slot))
            op = os.path.join(tools, "m.o")
            core.sh([real_as, "-o", op, sp], check=True)
            mats[M.in_name(k, slot)] = open(op, "rb").read()
    cfg = {"chibicc": chibicc, "include": include, "shim": os.path.join(tools, "c14_shim"),
           "preload": os.path.join(tools, "c14_preload.so"), "as": real_as, "ld": real_ld,
           "root": workroot, "mats": mats}
    selftest_interposer(cfg)
    return cfg


def selftest_interposer(cfg):
    """The interposer must load and see the whole family; otherwise the check is broken (exit 2)."""
    d = os.path.join(cfg["root"], "selftest")
    os.makedirs(d, exist_ok=True)
    src = os.path.join(d, "t.c")
    with open(src, "w") as f:
        f.write('#define _GNU_SOURCE\n#include <stdio.h>\n#include <stdlib.h>\n#include <unistd.h>\n#include <fcntl.h>\n'
                'int main(int c,char**v){char a[256],b[256],e[300];snprintf(a,256,"%s/ta-XXXXXX",v[1]);snprintf(b,256,"%s/tb",v[1]);\n'
                'int fd=mkstemp(a);close(fd);FILE*f=fopen(b,"w");fclose(f);snprintf(e,300,"%s2",b);rename(b,e);unlink(a);\n'
                'fd=open(b,O_CREAT|O_WRONLY,0600);close(fd);remove(b);return 0;}\n')
    exe = os.path.join(d, "t")
    core.sh(["gcc", "-o", exe, src], check=True)
    log = os.path.join(d, "trace.log")
    env = {"LD_PRELOAD": cfg["preload"], "C14_TRACE": log, "PATH": "/usr/bin:/bin"}
    p = subprocess.run([exe, d], env=env, stdout=subprocess.PIPE, stderr=subprocess.PIPE)
    recs = read_trace(log)
    ops = [r[1] for r in recs]
    if p.returncode != 0 or p.stderr or ops != ["init", "mk", "cr", "mv", "rm", "cr", "rm"]:
        raise core.HarnessError("LD_PRELOAD interposer self-test failed: rc=%s err=%r ops=%s" % (p.returncode, p.stderr[:200], ops))
    os.unlink(os.path.join(d, "tb2"))


def read_trace(path):
    recs = []
    try:
        with open(path, "rb") as f:
            for line in f.read().decode("utf-8", "surrogateescape").splitlines():
                parts = line.split("\t")
                if len(parts) >= 3 and parts[0].isdigit():
                    recs.append((int(parts[0]), parts[1], parts[2], parts[3] if len(parts) > 3 else None))
    except FileNotFoundError:
        pass
    return recs


# ----------------------------------------------------------------------------------------------------
# private /tmp per worker process
# ----------------------------------------------------------------------------------------------------
_ISOLATED = None


def isolate_tmp(cfg):
    """Give this (pool worker) process a private, empty /tmp through a mount namespace, with the check's work
    directory still visible at its usual path.  Drivers run by different workers then cannot meet in /tmp, so
    part 1 is deterministic even for a driver with colliding temporary names (interference between drivers is
    explored deliberately, and deterministically, in part 2).  Returns False where namespaces are unavailable;
    the check then relies on serial confirmation of every violation."""
    global _ISOLATED
    if _ISOLATED is not None:
        return _ISOLATED
    _ISOLATED = False
    if os.environ.get("C14_NO_ISOLATION"):
        return False
    import ctypes
    libc = ctypes.CDLL(None, use_errno=True)
    CLONE_NEWNS, MS_BIND, MS_REC, MS_PRIVATE = 0x00020000, 0x1000, 0x4000, 1 << 18
    root = cfg["root"]
    import tempfile
    priv = tempfile.mkdtemp(prefix="ptmp", dir=root)
    rel = os.path.relpath(root, "/tmp")
    os.makedirs(priv if rel.startswith("..") else os.path.join(priv, rel), exist_ok=True)
    if libc.unshare(CLONE_NEWNS) != 0:
        return False
    if libc.mount(b"none", b"/", None, MS_REC | MS_PRIVATE, None) != 0:
        return False
    if not rel.startswith(".."):
        if libc.mount(root.encode(), os.path.join(priv, rel).encode(), None, MS_BIND, None) != 0:
            return False
    if libc.mount(priv.encode(), b"/tmp", None, MS_BIND | MS_REC, None) != 0:
        raise core.HarnessError("could not mount a private /tmp")
    if not os.path.exists(cfg["chibicc"]) or len(os.listdir("/tmp")) > 1:
        raise core.HarnessError("private /tmp is not set up as intended")
    _ISOLATED = True
    return True


# ----------------------------------------------------------------------------------------------------
# one driver invocation in a sandbox
# ----------------------------------------------------------------------------------------------------
def snapshot(d):
    snap = {}
    for root, dirs, files in os.walk(d):
        for n in dirs:
            snap[os.path.relpath(os.path.join(root, n), d)] = ("d",)
        for n in files:
            p = os.path.join(root, n)
            try:
                with open(p, "rb") as f:
                    snap[os.path.relpath(p, d)] = ("f", f.read())
            except OSError:
                snap[os.path.relpath(p, d)] = ("?",)
    return snap


class Sandbox:
    """<run>/d (cwd), <run>/tmp (TMPDIR), <run>/bin (shim dir), steps.log, trace.log"""

    def __init__(self, cfg, run):
        self.cfg, self.run = cfg, run
        shutil.rmtree(run, ignore_errors=True)
        self.d = os.path.join(run, "d")
        os.makedirs(self.d)
        os.mkdir(os.path.join(run, "tmp"))
        self.nruns = 0

    def populate(self, shape):
        for name, kind in zip(shape.inputs, shape.kinds):
            p = os.path.join(self.d, name)
            if kind == "c_dir":
                os.mkdir(p)
            elif kind.endswith("_nx"):
                pass
            else:
                with open(p, "wb") as f:
                    f.write(self.cfg["mats"][name])
        if shape.outloc == "sent":
            for o in shape.possible_outputs():
                with open(os.path.join(self.d, o), "wb") as f:
                    f.write(M.SENTINEL)
        elif shape.outloc == "unw" and not shape.o:
            for o in shape.possible_outputs():
                os.mkdir(os.path.join(self.d, o))

    def prepare_invocation(self, tag, fault=None, sched=None, ident=None):
        """Returns (argv prefix, env, paths) for one driver invocation sharing this sandbox's directory."""
        cfg = self.cfg
        inv = os.path.join(self.run, "inv_" + tag)
        os.makedirs(inv)
        bindir = os.path.join(inv, "bin")
        os.mkdir(bindir)
        os.symlink(cfg["include"], os.path.join(bindir, "include"))
        missing = None
        if fault and fault[2] == "noexec" and fault[1] == 1:
            missing = "chibicc" if fault[0] == "cc1" else fault[0]
        for n in ("chibicc", "as", "ld"):
            if n != missing:
                os.symlink(cfg["shim"], os.path.join(bindir, n))
        open(os.path.join(inv, "steps.log"), "w").close()
        env = {"PATH": bindir, "LD_PRELOAD": cfg["preload"], "C14_TRACE": os.path.join(inv, "trace.log"),
               "C14_RUN": inv, "C14_REAL_CHIBICC": cfg["chibicc"], "C14_REAL_AS": cfg["as"], "C14_REAL_LD": cfg["ld"],
               "C14_SHIMDIR": bindir, "TMPDIR": os.path.join(self.run, "tmp"), "LC_ALL": "C"}
        if fault:
            env["C14_FAULT"] = "%s:%d:%s" % tuple(fault)
        if sched:
            env["C14_SCHED"] = sched
            env["C14_ID"] = ident
        prefix = [cfg["shim"], "--launch", cfg["chibicc"], os.path.join(bindir, "chibicc")]
        return prefix, env, inv

    def collect(self, inv, status, out, err):
        steps, ends = [], {}
        with open(os.path.join(inv, "steps.log"), errors="replace") as f:
            for line in f:
                w = line.split()
                if w[:1] == ["B"]:
                    steps.append({"kind": w[1], "k": int(w[2]), "out": w[3], "argv": w[5:]})
                elif w[:1] == ["E"]:
                    ends[(w[1], int(w[2]))] = w[3]
        trace = read_trace(os.path.join(inv, "trace.log"))
        exes = {}
        temps = {}
        run_prefix = self.run + "/"
        tmpdir = os.path.join(self.run, "tmp") + "/"

        def is_temp_loc(p):
            if p.startswith(tmpdir):
                return True
            return (p.startswith("/tmp/") or p.startswith("/var/tmp/")) and not p.startswith(run_prefix)
        driver_seen = False
        for pid, op, a, b in trace:
            if op == "init":
                exes[pid] = os.path.basename(a)
                if os.path.realpath(a) == os.path.realpath(self.cfg["chibicc"]):
                    driver_seen = True
            elif op == "mk":
                temps[a] = exes.get(pid, "?")
            elif op == "cr":
                if is_temp_loc(a):
                    temps.setdefault(a, exes.get(pid, "?"))
            elif op == "rm":
                temps.pop(a, None)
            elif op == "mv":
                who = temps.pop(a, None)
                if is_temp_loc(b):
                    temps[b] = who or exes.get(pid, "?")
        leaks = sorted((who, p) for p, who in temps.items() if os.path.lexists(p))
        for p, who in list(temps.items()):    # do not litter the machine with what a defective driver leaves
            if os.path.lexists(p) and not p.startswith(run_prefix):
                try:
                    os.unlink(p)
                except OSError:
                    pass
        ntemps = len(set(r[2] for r in trace if r[1] == "mk" or (r[1] == "cr" and is_temp_loc(r[2]))))
        return {"status": status, "stdout": out, "stderr": err, "steps": steps, "ends": ends, "leaks": leaks,
                "driver_seen": driver_seen, "ntemps": ntemps}

    def run_one(self, shape_argv, fault=None):
        self.nruns += 1
        prefix, env, inv = self.prepare_invocation("%d" % self.nruns, fault)
        try:
            p = subprocess.run(prefix + shape_argv, cwd=self.d, env=env, stdin=subprocess.DEVNULL,
                               stdout=subprocess.PIPE, stderr=subprocess.PIPE, timeout=RUN_TIMEOUT)
            status, out, err = p.returncode, p.stdout, p.stderr
        except subprocess.TimeoutExpired as e:
            status, out, err = "timeout", e.stdout or b"", e.stderr or b""
        obs = self.collect(inv, status, out, err)
        obs["tmpdir_left"] = sorted(os.listdir(os.path.join(self.run, "tmp")))
        return obs

    def destroy(self):
        shutil.rmtree(self.run, ignore_errors=True)


# ----------------------------------------------------------------------------------------------------
# judging one observation against the model
# ----------------------------------------------------------------------------------------------------
def elf_type(b):
    if len(b) < 18 or b[:4] != b"\x7fELF":
        return None
    return b[16] | (b[17] << 8)


def fault_fired(fault, obs, base_steps):
    if not fault:
        return False
    kind, k, how = fault
    seen = set((s["kind"], s["k"]) for s in obs["steps"])
    if how != "noexec":
        return obs["ends"].get((kind, k)) == "fault:" + how
    if (kind, k) in seen or (kind, k) not in base_steps:
        return False
    idx = base_steps.index((kind, k))
    return all(s in seen for s in base_steps[:idx])


def judge(shape, fault, obs, before, after, base_steps=None, cc1_slots=None):
    """Returns (list of (deviation, detail), counters)."""
    devs, cnt = [], {}
    if obs["status"] == "timeout":
        return [], {"timeouts": 1}
    if not obs["driver_seen"]:
        raise core.HarnessError("the interposer did not load into the driver process (no init record for %s)" % shape.key())
    if str(97 << 8) in obs["ends"].values() or b"c14_shim:" in obs["stderr"]:
        raise core.HarnessError("shim failure in %s: %s" % (shape.key(), obs["stderr"][-300:]))
    st = obs["status"]
    fired = fault_fired(fault, obs, base_steps or [])
    if fault and not fired:
        cnt["fault_not_reached"] = 1
    faulted_slots = set()
    if fired and fault[0] == "cc1" and cc1_slots and fault[1] - 1 < len(cc1_slots) and cc1_slots[fault[1] - 1] is not None:
        faulted_slots.add(cc1_slots[fault[1] - 1])

    # 1. exit status
    if (shape.ok is False or fired) and st == 0:
        devs.append(("exit0-despite-failure", "exit status 0"))
    if shape.ok is True and not fault and st != 0:
        devs.append(("nonzero-exit-without-failure", "exit status %s; stderr: %s" % (st, obs["stderr"][-300:].decode("utf-8", "replace"))))

    # 2. outputs of translation units that failed to compile
    failed_outs = shape.failed_tu_outputs(faulted_slots)
    if shape.mode != "link":
        # an output path shared with a translation unit that compiled is legitimately written by that one
        good = set(shape.tu_out[i] for i in shape.tu_out
                   if not (M.cc1_fails(shape.kinds[i], shape.mode) or i in faulted_slots))
        failed_outs -= good
    flagged = set()
    for p in sorted(failed_outs):
        if before.get(p) != after.get(p):
            if fired and fault[2] == "partial" and fault[0] == "cc1" and shape.mode in ("S", "E"):
                cnt["unjudged_partial_write_is_the_fault"] = 1   # the injected fault itself is the write
                flagged.add(p)
                continue
            if p in before and p not in after:
                # a driver may delete a stale output when its translation unit fails (gcc does); the property
                # forbids creating and overwriting, not this
                cnt["failed_tu_stale_output_removed"] = cnt.get("failed_tu_stale_output_removed", 0) + 1
                flagged.add(p)
                continue
            devs.append(("failed-tu-output-created" if p not in before else "failed-tu-output-overwritten",
                         "%s: %s -> %s" % (p, show(before.get(p)), show(after.get(p)))))
            flagged.add(p)

    # 3. temporaries
    if obs["leaks"]:
        devs.append(("temp-left", "left behind: %s" % ", ".join("%s (made by %s)" % (p, w) for w, p in obs["leaks"])))
    elif obs.get("tmpdir_left"):
        devs.append(("temp-left", "left in $TMPDIR: %s" % obs["tmpdir_left"]))

    # 4. the directory changes by exactly the requested outputs
    changed = sorted(p for p in set(before) | set(after) if before.get(p) != after.get(p))
    allowed = set(shape.outputs)
    for p in changed:
        if p in flagged:
            continue
        if p in shape.inputs:
            devs.append(("input-modified", "%s: %s -> %s" % (p, show(before.get(p)), show(after.get(p)))))
        elif p not in allowed:
            ext = "-o-path" if p == shape.opath else "a.out" if p == "a.out" else (os.path.splitext(p)[1] or "other")
            devs.append(("unexpected-file|%s" % ext, "%s: %s -> %s (requested outputs: %s)" % (p, show(before.get(p)), show(after.get(p)), shape.outputs)))
    if shape.ok is True and not fault and st == 0:
        for p in shape.outputs:
            a = after.get(p)
            if a is None or a[0] != "f" or a[1] == M.SENTINEL or not a[1]:
                devs.append(("missing-output", "%s: %s" % (p, show(a))))
                continue
            bad = content_problem(shape, p, a[1])
            if bad:
                devs.append(("output-wrong-content", "%s: %s" % (p, bad)))
        if shape.to_stdout:
            for i in [j for j, k in enumerate(shape.kinds) if k in M.C_KINDS]:
                if M.sym(i).encode() not in obs["stdout"]:
                    devs.append(("output-wrong-content", "stdout lacks the text of input %d" % i))
                    break
    return devs, cnt


def show(x):
    if x is None:
        return "absent"
    if x[0] == "d":
        return "directory"
    if x[0] == "f":
        return "sentinel" if x[1] == M.SENTINEL else "file(%d bytes)" % len(x[1])
    return "?"


def content_problem(shape, p, data):
    slots = [i for i in shape.tu_out if shape.tu_out[i] == p]
    if shape.mode == "link":
        if elf_type(data) not in (2, 3):
            return "not an ELF executable"
        slots = range(len(shape.kinds))
    elif shape.mode == "c":
        if elf_type(data) != 1:
            return "not a relocatable ELF object"
    for i in slots:
        if M.sym(i).encode() not in data:
            return "does not contain input %d (%s)" % (i, shape.inputs[i])
    return None


# ----------------------------------------------------------------------------------------------------
# part 1 worker: one shape, no fault + every (step x fault)
# ----------------------------------------------------------------------------------------------------
def run_shape(cfg, shape, faults, rundir):
    """Returns dict(runs, viol=[(fault, deviation, detail)], counters, base_steps)."""
    res = {"runs": 0, "viol": [], "cnt": {}, "steps": [], "ntemps": 0, "status": None}

    def one(fault, base_steps, cc1_slots):
        sb = Sandbox(cfg, rundir)
        try:
            sb.populate(shape)
            before = snapshot(sb.d)
            obs = sb.run_one(shape.argv(), fault)
            after = snapshot(sb.d)
        finally:
            sb.destroy()
        res["runs"] += 1
        res["ntemps"] += obs["ntemps"]
        devs, cnt = judge(shape, fault, obs, before, after, base_steps, cc1_slots)
        for k, v in cnt.items():
            res["cnt"][k] = res["cnt"].get(k, 0) + v
        for dv, detail in devs:
            res["viol"].append((fault, dv, detail))
        return obs, devs

    obs0, devs0 = one(None, None, None)
    res["status"] = obs0["status"]
    base_steps = [(s["kind"], s["k"]) for s in obs0["steps"]]
    res["steps"] = base_steps
    cc1_slots = []
    for s in obs0["steps"]:
        if s["kind"] == "cc1":
            a = s["argv"]
            inp = a[a.index("-cc1-input") + 1] if "-cc1-input" in a and a.index("-cc1-input") + 1 < len(a) else ""
            cc1_slots.append(shape.slot_of_input(inp))
    model_steps = sorted(k for k, _ in shape.steps)
    if obs0["status"] == 0 and sorted(k for k, _ in base_steps) != model_steps:
        res["cnt"]["steps_differ_from_model"] = 1
    if devs0:
        res["cnt"]["fault_enumeration_skipped_on_violating_base"] = 1
        return res
    for (kind, k) in base_steps:
        for how in faults:
            one((kind, k, how), base_steps, cc1_slots)
    return res


def _shape_batch(args):
    cfg, specs, faults, wid = args
    iso = isolate_tmp(cfg)
    out = []
    for spec in specs:
        shape = M.Shape(*spec)
        r = run_shape(cfg, shape, faults, os.path.join(cfg["root"], "w%d" % wid))
        r["iso"] = iso
        out.append((spec, r))
    return out


# ----------------------------------------------------------------------------------------------------
# part 2: schedules
# ----------------------------------------------------------------------------------------------------
class Orchestrator:
    """Runs N drivers in one directory; grants their subprocess steps one at a time in a prescribed order."""

    def __init__(self, cfg, rundir):
        self.cfg, self.rundir = cfg, rundir

    def run(self, setup_files, cmds, schedule, faults):
        """cmds: list of argv (one per driver); schedule: sequence of driver indices (one entry per step grant);
        faults: {driver index: fault}.  Returns (per-driver observation, after-snapshot, effective schedule)."""
        sb = Sandbox(self.cfg, self.rundir)
        try:
            for name, data in setup_files.items():
                with open(os.path.join(sb.d, name), "wb") as f:
                    f.write(data)
            sockp = os.path.join(sb.run, "sched.sock")
            srv = socket.socket(socket.AF_UNIX, socket.SOCK_STREAM)
            srv.bind(sockp)
            srv.listen(16)
            procs, invs = [], []
            for i, argv in enumerate(cmds):
                prefix, env, inv = sb.prepare_invocation("d%d" % i, faults.get(i), sched=sockp, ident=str(i))
                invs.append(inv)
                procs.append(subprocess.Popen(prefix + argv, cwd=sb.d, env=env, stdin=subprocess.DEVNULL,
                                              stdout=subprocess.PIPE, stderr=subprocess.PIPE))
            pending = {}      # driver -> connection waiting for "go"
            effective = []
            deadline = time.time() + RUN_TIMEOUT

            def pump(want):
                """Accept announcements until driver `want` is pending or has exited. True if pending."""
                while want not in pending:
                    if procs[want].poll() is not None:
                        # it may have announced just before exiting? no: a shim blocks until granted.
                        return False
                    if time.time() > deadline:
                        raise core.HarnessError("schedule orchestration timed out")
                    r, _, _ = select.select([srv], [], [], 0.002)
                    if r:
                        c, _ = srv.accept()
                        buf = b""
                        while not buf.endswith(b"\n"):
                            ch = c.recv(256)
                            if not ch:
                                break
                            buf += ch
                        w = buf.decode().split()
                        if len(w) != 3:
                            raise core.HarnessError("bad announcement %r" % buf)
                        pending[int(w[0])] = (c, w[1], int(w[2]))
                return True

            def grant(i):
                c, kind, k = pending.pop(i)
                c.sendall(b"go\n")
                buf = b""
                while True:     # "done\n" or EOF (shim killed)
                    if time.time() > deadline:
                        raise core.HarnessError("schedule step timed out")
                    r, _, _ = select.select([c], [], [], 1.0)
                    if r:
                        ch = c.recv(64)
                        if not ch:
                            break
                        buf += ch
                        if buf.endswith(b"\n"):
                            break
                c.close()
                effective.append((i, kind, k))

            for i in schedule:
                if pump(i):
                    grant(i)
            # drain: anything still running proceeds in index order (happens only if a driver has more steps
            # than the schedule foresaw)
            extra = 0
            while any(p.poll() is None for p in procs):
                progressed = False
                for i in range(len(procs)):
                    if procs[i].poll() is None and pump(i):
                        grant(i)
                        extra += 1
                        progressed = True
                if not progressed:
                    time.sleep(0.001)
            obs = []
            for i, p in enumerate(procs):
                out, err = p.communicate()
                obs.append(sb.collect(invs[i], p.returncode, out, err))
            srv.close()
            after = snapshot(sb.d)
            tmpleft = sorted(os.listdir(os.path.join(sb.run, "tmp")))
            return obs, after, effective, extra, tmpleft
        finally:
            for p in locals().get("procs", []):
                if p.poll() is None:
                    p.kill()
            sb.destroy()


def interleavings(counts):
    """All sequences containing index i exactly counts[i] times."""
    total = sum(counts)

    def rec(prefix, left):
        if len(prefix) == total:
            yield tuple(prefix)
            return
        for i in range(len(left)):
            if left[i]:
                left[i] -= 1
                prefix.append(i)
                yield from rec(prefix, left)
                prefix.pop()
                left[i] += 1
    yield from rec([], list(counts))


SCENARIOS = {
    # name: (files, [argv per driver], {driver: [its output paths]}, shared-output?)
    "link-distinct": (["a.c", "b.c"], [["-o", "pa", "a.c"], ["-o", "pb", "b.c"]]),
    "link-same-input-same-output": (["a.c"], [["-o", "pa", "a.c"], ["-o", "pa", "a.c"]]),
    "c-default-names": (["a.c", "b.c"], [["-c", "a.c"], ["-c", "b.c"]]),
    "c-overlap-input": (["a.c", "b.c"], [["-c", "a.c", "b.c"], ["-c", "-o", "x.o", "b.c"]]),
    "S-and-link": (["a.c", "b.c"], [["-S", "-o", "a.s", "a.c"], ["-o", "pb", "b.c"]]),
    "c3": (["a.c", "b.c", "c.c"], [["-c", "a.c"], ["-c", "b.c"], ["-c", "c.c"]]),
    "c-same-output-different-input": (["a.c", "b.c"], [["-c", "-o", "x.o", "a.c"], ["-c", "-o", "x.o", "b.c"]]),
    "link3": (["a.c", "b.c"], [["-o", "pa", "a.c"], ["-o", "pb", "b.c"], ["-o", "pa2", "a.c"]]),
}
SCEN_FILES = {
    "a.c": b"int vp_a(void){return 11;}\nint main(void){return 0;}\n",
    "b.c": b"int vp_b(void){return 22;}\nint main(void){return 0;}\n",
    "c.c": b"int vp_c(void){return 33;}\nint main(void){return 0;}\n",
}
SCEN_PLAN = {
    "quick": [("link-distinct", ["exit1", "kill"]), ("link-same-input-same-output", ["exit1"]),
              ("c-default-names", ["kill", "partial"]), ("c-overlap-input", ["exit1"]), ("S-and-link", ["exit1"])],
    "thorough": [("link-distinct", ["exit1", "segv", "kill", "noexec", "partial"]),
                 ("link-same-input-same-output", ["exit1", "kill", "partial"]),
                 ("c-default-names", ["exit1", "kill", "noexec", "partial"]), ("c-overlap-input", ["exit1", "kill"]),
                 ("S-and-link", ["exit1", "kill"]), ("c3", ["exit1", "kill"]), ("link3", []),
                 ("c-same-output-different-input", ["exit1"])],
}


def solo_result(cfg, rundir, files, argv, fault):
    orch = Orchestrator(cfg, rundir)
    obs, after, eff, extra, tmpleft = orch.run(files, [argv], [0] * 16, {0: fault} if fault else {})
    return obs[0], after, eff


def _sched_batch(args):
    """One scenario x one fault assignment x a list of schedules."""
    cfg, scen, fault_assign, schedules, isolate, wid = args
    if isolate:
        isolate_tmp(cfg)
    files = {n: SCEN_FILES[n] for n in SCENARIOS[scen][0]}
    cmds = SCENARIOS[scen][1]
    rundir = os.path.join(cfg["root"], "s%d" % wid)
    orch = Orchestrator(cfg, rundir)
    # Solo reference runs are made in the very same directory path as the concurrent runs: the assembler records
    # the working directory in the object's line table, so outputs are comparable only for equal paths.
    solos = []
    for i, argv in enumerate(cmds):
        o, after, eff = solo_result(cfg, rundir, files, argv, fault_assign.get(i))
        solos.append((o["status"], {p: v for p, v in after.items() if p not in files}))
    out = []
    for sch in schedules:
        obs, after, eff, extra, tmpleft = orch.run(files, cmds, sch, fault_assign)
        devs = []
        for i, o in enumerate(obs):
            if not o["driver_seen"]:
                raise core.HarnessError("interposer not loaded in concurrent driver")
            if b"c14_shim:" in o["stderr"]:
                raise core.HarnessError("shim failure under scheduling: %r" % o["stderr"][-300:])
            solo_status, solo_files = solos[i]
            if (o["status"] == 0) != (solo_status == 0):
                devs.append((i, "status-differs-from-solo", "driver %d: exit %s, solo run: %s" % (i, o["status"], solo_status)))
            if o["leaks"]:
                devs.append((i, "temp-left", "driver %d left %s" % (i, [p for _, p in o["leaks"]])))
        # every file in the directory must be what one of the drivers that writes it produces alone
        for p in sorted(set(after) - set(files)):
            cands = [s[1].get(p) for s in solos if s[1].get(p) is not None]
            if not cands:
                devs.append((-1, "unexpected-file", "%s exists after the concurrent run; no solo run creates it" % p))
            elif after[p] not in cands:
                devs.append((-1, "output-differs-from-solo", "%s: %s, solo: %s" % (p, show(after[p]), [show(c) for c in cands])))
        for i, s in enumerate(solos):
            for p, v in s[1].items():
                if p not in files and p not in after:
                    devs.append((i, "output-missing-vs-solo", "%s produced by driver %d alone is absent" % (p, i)))
        if tmpleft:
            devs.append((-1, "temp-left", "TMPDIR: %s" % tmpleft))
        out.append((sch, eff, extra, devs))
    return out


# ----------------------------------------------------------------------------------------------------
# main
# ----------------------------------------------------------------------------------------------------
def shape_specs(tier):
    specs, undefined = [], 0
    for sh in M.enumerate_shapes(ALPHABET[tier]):
        if not sh.defined:
            undefined += 1
            continue
        specs.append((sh.mode, sh.o, sh.kinds, sh.outloc))
    return specs, undefined


def fault_class(fault):
    return "none" if not fault else "%s:%s" % (fault[0], fault[2])


REPLAY = "python3 $VERIF/checks/c14.py --replay-case case.json"


def run(ctx):
    cfg = build_tools(ctx.chibicc, ctx.include, ctx.work)
    faults = FAULTS[ctx.tier]

    # ---------------- part 1 ----------------
    specs, undefined = shape_specs(ctx.tier)
    order = list(range(len(specs)))
    if ctx.seed:
        import random
        random.Random(ctx.seed).shuffle(order)
    nb = core.NPROC * 6
    batches = [[specs[j] for j in order[i::nb]] for i in range(nb)]
    batches = [b for b in batches if b]
    results = []
    done_batches = 0
    # batches are submitted in waves so the deadline can stop the enumeration between waves
    wave = core.NPROC * 2
    for w0 in range(0, len(batches), wave):
        if ctx.out_of_time(reserve=BUDGET[ctx.tier] * 0.35):
            ctx.incomplete("part 1 stopped by the deadline after %d of %d shape batches" % (done_batches, len(batches)))
            break
        args = [(cfg, b, faults, w0 + i) for i, b in enumerate(batches[w0:w0 + wave])]
        for r in core.pmap(_shape_batch, args):
            results += r
        done_batches += len(args)

    runs = ntemps = 0
    counters = {}
    viol = []       # (spec, fault, deviation, detail)
    outcome_classes = set()
    fault_points = 0
    nontrivial = set()
    for spec, r in results:
        runs += r["runs"]
        ntemps += r["ntemps"]
        fault_points += len(r["steps"]) * len(faults)
        for k, v in r["cnt"].items():
            counters[k] = counters.get(k, 0) + v
        outcome_classes.add((spec[0], r["status"] == 0, len(r["steps"])))
        if r["steps"]:
            nontrivial.add(spec)
        for fault, dv, detail in r["viol"]:
            viol.append((spec, fault, dv, detail))
    if runs == 0 or len(outcome_classes) < 4:
        raise core.HarnessError("vacuous enumeration: %d runs, outcome classes %s" % (runs, outcome_classes))
    if ntemps == 0:
        raise core.HarnessError("no temporary file creation was observed in any run: the temp-file clause would be vacuous")
    if not any(r["status"] == 0 for _, r in results) or not any(r["status"] not in (0, None) for _, r in results):
        raise core.HarnessError("vacuous: all commands succeeded or all failed")

    # Signature = deviation x minimal input-kind set x the modes and fault classes that show it.  Within one
    # (mode, -o, fault class) cell a case is attributed to a minimal violating kind set; cells sharing kind set and
    # deviation are merged into one signature that lists their modes and faults ("cc1:*" = every enumerated way
    # of failing that step).  The -o / output-location dimensions go into the description only.
    def compress_faults(fcs):
        per = {}
        for fc in fcs:
            k, _, how = fc.partition(":")
            per.setdefault(k, set()).add(how)
        parts = []
        for k in sorted(per):
            parts.append(k if k == "none" else "%s:%s" % (k, "*" if per[k] >= set(faults) else "+".join(sorted(per[k]))))
        return ",".join(parts)

    groups = {}
    for spec, fault, dv, detail in viol:
        mode, o, kinds, outloc = spec
        groups.setdefault(dv, {}).setdefault((mode, o or "absent", fault_class(fault)), []).append((frozenset(kinds), spec, fault, detail))
    for dv, cells in sorted(groups.items()):
        attributed = []     # (attr kinds, mode, fault class, spec, fault, detail)
        for (mode, o, fc), items in sorted(cells.items()):
            minimal = []
            for ks in sorted(set(i[0] for i in items), key=lambda s: (len(s), sorted(s))):
                if not any(m <= ks for m in minimal):
                    minimal.append(ks)
            # under an injected fault, a deviation that also shows with good inputs only does not depend on the inputs
            anyin = fc != "none" and any(ks <= GOOD_KINDS for ks, _, _, _ in items)
            for ks, spec, fault, detail in items:
                attributed.append((frozenset(["any"]) if anyin else next(m for m in minimal if m <= ks), mode, fc, spec, fault, detail))
        modes_of, faults_of = {}, {}
        for attr, mode, fc, spec, fault, detail in attributed:
            modes_of.setdefault(attr, set()).add(mode)
            faults_of.setdefault(attr, set()).add(fc)
        by_sig = {}
        for attr, mode, fc, spec, fault, detail in sorted(attributed, key=lambda t: (t[2] != "none", len(t[3][2]), t[3][2], t[3][0], str(t[3][1]), t[3][3], str(t[4]))):
            sig = "C14|%s|inputs=%s|modes=%s|fault=%s" % (dv, "+".join(sorted(attr)), "+".join(sorted(modes_of[attr])),
                                                        compress_faults(faults_of[attr]))
            by_sig.setdefault(sig, []).append((spec, fault, detail))
        confirmed = []
        for sig, cases in sorted(by_sig.items()):
            # Same input must fail twice, the second time with nothing else running: part 1 runs 16 drivers in
            # parallel, and a driver whose temporaries collide across processes misbehaves there irreproducibly.
            # Interference is part 2's business, where it is deterministic.
            hit = None
            for spec, fault, detail in cases[:3]:
                r = run_shape(cfg, M.Shape(*spec), [fault[2]] if fault else [], os.path.join(cfg["root"], "confirm"))
                if any(dv2 == dv and (f2 or None) == fault for f2, dv2, _ in r["viol"]):
                    hit = (spec, fault, detail)
                    break
            if hit:
                confirmed += [(sig,) + hit] + [(sig,) + c for c in cases if c != hit]
            else:
                ctx.cover(part1_cases_not_reproduced_serially=len(cases))
        for sig, spec, fault, detail in confirmed:
            sh = M.Shape(*spec)
            case = {"part": 1, "spec": [spec[0], spec[1], list(spec[2]), spec[3]], "fault": list(fault) if fault else None,
                    "deviation": dv}
            desc = "chibicc %s  [inputs %s; output location %s; fault %s] -> %s: %s" % (
                " ".join(sh.argv()), ",".join(spec[2]), spec[3], fault_class(fault) if not fault else "%s#%d:%s" % tuple(fault), dv, detail)
            ctx.violation(sig, desc, files={"case.json": json.dumps(case, indent=1), "README.txt": desc + "\n\ninput kinds are defined in "
                                            "models/c14_driver.py (c_dir = a directory named *.c, *_nx = nonexistent, ...);\n"
                                            "replay: CHIBICC=<binary> CHIBICC_DIR=<tree> python3 checks/c14.py --replay-case case.json\n"},
                          replay=REPLAY)

    if counters.get("timeouts"):
        ctx.incomplete("%d driver runs hit the %d s harness timeout and were not judged" % (counters["timeouts"], RUN_TIMEOUT))
    ctx.cover(workers_have_private_tmp=all(r.get("iso") for _, r in results))
    ctx.cover(evaluations=runs, shapes=len(results), shapes_undefined_by_property=undefined,
              fault_points_enumerated=fault_points, temp_creations_observed=ntemps,
              distinct_nontrivial=len(nontrivial), **counters)

    # ---------------- part 2 ----------------
    sched_runs = sched_total = 0
    eff_seen = set()
    wid = 0
    jobs = []
    for scen, fkinds in SCEN_PLAN[ctx.tier]:
        fnames, cmds = SCENARIOS[scen]
        files = {n: SCEN_FILES[n] for n in fnames}
        # solo runs (no fault) give each driver's steps
        base = []
        for i, argv in enumerate(cmds):
            o, after, eff = solo_result(cfg, os.path.join(cfg["root"], "solo"), files, argv, None)
            if o["status"] != 0:
                raise core.HarnessError("scenario %s driver %d fails alone: %s" % (scen, i, o["stderr"][-300:]))
            base.append((o, after, [(k, n) for _, k, n in eff]))
        assigns = [({}, None)]
        for i in range(len(cmds)):
            for (kind, k) in base[i][2]:
                for how in fkinds:
                    assigns.append(({i: (kind, k, how)}, (i, kind, k, how)))
        for fa, ftag in assigns:
            solos, counts = [], []
            for i, argv in enumerate(cmds):
                if i in fa:
                    o, after, eff = solo_result(cfg, os.path.join(cfg["root"], "solo"), files, argv, fa[i])
                else:
                    o, after, eff = base[i][0], base[i][1], base[i][2]
                solos.append((o["status"], {p: v for p, v in after.items() if p not in files}))
                counts.append(len(eff))
            schedules = list(interleavings(counts))
            sched_total += len(schedules)
            n = max(1, (len(schedules) + 3) // 4) if len(schedules) > 8 else len(schedules)
            for part in core.chunks(schedules, n):
                jobs.append((cfg, scen, fa, part, True, wid))
                wid += 1
    sched_viol = []
    if ctx.out_of_time(reserve=20):
        ctx.incomplete("part 2 (schedules) not run: deadline")
        jobs = []
    for job, res in zip(jobs, core.pmap(_sched_batch, jobs)):
        scen, fa = job[1], job[2]
        for sch, eff, extra, devs in res:
            sched_runs += 1
            eff_seen.add((scen, tuple(sorted(fa.items())), tuple(eff)))
            for who, dv, detail in devs:
                sched_viol.append((scen, fa, sch, dv, detail))
    if jobs and len(eff_seen) < 20:
        raise core.HarnessError("vacuous schedule exploration: %d distinct effective schedules" % len(eff_seen))
    plan = dict(SCEN_PLAN[ctx.tier])
    fsets = {}
    for scen, fa, sch, dv, detail in sched_viol:
        fsets.setdefault((scen, dv), set()).add(fault_class(next(iter(fa.values())) if fa else None))

    def compress2(scen, fcs):
        per = {}
        for fc in fcs:
            k, _, how = fc.partition(":")
            per.setdefault(k, set()).add(how)
        return ",".join(k if k == "none" else "%s:%s" % (k, "*" if per[k] >= set(plan[scen]) else "+".join(sorted(per[k])))
                        for k in sorted(per))
    confirmed_sig = {}
    for scen, fa, sch, dv, detail in sorted(sched_viol, key=lambda t: (t[0], t[3], bool(t[1]), str(sorted(t[1].items())), t[2])):
        sig = "C14|concurrent|%s|scenario=%s|fault=%s" % (dv, scen, compress2(scen, fsets[(scen, dv)]))
        if sig not in confirmed_sig:
            # same schedule must fail twice, the second time with nothing else running
            again = _sched_batch((cfg, scen, fa, [sch], False, 99999))
            confirmed_sig[sig] = any(dv2 == dv for _, _, _, devs in again for _, dv2, _ in devs)
            if not confirmed_sig[sig]:
                ctx.cover(part2_cases_not_reproduced_serially=1)
        if not confirmed_sig[sig]:
            continue
        case = {"part": 2, "scenario": scen, "faults": {str(k): list(v) for k, v in fa.items()}, "schedule": list(sch), "deviation": dv}
        desc = "scenario %s: drivers %s in one directory, step schedule %s (driver index per granted step), fault %s -> %s: %s" % (
            scen, " || ".join("chibicc " + " ".join(c) for c in SCENARIOS[scen][1]), "".join(map(str, sch)),
            {k: "%s#%d:%s" % tuple(v) for k, v in fa.items()} or "none", dv, detail)
        ctx.violation(sig, desc, files={"case.json": json.dumps(case, indent=1), "README.txt": desc + "\n\nreplay: CHIBICC=<binary> "
                                        "CHIBICC_DIR=<tree> python3 checks/c14.py --replay-case case.json\n"}, replay=REPLAY)
    ctx.cover(schedules=sched_runs, schedules_distinct_effective=len(eff_seen), schedule_scenarios=len(SCEN_PLAN[ctx.tier]))
    ctx.cover(evaluations=sched_runs)
    ctx.cover(rule="a case is one driver invocation (shape x fault point) or one complete schedule; non-trivial = the "
                   "command shape makes the driver start at least one subprocess (counted per distinct shape)",
              fault_kinds=faults, alphabet={str(k): v for k, v in ALPHABET[ctx.tier].items()})
    for spec, r in results[:200]:
        if len(r["steps"]) >= 3:
            ctx.sample({"argv": M.Shape(*spec).argv(), "outloc": spec[3], "steps": ["%s#%d" % s for s in r["steps"]],
                        "runs": r["runs"], "no_fault_status": r["status"]}, limit=4)
    ctx.assume("faults are injected one at a time (single point of failure); a fault makes the step die before doing "
               "its work, or (partial) after writing 7 bytes to its output")
    ctx.assume("'partial' faults of the front end under -S / -E -o write to the requested output itself; the content of "
               "that output is then not judged (the write is the injected fault), everything else is")
    ctx.assume("unreadable input is modelled by a directory and a nonexistent path (the checks run as root); unwritable "
               "output by a nonexistent parent directory (-o) or a directory occupying the default output name")
    ctx.assume("schedules are explored at subprocess-step granularity: one step runs at a time")
    ctx.assume("a pre-existing output that is deleted (not rewritten) when its translation unit fails is accepted")


# ----------------------------------------------------------------------------------------------------
# replay of a single case:  python3 checks/c14.py --replay-case case.json   (env CHIBICC, CHIBICC_DIR)
# ----------------------------------------------------------------------------------------------------
def replay_case(path):
    import tempfile
    case = json.load(open(path))
    chibicc = os.environ["CHIBICC"]
    tree = os.environ.get("CHIBICC_DIR") or os.path.dirname(chibicc)
    root = tempfile.mkdtemp(prefix="vp_C14r_")
    try:
        cfg = build_tools(chibicc, os.path.join(tree, "include"), root)
        if case["part"] == 1:
            spec = case["spec"]
            shape = M.Shape(spec[0], spec[1], tuple(spec[2]), spec[3])
            fault = tuple(case["fault"]) if case["fault"] else None
            r = run_shape(cfg, shape, [fault[2]] if fault else [], os.path.join(root, "w"))
            for f, dv, detail in r["viol"]:
                if dv == case["deviation"] and (f or None) == fault:
                    print("reproduced: %s %s %s" % (shape.key(), f, detail))
                    return 1
            return 0
        scen = case["scenario"]
        fnames, cmds = SCENARIOS[scen]
        files = {n: SCEN_FILES[n] for n in fnames}
        fa = {int(k): tuple(v) for k, v in case["faults"].items()}
        res = _sched_batch((cfg, scen, fa, [tuple(case["schedule"])], False, 0))
        for sch, eff, extra, devs in res:
            for who, dv, detail in devs:
                if dv == case["deviation"]:
                    print("reproduced: %s" % detail)
                    return 1
        return 0
    finally:
        shutil.rmtree(root, ignore_errors=True)


if __name__ == "__main__":
    if len(sys.argv) == 3 and sys.argv[1] == "--replay-case":
        try:
            sys.exit(replay_case(sys.argv[2]))
        except core.HarnessError as e:
            print("HARNESS-ERROR: %s" % e)
            sys.exit(2)
    print(__doc__)
    sys.exit(2)
