char *s = "\xz";
