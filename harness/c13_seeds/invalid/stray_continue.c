int f(int x) { continue; return x; }
