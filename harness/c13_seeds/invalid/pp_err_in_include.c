#include "c13_bad.h"
int x;
