long char x;
