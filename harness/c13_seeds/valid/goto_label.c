int f(int n) {
  int i = 0;
again:
  i++;
  if (i < n) goto again;
  void *p = &&again;
  if (!n) goto *p;
  return i;
}
