_Alignas(16) int a;
struct S { _Alignas(8) char c; int d; } s;
struct T { char c; int d; } __attribute__((aligned(16))) t;
struct __attribute__((aligned(4))) U { char c; } u;
int f(void) { _Alignas(32) int x = 1; return x + _Alignof(s) + _Alignof(t) + _Alignof(u); }
