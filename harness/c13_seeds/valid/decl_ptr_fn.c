int *p, **pp;
int (*fp)(int, char *);
int *(*afp[3])(void);
int f(int a, char *b) { return a + *b; }
