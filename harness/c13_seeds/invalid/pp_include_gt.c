#include <stddef.h
