#define F(x) x
int a = F(1
#if 2);
