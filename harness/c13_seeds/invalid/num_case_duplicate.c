int f(int x) { switch (x) { case 2: return 1; case 2: return 2; } return 0; }
