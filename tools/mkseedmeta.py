#!/usr/bin/env python3
"""Writes seeded/<ID>-<n>/meta.json from notes.txt and the caught_by_*.txt files left by tools/seedeval.sh."""
import glob, json, os, re
V = os.path.dirname(os.path.dirname(os.path.abspath(__file__)))
for d in sorted(glob.glob(os.path.join(V, "seeded", "C*-*"))):
    name = os.path.basename(d)
    prop = name.split("-")[0]
    notes = open(os.path.join(d, "notes.txt"), errors="replace").read() if os.path.exists(os.path.join(d, "notes.txt")) else ""
    first = next((l.strip() for l in notes.splitlines() if l.strip()), "")
    m = re.search(r"(?is)what is needed[^\n]*\n(.*?)(\n\s*\n|\Z)", notes)
    needs = re.sub(r"\s+", " ", m.group(1)).strip()[:600] if m else ""
    caught = {}
    for f in sorted(glob.glob(os.path.join(d, "caught_by_*.txt"))):
        c = os.path.basename(f)[10:-4]
        sigs = re.findall(r"sig=(\S+)", open(f).read())
        caught[c] = sigs[:2]
    old = {}
    mp = os.path.join(d, "meta.json")
    if os.path.exists(mp):
        try: old = json.load(open(mp))
        except Exception: old = {}
    meta = {"property": prop, "breaks": old.get("breaks") or first, "needs_to_manifest": old.get("needs_to_manifest") or needs,
            "author": "independent sub-agent given only the property text and a scratch worktree of /repo",
            "confirmed_by_lead": "tools/seedeval.sh %s: patch applied to a scratch copy of /repo HEAD, `make test` passes there, demo.sh fails on the patched build and passes on the clean build" % prop,
            "caught_by": {c: (s if s else "NOT CAUGHT (quick tier)") for c, s in caught.items()} or old.get("caught_by", {})}
    json.dump(meta, open(mp, "w"), indent=1)
print("ok")
