#include <stdarg.h>
int sum(int n, ...) {
  va_list ap;
  va_start(ap, n);
  int s = 0;
  for (int i = 0; i < n; i++) s += va_arg(ap, int);
  va_end(ap);
  return s;
}
int use(void) { return sum(2, 1, 2); }
