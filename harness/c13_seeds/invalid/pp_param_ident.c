#define F(1) x
