int f(int x) { return sizeof(int[3]) + sizeof x + _Alignof(long) + sizeof(struct { char a; long b; }); }
