int f(int x) { default: return x; }
