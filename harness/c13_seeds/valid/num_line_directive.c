#line 7
int a;
# 9 "v.c"
int b = __LINE__;
