struct __attribute__((packed)) P { char a; int b; };
struct A { int x; } __attribute__((aligned(16)));
_Alignas(32) int g;
int f(void) { return _Alignof(struct A) + sizeof(struct P); }
