struct Q { long double v; };
struct T { long a, b, c; };
long double g(int, int, int, int, int, int, int, long double, struct T, struct Q, double);
long double f(int a, struct T t, struct Q x, long double y) { return g(a, 2, 3, 4, 5, 6, 7, y, t, x, 1.5) + x.v; }
