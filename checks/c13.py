"""C13 every input is answered: exit 0 with assembly that `as` accepts, or exit != 0 with a located diagnostic.

Enumerated (exhaustively, no sampling): deviation-bounded neighbourhoods of a seed corpus
(harness/c13_seeds/valid: one small valid program per construct family; harness/c13_seeds/invalid: one minimal
invalid program per diagnostic site).
  deviation 0   every seed x every option set of OPTION_SETS; every option spelling of OPTION_PROBES on a trivial unit
  deviation 1   at EVERY token position of every seed: delete, duplicate, swap-with-next, replace-by and
                insert-before each token of the tier's token alphabet (+ insert at end); quick: QUICK_ALPHABET
                (12 tokens), thorough: FULL_ALPHABET (160: all punctuators, keywords/builtins, identifiers of each
                kind, well- and ill-formed literals, directive starts, comment/splice starts)
  byte level    every byte of every seed replaced by each of BYTE_ALPHABET[tier], truncation at every byte offset
  deviation 2   (thorough) every deviation-1 edit (DEV2_ALPHABET) of every deviation-1 edit, for seeds of at most
                DEV2_MAXTOK tokens
  numbers       a deviation-1 edit with a VALUE alphabet: at EVERY numeric-literal position of every seed, every value
                of the NUMBER sub-alphabet.  thorough: NUM_VALUES = {0, 1, 2, 7, 8, 15, 16, 31, 32, 63, 64, 255, 256,
                65535, 65536, 2^31-1, 2^31, 2^32-1, 2^32, 2^63-1, 2^63, 2^64-1}, their negations, hex/suffixed
                spellings of the 2^k boundaries (NUM_HEX), and m-1, m, m+1 (and negations) for every integer literal
                m of the same seed - so every index / width / count / label position takes the values around every
                bound the seed declares.  quick: {0, 1, -1, 2^31, 2^32-1, 2^32, 2^64-1} + m-1, m, m+1.
                The seeds num_*.c (valid and invalid) give numeric positions to range designators, array bounds
                and designator indices, bit-field widths, case labels and case ranges on every controlling type
                (signed/unsigned char, short, int, long, long long, _Bool, enum, bit-fields), shift counts, enum
                values, alignment values, constant division, #line, local object sizes.
  repetition    every construct family of REP_FAMILIES (macros defined / undefined / redefined, macro parameters and
                arguments, expansion chains, conditional and include nesting, command-line -D/-U/-I/-include,
                identifiers / typedefs / tags / enumerators / labels declared per scope, nested and sibling scopes,
                struct members and nesting, parameters and arguments of every class, declarator nesting,
                initializer elements / designators / brace depth, string literals, statements nested and in
                sequence, case labels, parenthesis depth, operator chains and right-nested operands (pending
                operands on the code generator's stack), nested calls ...) instantiated with n repetitions in one
                translation unit for every n of REP_N[tier] (quick {1, 2, 6, 7, 8, 9, 16, 17, 64, 100, 128, 129,
                1000}; thorough 1..130, 255..257, 511..513, 1000), and the two-phase families of REP2_FAMILIES
                (n1 define/undef pairs or dying scopes, then n2 new definitions) for every pair of REP2_N[tier]:
                growth, wrap-around, tombstone and rehash boundaries of the internal tables are crossed with every
                phase relation.  Generated units are valid programs; up to the C11 5.2.4.1 minimum translation
                limit of the repeated construct a rejection is reported when gcc accepts the unit (second oracle);
                beyond it a located diagnostic is a correct answer.  Only crash / internal error / hang / missing
                location / assembler rejection are judged (C17 checks the table as a dictionary).
  grids         construct families enumerated as full products of stated alphabets (GRID_FAMILIES, see the comment there):
                call_shapes - callee definition + call + variadic call for every parameter list int^i double^d tail,
                (i, d) over every count of used integer / SSE argument registers (quick {0,4,5,6,7} x {0,7,8,9}, thorough 9 x 11),
                tail = every sequence of <= 2 types (thorough: <= 3 after 16 prefixes) over 12 argument types {int,
                double, long double, structs of 1, 8, 16 (int/int, int/SSE, SSE/SSE), 24, 40 bytes, struct { long double },
                struct { long double; int }}, return types int / long double / two-register struct / memory struct:
                every register-exhaustion position x every parity of stack words before a 16-byte aligned stack argument;
                pp_selfref - macro names reappearing during their own replacement (object-/function-like, direct /
                chains of 2, 3, 4, 8, spelled / result of ## / operand of #, in declarators, expressions, #if, -D);
                pp_skipped_expr - 19 positions in which a controlling expression must not be evaluated (#elif after a
                taken group of every kind, conditionals nested in skipped groups of every kind) x 24 (thorough 87)
                expressions that cannot be evaluated;
                atomic_ops - 24 object types of sizes 1, 2, 3, 4, 5, 8, 12, 16, 24 (integer, _Bool, floating incl. long
                double, pointer, struct, union) x 4 (thorough 7) ways to reach the object x every compound assignment,
                ++/--, load/store, the two builtins, the <stdatomic.h> macros.
                Units expected valid that chibicc rejects are reported when gcc accepts them; for the others (invalid,
                or outside the supported language: atomic read-modify-write on objects that are not scalars of 1, 2, 4,
                8 bytes) only (i)-(iii) are judged.
Variants are de-duplicated by content.  Each one is run as `chibicc -cc1 -cc1-input v.c -cc1-output v.s v.c` by
harness/c13_run.c under RLIMIT_CPU 5 s / RLIMIT_AS 2 GB / 60 s wall, observed from outside with ptrace (wait status,
stack at a fatal signal, peak resident set).

Verdicts (nothing is concluded from gcc accepting or rejecting an edited program):
  (i)   no death by signal, no `internal error`, no hang (a timeout is re-run alone with 10x limits; only a run
        that really burns 50 s of CPU is a hang - a wall-clock timeout on a loaded machine is never a verdict)
  (ii)  exit 0  => the output exists, `as` accepts it (assembled once per distinct output text) and no operand is
        the text `(null)` (a NULL string printed by the code generator; `as` reads it as a symbol named null)
  (iii) exit !=0 => stderr is non-empty and its first line is `<file>:<line>: ` naming an existing file and a line
        1..(number of lines + 1) of it (the line after the last one is where chibicc places end-of-file), or a
        `<pseudo-file>`/command-line message when options are involved
  (iv)  every valid seed is accepted under every option set
  (v)   memory: a death by signal with the peak resident set at the address-space limit is re-run (smallest inputs of its
        class, one at a time) with 2x the memory; exhausting that too (or 10x the CPU time) is `memory-exhausted` - the
        compiler's memory use is unbounded for the input - named by the outermost frames like a hang.  After 3 timeouts /
        memory exhaustions inside one work item the rest of the item runs under 1 s / 128 MB and cases hitting those
        limits get no verdict, so that a defective compiler costs a bounded amount of the machine.  The runner gives every
        case 256 MB first; only a case that dies from a signal there is re-run with the 2 GB limit, holding a machine-wide
        lock (/tmp/c13_heavy.lock), as are the wide re-runs: at most one compiler process above 256 MB exists at any time.
Signature: C13|<class>|<site>; for signals the site is the innermost chibicc function on the stack at the moment of
the signal (frame-pointer walk by the ptrace observer, named through `nm`), so that all inputs reaching one faulty
statement share one signature.  Anomalies of grid units carry the family as construct class (`|in:<family>`).
"""
import bisect, hashlib, os, re, shutil, subprocess, sys

if __name__ == "__main__":
    sys.path.insert(0, os.path.dirname(os.path.dirname(os.path.abspath(__file__))))
from vlib import core

LEVEL = "exploration"
BUDGET = {"quick": 2400, "thorough": 5400}      # deadlines, not targets: the shared machine runs at load 300-500

SEEDS = os.path.join(core.VERIF, "harness", "c13_seeds")
RUNNER_SRC = os.path.join(core.VERIF, "harness", "c13_run.c")
CPU_S, WALL_S, MEM_MB = 5, 60, 2048      # first pass; the wall limit only guards against a blocked process
CONFIRM_CPU_S, CONFIRM_WALL_S = 50, 400   # a hang is declared only when 10x the CPU limit is really consumed
# Resource exhaustion.  A run whose peak resident set reaches half of its address-space limit when it dies from a signal
# died because memory ran out (a failed allocation used unchecked), not from a wild access: it is re-run with
# MEMX_FACTOR x the memory; if it exhausts that too (or 10x the CPU time) the compiler's memory use is unbounded for this
# input: class `memory-exhausted`, named like a hang by the outermost frames.  To keep a defective compiler from hurting
# the (shared) machine: after HEAVY_MAX runs of one work item ended in a timeout or in memory exhaustion, the remaining
# cases of the item run under the SCREEN limits; those that hit a SCREEN limit are counted (`resource_cases_not_judged`),
# all others are judged as usual.  The wide re-runs are made one at a time, for the MEMX_SAMPLES smallest inputs of every
# preliminary signature.
HEAVY_MAX, SCREEN_CPU_S, SCREEN_MEM_MB = 3, 1, 128
MEMX_FACTOR, MEMX_SAMPLES = 2, 2


def mem_exhausted(rss_kb, mem_mb):
    return rss_kb >= mem_mb * 512

# ---------------------------------------------------------------------------------------------------------
# alphabets (explicit bounds of the enumeration)

PUNCT = ["(", ")", "[", "]", "{", "}", ";", ",", ".", "->", "...", "+", "-", "*", "/", "%", "&", "|", "^", "~", "!",
         "=", "<", ">", "?", ":", "++", "--", "<<", ">>", "==", "!=", "<=", ">=", "&&", "||", "+=", "-=", "*=", "/=",
         "%=", "&=", "|=", "^=", "<<=", ">>=", "#", "##"]
KEYWORDS = ["int", "char", "void", "long", "short", "unsigned", "signed", "float", "double", "_Bool", "struct", "union",
            "enum", "typedef", "static", "extern", "inline", "const", "volatile", "_Atomic", "_Alignas", "_Alignof",
            "sizeof", "typeof", "if", "else", "for", "while", "do", "switch", "case", "default", "break", "continue",
            "goto", "return", "_Generic", "__attribute__", "_Noreturn", "_Thread_local", "register", "restrict",
            "__builtin_types_compatible_p", "__builtin_reg_class", "__builtin_compare_and_swap",
            "__builtin_atomic_exchange", "__func__", "__VA_ARGS__", "__VA_OPT__", "defined", "__has_include",
            "__LINE__", "__COUNTER__"]
IDENTS = ["a", "f", "x", "s", "p", "n", "T", "zz"]
LITERALS = ["0", "1", "2", "1.5", "1e", "0x", "08", "1.0f", "0.0", "10000000000000000000000", "9223372036854775808",
            "4294967296", "'a'", "''", "'\\", "\"s\"", "\"", "L\"w\"", "u8\"z\"", "-1"]
DIRECTIVES = ["\n#define X", "\n#define F(", "\n#undef f\n", "\n#include", "\n#include_next", "\n#if", "\n#ifdef",
              "\n#ifndef X\n", "\n#elif", "\n#else\n", "\n#endif\n", "\n#line", "\n#pragma once\n", "\n#error\n", "\n#\n",
              "\n#if 0\n"]
OTHER = ["\\\n", "/*", "//", "@", "`", "$", "\\", "(struct", "int(", "){", "[]", "()", "{}", "= {", ",)"]
FULL_ALPHABET = PUNCT + KEYWORDS + IDENTS + LITERALS + DIRECTIVES + OTHER
QUICK_ALPHABET = ["(", ")", "{", ";", ",", "*", "=", ":", "#", "0", "a", "int"]
DEV2_ALPHABET = ["(", "{", ";", "0", "int", "*"]
DEV2_MAXTOK = {"quick": 0, "thorough": 12}
BYTE_ALPHABET = {"quick": [0x00, ord("\\"), ord('"')],
                 "thorough": [0x00, 0x80, 0xff, ord("\\"), ord('"'), ord("'"), ord("\n")]}

# NUMBER sub-alphabet: a deviation-1 edit that replaces one numeric literal (pp-number token) by a value.  Applied
# at EVERY numeric position of EVERY seed.  Besides the fixed values, every position also receives m-1, m, m+1 for
# every integer literal m that occurs anywhere in the same seed ("relative" values: a designator index, a bit-field
# width, a shift count ... then takes the values around the declared bound / width / size that the seed itself
# spells out, without the check having to know which literal is the bound of which object).
NUM_VALUES = [0, 1, 2, 7, 8, 15, 16, 31, 32, 63, 64, 255, 256, 65535, 65536, 2147483647, 2147483648, 4294967295,
              4294967296, 9223372036854775807, 9223372036854775808, 18446744073709551615]
NUM_HEX = ["0x7fffffff", "0x80000000", "0xffffffff", "0x100000000", "0x7fffffffffffffff", "0x8000000000000000",
           "0xffffffffffffffff", "2147483648u", "4294967295u", "18446744073709551615ul", "9223372036854775807l"]
NUM_QUICK = [0, 1, 2147483648, 4294967295, 4294967296, 18446744073709551615]     # + relative values, + "-1"


def num_alphabet(tier, seed_values):
    """-> ordered list of replacement spellings (bytes) for one seed"""
    rel = sorted(set(v + d for v in seed_values for d in (-1, 0, 1) if v + d >= 0))
    if tier == "quick":
        vals = [str(v) for v in NUM_QUICK] + ["-1"] + [str(v) for v in rel]
    else:
        allv = sorted(set(NUM_VALUES + rel))
        vals = [str(v) for v in allv] + ["-" + str(v) for v in allv if v] + NUM_HEX
    out, seen = [], set()
    for v in vals:
        if v not in seen:
            seen.add(v)
            out.append(v.encode())
    return out


_INTLIT = re.compile(rb"^(0[xX][0-9a-fA-F]+|0[bB][01]+|[0-9]+)[uUlL]*$")


def int_value(tok):
    """value of an integer literal token, None for floating/ill-formed pp-numbers"""
    m = _INTLIT.match(tok)
    if not m:
        return None
    t = m.group(1).decode().lower()
    try:
        if t.startswith(("0x", "0b")):
            return int(t, 0)
        return int(t, 8) if len(t) > 1 and t[0] == "0" else int(t)
    except ValueError:
        return None


def is_number(tok):
    return re.match(rb"^\.?[0-9]", tok) is not None


# REPETITION dimension: every family of REP_FAMILIES (one construct repeated / nested N times in one translation
# unit) for every N of REP_N[tier]; two-phase families of REP2_FAMILIES for every pair of REP2_N[tier].
REP_N = {"quick": [1, 2, 6, 7, 8, 9, 16, 17, 64, 100, 128, 129, 1000],
         "thorough": list(range(1, 131)) + [255, 256, 257, 511, 512, 513, 1000]}
REP2_N = {"quick": [1, 2, 16, 17, 64, 100, 128, 129, 1000],
          "thorough": [1, 2, 8, 16, 17, 32, 33, 40, 48, 64, 65, 85, 100, 128, 129, 256, 1000]}

# option sets applied to every seed (deviation 0)
OPTION_SETS = [[], ["-E"], ["-fpic"], ["-fcommon"], ["-fno-common"], ["-DX=1", "-DF(x)=x"], ["-Ua", "-I."],
               ["-include", "c13_inc.h"], ["-M"], ["-MD", "-MF", "v.d"], ["-O2", "-g", "-std=c11", "-w"]]
# option spellings probed on a trivial translation unit; only (i) and "non-empty stderr when exit != 0" are judged
OPTION_PROBES = [["-x", "bogus"], ["-x", "c"], ["-x", "assembler"], ["-x", "none"], ["-xc"],
                 ["-Zfoo"], ["--help"], ["-###"], ["-"], ["-D", ""], ["-D="], ["-D=1"], ["-D1"], ["-DX(=1"], ["-DX("],
                 ["-DX=\""], ["-DX='"], ["-DX=/*"], ["-DX=\\"], ["-D#"], ["-DX=#"], ["-U", ""], ["-U1"], ["-UX Y"],
                 ["-include", "c13_nonexistent.h"], ["-include", "."], ["-include", "v.c"], ["-I", "x"], ["-I."],
                 ["-o", "x"], ["-ox"], ["-MF", "x"], ["-MT", "x"], ["-L", "x"], ["-Lx"], ["-Xlinker", "x"],
                 ["-idirafter", "."], ["-MD"], ["-MMD"], ["-M", "-MP"], ["-M", "-MT", "t"], ["-M", "-MQ", "a b$"],
                 ["-MD", "-MF", "/nonexistent/dir/x.d"], ["-fpic"], ["-fPIC"], ["-static"], ["-shared"], ["-s"],
                 ["-l", "m"], ["-lm"], ["-Wl,x"], ["-hashmap-test"], ["-S"], ["-c"], ["-E", "-o", "v.i"],
                 ["-cc1-output", "/nonexistent/dir/v.s"], ["-cc1-input", "nonexistent.c"]]
# spellings that lack their argument are given to the driver (the cc1 interface always carries -cc1-input/-output
# after the user's options, which a dangling option would swallow); judged: the driver itself does not die from a
# signal, and exit != 0 comes with a message
DRIVER_PROBES = [["-D"], ["-U"], ["-I"], ["-include"], ["-x"], ["-o"], ["-MF"], ["-MT"], ["-MQ"], ["-idirafter"],
                 ["-Xlinker"], ["-L"], ["-l"], ["-cc1-input"], ["-cc1-output"], ["-z"], ["--"], ["-"], []]
PROBE_UNIT = b"int X;\nint main(void) { return X; }\n"

SIGNAMES = {4: "SIGILL", 6: "SIGABRT", 7: "SIGBUS", 8: "SIGFPE", 9: "SIGKILL", 11: "SIGSEGV", 24: "SIGXCPU",
            25: "SIGXFSZ", 31: "SIGSYS", 5: "SIGTRAP"}

# ---------------------------------------------------------------------------------------------------------
# lexing seeds into preprocessing tokens (only used to place edits; no verdict depends on it)

_TOK = re.compile(rb"""
    (?P<ws>(?:[ \t\r\f\v\n]+|/\*.*?\*/|//[^\n]*|\\\n)+)
  | (?P<str>(?:u8|u|U|L)?"(?:\\.|[^"\\\n])*"|(?:u|U|L)?'(?:\\.|[^'\\\n])*')
  | (?P<num>\.?[0-9](?:[eEpP][+-]|[0-9a-zA-Z_.])*)
  | (?P<id>[A-Za-z_][A-Za-z0-9_]*)
  | (?P<punct><<=|>>=|\.\.\.|->|\+\+|--|<<|>>|<=|>=|==|!=|&&|\|\||[-+*/%&|^]=|\#\#|[\]\[(){}.,;:?~!=<>+*/%&|^\#-])
  | (?P<other>.)
""", re.S | re.X)


def lex(src):
    """-> (toks, ws): ws[i] is the white space before toks[i]; ws[len(toks)] trails."""
    toks, ws, pend = [], [], b""
    for m in _TOK.finditer(src):
        if m.lastgroup == "ws":
            pend += m.group()
        else:
            toks.append(m.group())
            ws.append(pend)
            pend = b""
    ws.append(pend)
    return toks, ws


def join(toks, ws):
    out = []
    for i, t in enumerate(toks):
        out.append(ws[i])
        out.append(t)
    out.append(ws[len(toks)])
    return b"".join(out)


def _sp(tok):
    """inserted tokens are blank-separated; directive starts carry their own newline"""
    return tok if tok.startswith(b"\n") else b" " + tok + b" "


def edits1(toks, ws, alpha):
    """All deviation-1 edits of a token sequence: yields (edit id, toks', ws')."""
    n = len(toks)
    for i in range(n):
        yield "del%d" % i, toks[:i] + toks[i + 1:], ws[:i] + [ws[i] + ws[i + 1]] + ws[i + 2:]
        yield "dup%d" % i, toks[:i + 1] + toks[i:], ws[:i + 1] + [b" "] + ws[i + 1:]
        if i + 1 < n:
            yield "swap%d" % i, toks[:i] + [toks[i + 1], toks[i]] + toks[i + 2:], ws
        for k, a in alpha:
            if a != toks[i]:
                yield "rep%d.%d" % (i, k), toks[:i] + [_sp(a)] + toks[i + 1:], ws
    for i in range(n + 1):
        for k, a in alpha:
            yield "ins%d.%d" % (i, k), toks[:i] + [_sp(a)] + toks[i:], ws[:i] + [b""] + ws[i:]


def gen_variants(src, spec):
    """spec -> iterator of (variant id, bytes).  Deterministic order."""
    kind = spec[0]
    if kind == "seed":
        yield "seed", src
    elif kind == "tok1":
        toks, ws = lex(src)
        alpha = [(k, FULL_ALPHABET[k].encode()) for k in spec[1]]
        for eid, t, w in edits1(toks, ws, alpha):
            yield eid, join(t, w)
    elif kind == "tok2":
        toks, ws = lex(src)
        alpha = [(FULL_ALPHABET.index(a), a.encode()) for a in DEV2_ALPHABET]
        first = spec[1]            # index of the first edit in the deviation-1 enumeration, modulo spec[2]
        for j, (e1, t1, w1) in enumerate(edits1(toks, ws, alpha)):
            if j % spec[2] != first:
                continue
            for e2, t2, w2 in edits1(t1, w1, alpha):
                yield e1 + "+" + e2, join(t2, w2)
    elif kind == "num":
        toks, ws = lex(src)
        pos = [i for i, t in enumerate(toks) if is_number(t)]
        alpha = num_alphabet(spec[1], [v for v in (int_value(toks[i]) for i in pos) if v is not None])
        for i in pos:
            for a in alpha:
                if a != toks[i]:
                    yield "num%dv%s" % (i, a.decode().replace("-", "m")), join(toks[:i] + [_sp(a)] + toks[i + 1:], ws)
    elif kind == "byte":
        for i in range(len(src)):
            for b in BYTE_ALPHABET[spec[1]]:
                if src[i] != b:
                    yield "b%d.%02x" % (i, b), src[:i] + bytes([b]) + src[i + 1:]
        for i in range(len(src)):
            yield "trunc%d" % i, src[:i]
    else:
        raise core.HarnessError("bad spec %r" % (spec,))


def edit_class(vid):
    if vid.startswith("num"):
        return "num"
    if vid.startswith("n") and vid[1:2].isdigit():
        return "rep"
    return re.sub(r"[0-9.]+", "", vid.split("+")[0]) + ("+2" if "+" in vid else "")


# ---------------------------------------------------------------------------------------------------------
# REPETITION dimension: generators of translation units in which one construct is repeated / nested n times.
# Every generated unit is meant to be a valid program; `limit` is the C11 5.2.4.1 minimum translation limit that
# applies to the repeated construct (None: no limit applies; 0: the unit is accepted by compilers but not strictly
# conforming, never judged for rejection).  A unit with n <= limit that chibicc rejects is reported only when gcc
# accepts the same unit (two oracles); beyond the limit a located diagnostic is a correct answer.

def _r(n, f, sep=""):
    return sep.join(f(i) for i in range(n))


def _fn(body, ret="r", pre=""):
    return "%sint f(int x) {\n  int r = 0;\n%s\n  return %s;\n}\n" % (pre, body, ret)


def _nest(n, opn, core, cls):
    return opn * n + core + cls * n


REP_FAMILIES = [
    # ---- preprocessor tables -------------------------------------------------------------------------------
    ("pp_define", 4095, lambda n: _r(n, lambda i: "#define M%d %d\n" % (i, i)) +
        "int zz;\nint y[1 + M0 + M%d];\nint f(void) { return zz + sizeof y; }\n" % (n - 1)),
    ("pp_define_undef_all", 4095, lambda n: _r(n, lambda i: "#define M%d %d\n" % (i, i)) +
        _r(n, lambda i: "#undef M%d\n" % i) + "#ifdef M0\n#error M0\n#endif\n#define K 3\nint M0 = K, zz;\n"),
    ("pp_define_undef_pairs", 4095, lambda n: _r(n, lambda i: "#define M%d %d\nint a%d = M%d;\n#undef M%d\n" % (i, i, i, i, i)) +
        "#define K 3\nint zz = K;\n"),
    ("pp_define_undef_same", None, lambda n: _r(n, lambda i: "#define M %d\nint a%d = M;\n#undef M\n" % (i, i)) +
        "#define M 3\nint zz = M;\n"),
    ("pp_undef_undefined", None, lambda n: _r(n, lambda i: "#undef U%d\n" % i) + "int zz;\n"),
    ("pp_redefine_same", None, lambda n: "#define M 1\n" * n + "int zz = M;\n"),
    ("pp_redefine_diff", 0, lambda n: _r(n, lambda i: "#define M %d\n" % i) + "int zz = M;\n"),
    ("pp_funclike_define", 4095, lambda n: _r(n, lambda i: "#define F%d(a, b) ((a) + (b) + %d)\n" % (i, i)) +
        "int zz = F0(1, 2) + F%d(3, 4);\n" % (n - 1)),
    ("pp_params", 127, lambda n: "#define F(%s) (p0 + p%d)\nint zz = F(%s);\n"
        % (_r(n, lambda i: "p%d" % i, ", "), n - 1, _r(n, str, ", "))),
    ("pp_variadic_args", 127, lambda n: "#define V(...) g(__VA_ARGS__)\nint g(int, ...);\nint f(void) { return V(0, %s); }\n"
        % _r(n, str, ", ")),
    ("pp_stringize_args", 300, lambda n: "#define S(...) #__VA_ARGS__\nchar *s = S(%s);\n" % _r(n, lambda i: "a%d" % i, ", ")),
    ("pp_nested_invocation", 63, lambda n: "#define I(v) (v)\nint zz = %s;\n" % _nest(n, "I(", "1", ")")),
    ("pp_expansion_chain", None, lambda n: "#define C0 1\n" + _r(n, lambda i: "#define C%d C%d\n" % (i + 1, i)) +
        "int zz = C%d;\n" % n),
    ("pp_self_reference_cycle", None, lambda n: _r(n, lambda i: "#define R%d R%d\n" % (i, (i + 1) % n)) + "int R0 = 1;\n"),
    ("pp_paste_many", 4095, lambda n: "#define P(a, b) a##b\n" + _r(n, lambda i: "int P(v, %d) = P(%d, %d);\n" % (i, i, i))),
    ("pp_if_nested", 63, lambda n: "#if 1\n" * n + "int zz;\n" + "#endif\n" * n),
    ("pp_if_nested_skipped", 62, lambda n: "#if 0\n" + "#if 1\n" * n + "int bad = ;\n" + "#endif\n" * n + "#endif\nint zz;\n"),
    ("pp_ifdef_else_nested", 63, lambda n: _r(n, lambda i: "#ifdef U%d\n#else\n" % i) + "int zz;\n" + "#endif\n" * n),
    ("pp_elif_chain", None, lambda n: "#if 0\n" + "#elif 0\n" * n + "#else\nint zz;\n#endif\n"),
    ("pp_if_sequence", None, lambda n: _r(n, lambda i: "#if %d == %d\nint a%d;\n#endif\n" % (i, i, i))),
    ("pp_if_paren_depth", 63, lambda n: "#if %s\nint zz;\n#endif\n" % _nest(n, "(", "1", ")")),
    ("pp_if_operator_chain", None, lambda n: "#if %s\nint zz;\n#endif\n" % _r(n, lambda i: "1", " + ")),
    ("pp_if_cond_chain", None, lambda n: "#if %s 1\nint zz;\n#endif\n" % _r(n, lambda i: "0 ? 0 :", " ")),
    ("pp_if_defined_many", None, lambda n: "#if %s\n#error x\n#endif\nint zz;\n" % _r(n, lambda i: "defined(U%d)" % i, " || ")),
    ("pp_include_depth", 15, lambda n: "#define C13_DEPTH %d\n#include \"c13_nest.h\"\nint zz = __COUNTER__;\n" % n),
    ("pp_include_repeat_guarded", None, lambda n: "#include \"c13_inc.h\"\n" * n + "int zz = INC_VAL;\n"),
    ("pp_include_repeat_plain", None, lambda n: "#include \"c13_rep.h\"\n" * n + "int zz;\n"),
    ("pp_include_angle_repeat", None, lambda n: "#include <stddef.h>\n" * n + "size_t zz;\n"),
    ("pp_line_directives", None, lambda n: _r(n, lambda i: "#line %d\nint a%d;\n" % (i + 1, i))),
    ("pp_line_splices", None, lambda n: "int \\\n" + "\\\n" * n + "zz;\n"),
    ("pp_blank_lines", None, lambda n: "\n" * n + "int zz;\n"),
    ("pp_comments", None, lambda n: "/* c */ " * n + "int zz;\n" + "// c\n" * n),
    ("pp_long_comment", None, lambda n: "/*" + "c" * n + "*/ int zz;\n"),
    ("pp_long_identifier", None, lambda n: "int %s = 1;\nint f(void) { return %s; }\n" % ("i" * n, "i" * n)),
    ("pp_long_line", None, lambda n: "int zz = 0" + " + 0" * n + ";\n"),
    ("pp_long_string", 4095, lambda n: "char s[] = \"%s\";\n" % ("a" * n)),
    ("pp_string_concat", 4095, lambda n: "char s[] = %s;\n" % ("\"a\" " * n)),
    ("pp_wide_string_concat", 4095, lambda n: "int s[] = %s;\n" % ("L\"a\" " * n)),
    ("pp_string_escapes", 4095, lambda n: "char s[] = \"%s\";\n" % ("\\x41\\101\\n" * n)),
    ("pp_counter", None, lambda n: _r(n, lambda i: "int a%d = __COUNTER__ + __LINE__;\n" % i)),
    ("pp_pragma_directives", None, lambda n: "#pragma foo\n" * n + "#pragma once\n" * n + "int zz;\n"),
    # ---- command line ---------------------------------------------------------------------------------------
    ("opt_D", None, lambda n: ("int zz = M0 + M%d;\n" % (n - 1), ["-DM%d=%d" % (i, i) for i in range(n)])),
    ("opt_U", None, lambda n: ("int zz;\n", ["-UM%d" % i for i in range(n)])),
    ("opt_D_then_U", None, lambda n: ("#ifdef M0\n#error M0\n#endif\n#define K 2\nint zz = K;\n",
        ["-DM%d=%d" % (i, i) for i in range(n)] + ["-UM%d" % i for i in range(n)])),
    ("opt_I", None, lambda n: ("#include <c13_inc.h>\nint zz = INC_VAL;\n", ["-Id%d" % i for i in range(n)] + ["-I."])),
    ("opt_include", None, lambda n: ("int zz;\n", [a for i in range(n) for a in ("-include", "c13_rep.h")])),
    # ---- declarations: scope and tag tables --------------------------------------------------------------
    ("decl_globals", 4095, lambda n: _r(n, lambda i: "int g%d;\n" % i) + "int f(void) { return g0 + g%d; }\n" % (n - 1)),
    ("decl_globals_initialized", 4095, lambda n: _r(n, lambda i: "int g%d = %d;\n" % (i, i)) +
        "int f(void) { return g0 + g%d; }\n" % (n - 1)),
    ("decl_tentative_repeated", None, lambda n: "int g;\n" * n + "extern int g;\n" * n + "int f(void) { return g; }\n"),
    ("decl_declarator_list", 4095, lambda n: "int %s;\nint f(void) { return a0 + a%d; }\n" % (_r(n, lambda i: "a%d" % i, ", "), n - 1)),
    ("decl_functions", 4095, lambda n: _r(n, lambda i: "int f%d(void) { return %d; }\n" % (i, i)) +
        "int f(void) { return f0() + f%d(); }\n" % (n - 1)),
    ("decl_prototype_repeated", None, lambda n: "int f(int);\n" * n + "int f(int x) { return x; }\n"),
    ("decl_static_functions", 4095, lambda n: _r(n, lambda i: "static int f%d(void) { return %d; }\n" % (i, i)) +
        "int f(void) { return f%d(); }\n" % (n - 1)),
    ("decl_locals", 511, lambda n: _fn(_r(n, lambda i: "  int v%d = %d;\n" % (i, i)), "r + v0 + v%d" % (n - 1))),
    ("decl_locals_long_double", 511, lambda n: _fn(_r(n, lambda i: "  long double v%d = %d;\n" % (i, i)), "r + (int)(v0 + v%d)" % (n - 1))),
    ("decl_static_locals", 511, lambda n: _fn(_r(n, lambda i: "  static int v%d = %d;\n" % (i, i)), "r + v0 + v%d" % (n - 1))),
    ("decl_local_arrays", 511, lambda n: _fn(_r(n, lambda i: "  char v%d[%d] = {1};\n" % (i, i + 1)), "r + v0[0] + v%d[0]" % (n - 1))),
    ("decl_typedefs", 4095, lambda n: _r(n, lambda i: "typedef int T%d;\n" % i) + "T0 a;\nT%d b;\n" % (n - 1)),
    ("decl_typedef_chain", None, lambda n: "typedef int T0;\n" + _r(n, lambda i: "typedef T%d T%d;\n" % (i, i + 1)) + "T%d zz;\n" % n),
    ("decl_typedef_repeated", None, lambda n: "typedef int T;\n" * n + "T zz;\n"),
    ("decl_local_typedefs", 511, lambda n: _fn(_r(n, lambda i: "  typedef int T%d;\n" % i) + "  T%d v = 1;\n" % (n - 1), "r + v")),
    ("decl_struct_tags", 4095, lambda n: _r(n, lambda i: "struct S%d { int x; };\n" % i) + "struct S0 a;\nstruct S%d b;\n" % (n - 1)),
    ("decl_struct_tag_forward_repeated", None, lambda n: "struct S;\n" * n + "struct S { int x; } zz;\n"),
    ("decl_union_enum_tags", 4095, lambda n: _r(n, lambda i: "union U%d { int x; };\nenum E%d { K%d };\n" % (i, i, i)) +
        "union U%d a;\nenum E%d b = K%d;\n" % (n - 1, n - 1, n - 1)),
    ("decl_local_struct_tags", 511, lambda n: _fn(_r(n, lambda i: "  struct S%d { int x; } s%d = {%d};\n" % (i, i, i)), "r + s%d.x" % (n - 1))),
    ("decl_enum_constants", 1023, lambda n: "enum E { %s };\nint zz = E0 + E%d;\n" % (_r(n, lambda i: "E%d" % i, ", "), n - 1)),
    ("decl_enum_constants_valued", 1023, lambda n: "enum E { %s };\nint zz = E%d;\n" % (_r(n, lambda i: "E%d = %d" % (i, 2 * i), ", "), n - 1)),
    ("decl_struct_members", 1023, lambda n: "struct S { %s } s;\nint f(void) { return s.m0 + s.m%d; }\n"
        % (_r(n, lambda i: "int m%d;" % i, " "), n - 1)),
    ("decl_struct_members_mixed", 1023, lambda n: "struct S { %s } s;\nint f(void) { return s.m0 + s.m%d; }\n"
        % (_r(n, lambda i: "%s m%d;" % (("char", "long", "short", "double")[i % 4], i), " "), n - 1)),
    ("decl_union_members", 1023, lambda n: "union U { %s } u;\nint f(void) { return u.m0 + u.m%d; }\n"
        % (_r(n, lambda i: "int m%d;" % i, " "), n - 1)),
    ("decl_bitfield_members", 1023, lambda n: "struct S { %s } s;\nint f(void) { s.m%d = 1; return s.m0 + s.m%d; }\n"
        % (_r(n, lambda i: "int m%d : %d;" % (i, i % 31 + 1), " "), n - 1, n - 1)),
    ("decl_struct_nested", 63, lambda n: "%sint x;%s\nint f(void) { return s%s.x; }\n"
        % ("struct { " * n, " } s;" * n, ".s" * (n - 1))),
    ("decl_anonymous_struct_nested", 63, lambda n: "struct S { %sint x;%s } s;\nint f(void) { return s.x; }\n"
        % ("struct { " * n, " };" * n)),
    ("decl_anonymous_members", 1023, lambda n: "struct S { %s } s;\nint f(void) { return s.m%d; }\n"
        % (_r(n, lambda i: "struct { int m%d; };" % i, " "), n - 1)),
    ("decl_params", 127, lambda n: "int g(%s) { return p0 + p%d; }\nint f(void) { return g(%s); }\n"
        % (_r(n, lambda i: "int p%d" % i, ", "), n - 1, _r(n, str, ", "))),
    ("decl_params_double", 127, lambda n: "double g(%s) { return p0 + p%d; }\ndouble f(void) { return g(%s); }\n"
        % (_r(n, lambda i: "double p%d" % i, ", "), n - 1, _r(n, lambda i: "%d.5" % i, ", "))),
    ("decl_params_mixed", 127, lambda n: "long g(%s) { return p0 + p%d; }\nlong f(void) { return g(%s); }\n"
        % (_r(n, lambda i: "%s p%d" % (("char", "double", "long", "float", "short", "long double")[i % 6], i), ", "), n - 1,
           _r(n, str, ", "))),
    ("decl_params_struct", 127, lambda n: "struct P { long a, b, c; };\nlong g(%s) { return p0.a + p%d.c; }\n"
        "struct P v;\nlong f(void) { return g(%s); }\n"
        % (_r(n, lambda i: "struct P p%d" % i, ", "), n - 1, _r(n, lambda i: "v", ", "))),
    ("decl_params_small_struct", 127, lambda n: "struct P { int a; float b; };\nint g(%s) { return p0.a + p%d.a; }\n"
        "struct P v;\nint f(void) { return g(%s); }\n"
        % (_r(n, lambda i: "struct P p%d" % i, ", "), n - 1, _r(n, lambda i: "v", ", "))),
    ("decl_variadic_call_args", 127, lambda n: "int g(int, ...);\nint f(void) { return g(%d, %s); }\n" % (n, _r(n, lambda i: "%d, %d.0" % (i, i), ", "))),
    ("decl_variadic_definition", 127, lambda n: "#include <stdarg.h>\nint g(int c, ...) {\n  va_list ap;\n  va_start(ap, c);\n  int r = 0;\n%s  va_end(ap);\n  return r;\n}\n"
        % _r(n, lambda i: "  r += va_arg(ap, %s);\n" % ("int", "double", "long")[i % 3])),
    ("decl_pointer_depth", 12, lambda n: "int %sp;\nint f(int %sq) { return %sq + (p != 0); }\n" % ("*" * n, "*" * n, "*" * n)),
    ("decl_array_dimensions", 12, lambda n: "int a%s;\nint f(void) { return a%s + sizeof a; }\n" % ("[1]" * n, "[0]" * n)),
    ("decl_paren_declarator", 12, lambda n: "int %s;\nint f(void) { return zz; }\n" % _nest(n, "(", "zz", ")")),
    ("decl_fnptr_nested", 12, lambda n: "int %s;\n" % _nest(n, "(*", "fp", ")(void)")),
    ("decl_abstract_declarator_nested", 12, lambda n: "int zz = sizeof(int %s);\n" % _nest(n, "(*", "", ")[2]")),
    ("decl_qualifiers_repeated", None, lambda n: "const " * n + "volatile " * n + "int zz = 1;\n"),
    ("decl_attributes_repeated", None, lambda n: "struct %s S { char a; int b; } zz;\n" % ("__attribute__((packed)) " * n)),
    ("decl_alignas_repeated", None, lambda n: "_Alignas(8) " * n + "int zz;\n"),
    ("decl_typeof_nested", 63, lambda n: "int zz;\n%s yy;\n" % _nest(n, "typeof(", "zz", ")")),
    ("decl_string_literals", 4095, lambda n: _r(n, lambda i: "char *s%d = \"str%d\";\n" % (i, i))),
    ("decl_string_literals_local", 4095, lambda n: "int g(char *);\n" + _fn(_r(n, lambda i: "  r += g(\"str%d\");\n" % i))),
    ("decl_compound_literals", 4095, lambda n: _r(n, lambda i: "int *p%d = (int[]){%d, %d};\n" % (i, i, i))),
    ("decl_compound_literals_local", 4095, lambda n: _fn(_r(n, lambda i: "  r += ((int[]){%d, x})[1];\n" % i))),
    ("decl_labels", 4095, lambda n: _fn("  goto l%d;\n" % (n - 1) + _r(n, lambda i: "l%d: r++;\n" % i))),
    ("decl_gotos", 4095, lambda n: _fn(_r(n, lambda i: "  if (x == %d) goto out;\n" % i) + "out: r++;")),
    ("decl_label_addresses", 4095, lambda n: _fn("  void *t[] = {%s};\n  goto *t[x];\n" % _r(n, lambda i: "&&l%d" % i, ", ") +
        _r(n, lambda i: "l%d: r++;\n" % i))),
    ("decl_vlas", 511, lambda n: _fn(_r(n, lambda i: "  int v%d[x + %d]; v%d[0] = %d; r += v%d[0] + sizeof v%d;\n" % (i, i + 1, i, i, i, i)))),
    ("decl_alloca_calls", None, lambda n: _fn(_r(n, lambda i: "  { char *p = alloca(x + %d); p[0] = 1; r += p[0]; }\n" % (i + 1)),
                                                pre="void *alloca(unsigned long);\n")),
    # ---- initializers --------------------------------------------------------------------------------------
    ("init_array_elements", 4095, lambda n: "int a[] = {%s};\nint b[%d] = {%s};\n" % (_r(n, str, ", "), n, _r(n, str, ", "))),
    ("init_array_designators", 4095, lambda n: "int a[%d] = {%s};\n" % (n, _r(n, lambda i: "[%d] = %d" % (n - 1 - i, i), ", "))),
    ("init_array_range", None, lambda n: "int a[%d] = {[0 ... %d] = 1};\nint f(void) { int b[%d] = {[0 ... %d] = 2}; return b[0]; }\n" % (n, n - 1, n, n - 1)),
    ("init_array_dimensions", 12, lambda n: "int a%s = %s;\n" % ("[1]" * n, _nest(n, "{", "1", "}"))),
    ("init_struct_nested_braces", 63, lambda n: "%sint x;%s } s = %s;\n" % ("struct { " * n, " } s;" * (n - 1), _nest(n, "{", "1", "}"))),
    ("init_struct_members", 1023, lambda n: "struct S { %s } s = {%s};\n" % (_r(n, lambda i: "int m%d;" % i, " "), _r(n, str, ", "))),
    ("init_struct_member_designators", 1023, lambda n: "struct S { %s } s = {%s};\n"
        % (_r(n, lambda i: "int m%d;" % i, " "), _r(n, lambda i: ".m%d = %d" % (n - 1 - i, i), ", "))),
    ("init_string_array", 4095, lambda n: "char s[%d] = \"%s\";\nchar t[%d] = \"%s\";\n" % (n + 1, "a" * n, n, "a" * n)),
    ("init_local_array_zero_fill", None, lambda n: _fn("  int a[%d] = {1};\n  struct { char c[%d]; } s = {{2}};\n  r = a[x] + s.c[x];" % (n, n))),
    ("init_local_array_elements", 4095, lambda n: _fn("  int a[] = {%s};\n  r = a[x];" % _r(n, lambda i: "x + %d" % i, ", "))),
    ("init_local_struct_members", 1023, lambda n: _fn("  struct { %s } s = {%s};\n  r = s.m%d;"
        % (_r(n, lambda i: "int m%d;" % i, " "), _r(n, lambda i: "x + %d" % i, ", "), n - 1))),
    ("init_global_pointer_relocs", 4095, lambda n: "int g[%d];\nint *p[] = {%s};\n" % (n, _r(n, lambda i: "&g[%d]" % i, ", "))),
    # ---- statements -------------------------------------------------------------------------------------------
    ("stmt_blocks_nested", 127, lambda n: _fn("  " + _nest(n, "{ ", "r = x;", " }"))),
    ("stmt_blocks_nested_shadowing", 127, lambda n: _fn("  " + _r(n, lambda i: "{ int x%d = r + %d; int x = x%d; " % (i, i, i)) + "r = x;" + " }" * n)),
    ("stmt_blocks_sibling", None, lambda n: _fn(_r(n, lambda i: "  { int a = %d; r += a; }\n" % i))),
    ("stmt_statements", None, lambda n: _fn("  r += x;\n" * n)),
    ("stmt_null_statements", None, lambda n: _fn("  " + ";" * n)),
    ("stmt_if_nested", 127, lambda n: _fn("  " + _r(n, lambda i: "if (x > %d) { " % i) + "r = 1;" + " }" * n)),
    ("stmt_if_else_nested", 127, lambda n: _fn("  " + _r(n, lambda i: "if (x > %d) " % i) + "r = 1;" + " else r++;" * n)),
    ("stmt_else_if_chain", None, lambda n: _fn("  if (x == -1) r = 0;\n" + _r(n, lambda i: "  else if (x == %d) r = %d;\n" % (i, i)))),
    ("stmt_for_nested", 127, lambda n: _fn("  " + _r(n, lambda i: "for (int i%d = 0; i%d < x; i%d++) { if (i%d == 3) break; if (i%d == 2) continue; " % ((i,) * 5)) +
        "r++;" + " }" * n)),
    ("stmt_while_nested", 127, lambda n: _fn("  " + "while (x--) { if (r) break; " * n + "r++;" + " }" * n)),
    ("stmt_do_nested", 127, lambda n: _fn("  " + "do { if (r) continue; " * n + "r++;" + " } while (x--);" * n)),
    ("stmt_loops_sibling", None, lambda n: _fn(_r(n, lambda i: "  for (int i = 0; i < %d; i++) { if (i == x) break; r++; }\n" % i))),
    ("stmt_switch_nested", 127, lambda n: _fn("  " + _r(n, lambda i: "switch (x + %d) { case %d: r++; break; default: " % (i, i)) + "r = 1;" + " }" * n)),
    ("stmt_switch_sibling", None, lambda n: _fn(_r(n, lambda i: "  switch (x) { case %d: r += %d; break; default: r--; }\n" % (i, i)))),
    ("stmt_case_labels", 1023, lambda n: _fn("  switch (x) {\n" + _r(n, lambda i: "  case %d: r += %d; break;\n" % (i, i)) + "  default: r = -1;\n  }")),
    ("stmt_case_labels_stacked", 1023, lambda n: _fn("  switch (x) {\n  " + _r(n, lambda i: "case %d: " % (3 * i)) + "r = 1; break;\n  }")),
    ("stmt_case_ranges", 1023, lambda n: _fn("  switch (x) {\n" + _r(n, lambda i: "  case %d ... %d: r += %d; break;\n" % (4 * i, 4 * i + 2, i)) + "  }")),
    ("stmt_case_labels_unsigned_long", 1023, lambda n: "int f(unsigned long x) {\n  int r = 0;\n  switch (x) {\n" +
        _r(n, lambda i: "  case %dUL: r += %d; break;\n" % (4294967296 * i + i, i)) + "  }\n  return r;\n}\n"),
    ("stmt_returns", None, lambda n: _fn(_r(n, lambda i: "  if (x == %d) return %d;\n" % (i, i)))),
    ("stmt_expression_statements_nested", 63, lambda n: _fn("  r = " + "({ " * n + "x;" + " });" * n)),
    ("stmt_asm_statements", None, lambda n: _fn("  asm(\"nop\");\n" * n)),
    # ---- expressions: nesting and pending-operand depth -------------------------------------------------------
    ("expr_parens", 63, lambda n: _fn("  r = " + _nest(n, "(", "x", ")") + ";")),
    ("expr_parens_global_initializer", 63, lambda n: "int zz = " + _nest(n, "(", "1", ")") + ";\n"),
    ("expr_left_chain_add", None, lambda n: _fn("  r = x" + " + x" * n + ";")),
    ("expr_left_chain_mixed", None, lambda n: _fn("  r = x" + _r(n, lambda i: " %s (x | 1)" % ("+", "-", "*", "/", "%", "&", "|", "^", "<<", ">>", "<", "==", "!=", ">=")[i % 14]) + ";")),
    ("expr_right_nested_add", 63, lambda n: _fn("  r = " + "x + (" * n + "x" + ")" * n + ";")),
    ("expr_right_nested_sub_calls", 63, lambda n: "int g(int);\n" + _fn("  r = " + "g(x) - (" * n + "x" + ")" * n + ";")),
    ("expr_left_nested_add", 63, lambda n: _fn("  r = " + "(" * n + "x" + " + x)" * n + ";")),
    ("expr_constant_chain_global", None, lambda n: "int zz = 1" + " + 1" * n + ";\nlong yy = 1" + " * 1L" * n + ";\n"),
    ("expr_constant_right_nested_global", 63, lambda n: "int zz = " + "1 + (" * n + "1" + ")" * n + ";\n"),
    ("expr_logand_chain", None, lambda n: _fn("  r = x" + _r(n, lambda i: " && x != %d" % i) + ";")),
    ("expr_logor_chain", None, lambda n: _fn("  r = x" + _r(n, lambda i: " || x == %d" % i) + ";")),
    ("expr_comma_chain", None, lambda n: _fn("  r = (x" + ", x + 1" * n + ");")),
    ("expr_assign_chain", None, lambda n: _fn("  int a = 0;\n  " + "a = r = " * n + "x;")),
    ("expr_compound_assign_chain", None, lambda n: _fn("  " + "r += " * n + "x;")),
    ("expr_cond_chain", None, lambda n: _fn("  r = " + _r(n, lambda i: "x == %d ? %d : " % (i, i)) + "-1;")),
    ("expr_cond_nested_middle", 63, lambda n: _fn("  r = " + "x ? " * n + "1" + " : 2" * n + ";")),
    ("expr_unary_not", None, lambda n: _fn("  r = " + "!" * n + "x;")),
    ("expr_unary_bitnot_neg", None, lambda n: _fn("  r = " + "~-" * n + "x;")),
    ("expr_unary_deref_addr", None, lambda n: _fn("  r = " + "*&" * n + "x;")),
    ("expr_deref_chain", 12, lambda n: "int f(int %sp) { return %sp; }\n" % ("*" * n, "*" * n)),
    ("expr_cast_chain", None, lambda n: _fn("  r = " + _r(n, lambda i: "(%s)" % ("long", "char", "unsigned", "double", "short", "float", "_Bool", "long double")[i % 8]) + "x;")),
    ("expr_sizeof_nested", 63, lambda n: _fn("  r = " + "sizeof(" * n + "x" + ")" * n + ";")),
    ("expr_preinc_sequence", None, lambda n: _fn("  r = " + _r(n, lambda i: "++x", " + ") + " + x--;")),
    ("expr_call_nested", 63, lambda n: "int g(int);\n" + _fn("  r = " + _nest(n, "g(", "x", ")") + ";")),
    ("expr_call_nested_pending_args", 63, lambda n: "int g(int, int, int);\n" + _fn("  r = " + "g(x, 1, " * n + "x" + ")" * n + ";")),
    ("expr_call_nested_first_arg", 63, lambda n: "int g(int, int);\n" + _fn("  r = " + "g(" * n + "x" + ", 1)" * n + ";")),
    ("expr_call_nested_double", 63, lambda n: "double g(double, double);\n" + _fn("  r = " + "g(1.5, " * n + "x" + ")" * n + ";")),
    ("expr_call_nested_struct", 63, lambda n: "struct P { long a, b, c; };\nstruct P g(struct P);\nstruct P v;\n" + _fn("  r = " + _nest(n, "g(", "v", ")") + ".a;")),
    ("expr_call_sequence", None, lambda n: "int g(int);\n" + _fn("  r = 0" + _r(n, lambda i: " + g(%d)" % i) + ";")),
    ("expr_call_many_stack_args", 127, lambda n: "int g(%s);\n" % _r(n + 6, lambda i: "int", ", ") + _fn("  r = g(%s);" % _r(n + 6, lambda i: "x + %d" % i, ", "))),
    ("expr_subscript_nested", 63, lambda n: "int a[2];\n" + _fn("  r = " + "a[" * n + "x" + "]" * n + ";")),
    ("expr_subscript_chain", 12, lambda n: "int a%s;\n" % ("[2]" * n) + _fn("  r = a" + "[x]" * n + ";")),
    ("expr_member_chain", 63, lambda n: "%sint x;%s\n" % ("struct { " * n, " } s;" * n) + _fn("  r = s" + ".s" * (n - 1) + ".x;")),
    ("expr_arrow_chain", None, lambda n: "struct L { struct L *next; int v; } *h;\n" + _fn("  r = h" + "->next" * n + "->v;")),
    ("expr_pointer_arith_chain", None, lambda n: "int *p;\n" + _fn("  r = *(p" + _r(n, lambda i: " + %d" % i) + " - x);")),
    ("expr_float_constants", None, lambda n: "double f(double x) { return x" + _r(n, lambda i: " + %d.25" % i) + "; }\n"),
    ("expr_float_single_constants", None, lambda n: "float f(float x) { return x" + _r(n, lambda i: " * %d.5f" % (i + 1)) + "; }\n"),
    ("expr_long_double_chain", None, lambda n: "long double f(long double x) { return x" + _r(n, lambda i: " + %d.5L" % i) + "; }\n"),
    ("expr_float_right_nested", 63, lambda n: "double f(double x) { return " + "x * (" * n + "x" + ")" * n + "; }\n"),
    ("expr_long_double_right_nested", 63, lambda n: "long double f(long double x) { return " + "x - (" * n + "x" + ")" * n + "; }\n"),
    ("expr_generic_nested", 63, lambda n: _fn("  r = " + "_Generic(" * n + "x" + ", int: x, default: 0)" * n + ";")),
    ("expr_generic_associations", None, lambda n: "%s\n" % _r(n, lambda i: "struct G%d { int x; };" % i, " ") +
        _fn("  r = _Generic(x, %s, int: 1);" % _r(n, lambda i: "struct G%d: 0" % i, ", "))),
    ("expr_compound_literal_nested", 63, lambda n: _fn("  r = " + "(int){" * n + "x" + "}" * n + ";")),
    ("expr_bitfield_ops", None, lambda n: "struct B { int a : 5; unsigned b : 27; long c : 40; } s;\n" +
        _fn(_r(n, lambda i: "  s.%s %s x;\n" % ("abc"[i % 3], ("+=", "=", "<<=", "|=", "-=")[i % 5])) + "  r = s.a++ + --s.b;")),
    ("expr_atomic_ops", None, lambda n: "_Atomic int a;\n" + _fn(_r(n, lambda i: "  a %s x;\n" % ("+=", "-=", "*=", "|=")[i % 4]) + "  r = a++;")),
    ("expr_struct_assign_sequence", None, lambda n: "struct P { char c[%d]; } a, b;\n" % n + _fn("  a = b;\n  b = a;\n  r = a.c[x];")),
    ("expr_struct_sizes_pass_return", None, lambda n: "struct P { char c[%d]; };\nstruct P g(struct P);\nstruct P h(struct P p) { p.c[0]++; return p; }\n" % n +
        _fn("  struct P v = {{1}};\n  r = g(h(v)).c[0];")),
]

# two-phase families: n1 repetitions of a deleting/aging phase, then n2 repetitions of an inserting phase, then uses
REP2_FAMILIES = [
    ("pp_churn_same_name", None, lambda a, b: _r(a, lambda i: "#define X %d\nint a%d = X;\n#undef X\n" % (i, i)) +
        _r(b, lambda i: "#define N%d %d\n" % (i, i)) + "int zz, yy;\nint f(void) { return zz + yy + N0 + N%d; }\n" % (b - 1)),
    ("pp_churn_distinct_names", None, lambda a, b: _r(a, lambda i: "#define X%d %d\nint a%d = X%d;\n#undef X%d\n" % (i, i, i, i, i)) +
        _r(b, lambda i: "#define N%d %d\n" % (i, i)) + "int zz, yy;\nint f(void) { return zz + yy + N0 + N%d; }\n" % (b - 1)),
    ("pp_define_all_undef_all_define", None, lambda a, b: _r(a, lambda i: "#define X%d %d\n" % (i, i)) + _r(a, lambda i: "#undef X%d\n" % i) +
        _r(b, lambda i: "#define N%d %d\n" % (i, i)) + "int zz, yy;\nint f(void) { return zz + yy + N0 + N%d; }\n" % (b - 1)),
    ("pp_churn_redefine_after_undef", None, lambda a, b: _r(a, lambda i: "#define X%d %d\n#undef X%d\n" % (i, i, i)) +
        _r(b, lambda i: "#define X%d %d\n" % (i % a, i)) + "int zz = X0;\n"),
    ("scope_churn_blocks_then_locals", None, lambda a, b: "int f(int x) {\n  int r = 0;\n" + _r(a, lambda i: "  { int t%d = %d; r += t%d; }\n" % (i, i, i)) +
        _r(b, lambda i: "  int v%d = %d;\n" % (i, i)) + "  return r + v0 + v%d;\n}\n" % (b - 1)),
    ("include_guarded_then_defines", None, lambda a, b: "#include \"c13_inc.h\"\n" * a + _r(b, lambda i: "#define N%d %d\n" % (i, i)) +
        "int zz = INC_VAL + N%d;\n" % (b - 1)),
]


# ---------------------------------------------------------------------------------------------------------
# GRID dimension: construct families that are enumerated as a full product of stated alphabets.  Every family is a
# function tier -> [(case id, unit text, options, expectation)]; expectation "valid": the unit is a valid program of the
# supported language (a rejection is reported when gcc accepts the unit too - two oracles); "any": the unit may be
# invalid or outside the supported language (a located diagnostic is a correct answer); crash / internal error / hang /
# memory exhaustion / missing location / assembler rejection are judged for all of them.
#   call_shapes      parameter/argument lists  int^i double^d tail : (i, d) in CALL_PREFIX[tier] - every number of used
#                    general-purpose (0..6, and beyond) and SSE (0..8, and beyond) argument registers - followed by every
#                    tail of at most CALL_TAIL_MAX[tier] types over CALL_TYPES (int, double, long double, structs of
#                    1/8/16/24/40 bytes of every register class, structs holding a long double with and without a
#                    trailing member), so that every argument class meets every register-exhaustion position and every
#                    parity of 8-byte stack words in front of a 16-byte aligned stack argument; return types CALL_RET
#                    (a memory-class return consumes one more register).  Each unit holds the callee's definition, a call
#                    and a call of a variadic function with the same argument list.  Lengths 0..19.
#   pp_selfref       macros whose name reappears while they are being replaced: object-like / function-like, directly /
#                    through chains of 2, 3, 4, 8 macros, spelled out / as the result of ## / as operand of #, as a
#                    declarator, inside expressions, in #if / #elif, from -D
#   pp_skipped_expr  SKIP_CONTEXTS (every position in which a controlling expression is not evaluated: #elif after a
#                    taken #if / #ifdef / #ifndef / #elif group, repeated, nested #if / #elif / #ifdef inside skipped groups
#                    of every kind) x SKIP_EXPRS (expressions that cannot be evaluated: division by zero, empty,
#                    unbalanced, unknown function-like feature tests, strings, floating constants, stray punctuators,
#                    overflowing constants, unterminated macro invocations ...)
#   atomic_ops       ATOMIC_TYPES (scalar, pointer, struct and union types of sizes 1, 2, 3, 4, 5, 8, 12, 16, 24, incl.
#                    _Bool, floating types, long double) x ATOMIC_PLACES (global, _Atomic(T), local, through a pointer,
#                    member, element, not atomic-qualified) x operations (every compound assignment, ++/-- prefix and
#                    postfix, load/store, value of an assignment, __builtin_compare_and_swap,
#                    __builtin_atomic_exchange used and unused, the <stdatomic.h> macros)

# ---- call shapes ---------------------------------------------------------------------------------------------
# (code, declaration needed, C type, initializer of a local of that type, expression reading a parameter p as long)
CALL_TYPES = [
    ("i", "", "int", "1", "p"),
    ("d", "", "double", "1.5", "(long)p"),
    ("x", "", "long double", "2.5L", "(long)p"),
    ("c1", "struct C1 { char c; };", "struct C1", "{1}", "p.c"),
    ("s8", "struct S8 { int a; float b; };", "struct S8", "{1, 2}", "p.a + (long)p.b"),
    ("s16", "struct S16 { long a, b; };", "struct S16", "{1, 2}", "p.a + p.b"),
    ("m16", "struct M16 { long a; double b; };", "struct M16", "{1, 2}", "p.a + (long)p.b"),
    ("d16", "struct D16 { double a, b; };", "struct D16", "{1, 2}", "(long)(p.a + p.b)"),
    ("s24", "struct S24 { long a, b, c; };", "struct S24", "{1, 2, 3}", "p.a + p.c"),
    ("s40", "struct S40 { long a[5]; };", "struct S40", "{{1, 2, 3, 4, 5}}", "p.a[0] + p.a[4]"),
    ("sx", "struct SX { long double v; };", "struct SX", "{3}", "(long)p.v"),
    ("sxi", "struct SXI { long double v; int i; };", "struct SXI", "{3, 4}", "(long)p.v + p.i"),
]
CALL_TYPE = dict((t[0], t) for t in CALL_TYPES)
CALL_RET = {"quick": ["i"], "thorough": ["i", "x", "m16", "s24"]}    # + "s24" for one-element tails in quick
CALL_PREFIX = {"quick": [(i, d) for i in (0, 4, 5, 6, 7) for d in (0, 7, 8, 9)],
               "thorough": [(i, d) for i in range(9) for d in range(11)]}
CALL_TAIL_MAX = {"quick": 2, "thorough": 2}
CALL_PREFIX3 = [(i, d) for i in (0, 5, 6, 7) for d in (0, 7, 8, 9)]     # thorough: tails of 3 types after these prefixes


def call_unit(ret, types):
    """one callee definition, one caller and one variadic call with the parameter/argument type list `types`"""
    used = []
    for c in [ret] + list(types):
        if CALL_TYPE[c][1] and CALL_TYPE[c][1] not in used:
            used.append(CALL_TYPE[c][1])
    rt = CALL_TYPE[ret]
    params = ", ".join("%s p%d" % (CALL_TYPE[c][2], k) for k, c in enumerate(types)) or "void"
    reads = "".join("  r += %s;\n" % CALL_TYPE[c][4].replace("p", "p%d" % k) for k, c in enumerate(types))
    locs = "".join("  %s a%d = %s;\n" % (CALL_TYPE[c][2], k, CALL_TYPE[c][3]) for k, c in enumerate(types))
    args = ", ".join("a%d" % k for k in range(len(types)))
    if ret == "i":
        retn, use = "  return r;\n", "callee(%s)" % args
    else:
        retn = "  %s v = %s;\n  return v;\n" % (rt[2], rt[3])
        use = rt[4].replace("p", "callee(%s)" % args) if rt[1] else "(long)callee(%s)" % args
    return ("%s\n%s callee(%s) {\n  long r = 0;\n%s%s}\nlong vf(int n, ...);\nlong caller(void) {\n%s  long r = %s;\n"
            "  return r + vf(%s);\n}\n"
            % ("\n".join(used), rt[2], params, reads, retn, locs, use, ", ".join([str(len(types))] + ["a%d" % k for k in range(len(types))])))


def _tails(n):
    codes = [t[0] for t in CALL_TYPES]
    out = [()]
    for _ in range(n):
        out = [o + (c,) for o in out for c in codes]
    return out


def grid_call_shapes(tier):
    cases, seen = [], set()

    def add(ret, i, d, tail):
        cid = "%s_i%dd%d_%s" % (ret, i, d, "-".join(tail) or "none")
        if cid not in seen:
            seen.add(cid)
            cases.append((cid, call_unit(ret, ("i",) * i + ("d",) * d + tail), [], "valid"))
    for i, d in CALL_PREFIX[tier]:
        for n in range(CALL_TAIL_MAX[tier] + 1):
            for tail in _tails(n):
                for ret in CALL_RET[tier]:
                    if n <= 1 or ret == "i" or tier == "thorough" and ret == "s24":
                        add(ret, i, d, tail)
                if n <= 1:
                    add("s24", i, d, tail)
    if tier == "thorough":
        for i, d in CALL_PREFIX3:
            for tail in _tails(3):
                add("i", i, d, tail)
    return cases


# ---- preprocessor: macro names that reappear in their own replacement (directly, through ## results, as # operands) --
def grid_pp_selfref(tier):
    cases = []

    def add(cid, text, expect="valid", opts=()):
        cases.append((cid, text, list(opts), expect))
    # object-like, direct: the replacement list spells the macro's own name (as written, or as the result of ##)
    #   ... where the result is the name alone, the macro is defined first and the name is then declared and used
    for k, body in enumerate(["foo", "fo ## o", "f ## o ## o", "f ## oo", "foo ## foo", "fo ## o ## fo ## o"]):
        name = "foofoo" if k >= 4 else "foo"
        add("obj_direct_name%d" % k, "#define foo %s\nint foo = 3;\nint g(void) { return sizeof(%s) + foo; }\n" % (body, name))
    #   ... where it is part of an expression, the object is declared before the macro is defined
    for k, body in enumerate(["(foo)", "(fo ## o)", "fo ## o + fo ## o", "- fo ## o", "fo ## o + 1", "1 + fo ## o",
                              "(foo + fo ## o)", "f ## o ## o * f ## oo"]):
        add("obj_direct_expr%d" % k, "int foo;\n#define foo %s\nint g(void) { return foo != 0; }\n" % body)
    # object-like, indirect chains of length n whose last link spells / pastes the first name (and the second one)
    names = ("x1", "y2", "z3", "w4", "v5", "u6", "t7", "s8")
    for n in (2, 3, 4, 8):
        defs = "".join("#define %s %s\n" % (names[j], names[j + 1]) for j in range(n - 1))
        for k, last in enumerate(["x1", "x ## 1", "(x ## 1)", "x ## 1 + y ## 2", "x ## 1 + x1 + y2"]):
            if k < 2:
                add("obj_chain%d_%d" % (n, k), defs + "#define %s %s\nint x1 = 5;\nint g(void) { return x1; }\n" % (names[n - 1], last))
            else:
                add("obj_chain%d_%d" % (n, k), "int x1 = 5, y2 = 6;\n" + defs + "#define %s %s\nint g(void) { return x1; }\n" % (names[n - 1], last))
    add("obj_chain_defined_in_reverse", "#define y1 x ## 1\n#define x1 y1\nint x1 = 5;\n")
    add("obj_mutual", "#define x1 y ## 1\n#define y1 x ## 1\nint x1 = 5, y1 = 6;\n")
    # the use inside #if / #elif (identifiers that remain become 0)
    add("obj_direct_in_if", "#define foo fo ## o\n#if foo\n#error foo\n#endif\nint zz;\n")
    add("obj_chain_in_if", "#define x1 y1\n#define y1 x ## 1\n#if x1 || y1\n#error x1\n#endif\nint zz;\n")
    add("obj_direct_in_elif", "#define foo fo ## o\n#if 0\n#elif foo\n#error foo\n#endif\nint zz;\n")
    add("obj_direct_in_include", "#define c13_inc c13_ ## inc\n#define H <c13_inc.h>\n#include H\nint zz = INC_VAL;\n", "any")
    # function-like, direct
    for k, (params, body, decl) in enumerate([
            ("a", "fx(a)", "int fx(int);"), ("a", "f ## x(a)", "int fx(int);"), ("a", "a ## fx(a)", "int fx();"),
            ("a", "fx ## a(int)", "int fx();"), ("a, b", "a ## b(int)", "int fx(f, x);"),
            ("...", "f ## x(__VA_ARGS__)", "int fx(int, int);"), ("a", "fx", "int fx(0) = 1;"), ("a", "f ## x", "int fx(0) = 1;")]):
        add("fn_direct_name%d" % k, "#define fx(%s) %s\n%s\n" % (params, body, decl))
    for k, (params, body, use) in enumerate([
            ("a", "f ## x (a) + f ## x (a)", "fx(1)"), ("a", "(fx)(a)", "fx(1)"), ("a", "(f ## x)(a)", "fx(2)"),
            ("a", "a(1) + a ## x(2)", "fx(f)"), ("a", "(a)", "fx(fx(fx(1)))"), ("a", "f ## x(f ## x(a))", "fx(fx(1))"),
            ("a, b", "a ## b(b ## a(1))", "fx(f, x)")]):
        add("fn_direct_expr%d" % k, "int f(int), fx(int), xf(int);\n#define fx(%s) %s\nint g(void) { return %s; }\n" % (params, body, use))
    # function-like, indirect; an object-like macro reappearing through a function-like one and the reverse
    add("fn_chain2", "#define a1(x) b1(x)\n#define b1(x) a ## 1(x)\nint a1(int);\n")
    add("fn_chain3", "int a1(int), b1(int);\n#define a1(x) b1(x)\n#define b1(x) c1(x)\n#define c1(x) a ## 1(x) + b ## 1(x)\n"
        "int g(void) { return a1(1); }\n")
    add("fn_chain_arg", "#define a1(x) x\n#define b1 a ## 1(b ## 1)\nint b1 = 2;\n")
    add("obj_via_fn", "#define obj fn(ob, j)\n#define fn(a, b) a ## b\nint obj = 1;\n")
    add("obj_via_fn_arg", "int obj = 1;\n#define obj id(obj) + id(ob ## j)\n#define id(a) a\nint g(void) { return obj; }\n")
    add("fn_via_obj", "#define fn(a) obj(a)\n#define obj f ## n\nint fn(int);\n")
    add("fn_self_without_parens", "#define fx(a) f ## x\nint g(void) { int fx = 1; return fx; }\n")
    # the operand and the result of #
    add("str_self", "#define str(x) #x\nchar *s = str(str(1));\n")
    add("str_self_indirect", "#define str(x) #x\n#define xstr(x) str(x)\n#define foo xstr(foo)\nchar *s = foo;\n")
    add("str_of_paste", "#define foo str(fo ## o)\n#define str(x) #x\nchar *s = foo;\n")
    add("str_paste_self", "char *sfoo(char *);\n#define sfoo(x) s ## foo(#x)\nchar *g(void) { return sfoo(sfoo(1)); }\n")
    add("str_empty_paste", "#define e(x) x ## x\n#define foo e() foo e()\nint foo = 1;\n")
    add("str_va_self", "int v(char *);\n#define v(...) v ## __VA_ARGS__ (#__VA_ARGS__)\nint g(void) { return v(); }\n", "any")
    # undefined and redefined in between; from the command line; invalid uses must be diagnosed, not looped on
    add("undef_between", "#define foo fo ## o\nint foo = 1;\n#undef foo\n#define foo b ## ar\nint foo = 2;\n")
    add("cmdline_self", "int foo = 1, bar = 2;\nint g(void) { return foo + bar; }\n", "valid", ["-Dfoo=fo##o", "-Dbar=ba##r", "-DF(x)=F##x"])
    add("invalid_undeclared", "#define foo fo ## o\nint x = foo;\n", "any")
    add("invalid_chain_undeclared", "#define x1 y1\n#define y1 x ## 1\nint g(void) { return x1; }\n", "any")
    add("invalid_paste_result", "#define foo fo ## o ## +\nint foo;\n", "any")
    add("invalid_fn_unterminated", "#define fx(a) f ## x(a\nint fx(1);\n", "any")
    add("invalid_fn_undeclared", "#define fx(a) f ## x(a) + x ## f(a)\nint g(void) { return fx(1); }\n", "any")
    return cases


# ---- preprocessor: controlling expressions in positions where they are not evaluated ------------------------------
SKIP_EXPRS = ["1/0", "1%0", "100/N", "(1/0)", "0 && 1/0", "", "(", ")", "(1", "1)", "1 +", "+", "-", "!", "~", "* 2", "1 2", "a b", "1 ? 2", "1 :",
              "? :", "F(1)", "F(1, 5) >= 2", "F(", "__has_include(<c13_none.h>)", "__has_include(\"c13_none.h\")", "__has_include(",
              "__has_feature(x)", "__has_attribute(packed)", "defined", "defined(", "defined(N", "defined()", "defined(1)", "defined N N",
              "\"s\"", "\"s\" == \"s\"", "1.0", "1.5 > 1", "0x", "1e", "08", "1u2", "18446744073709551616", "99999999999999999999999 > 1",
              "= 1", "1 = 1", "N++", "N = 2", "sizeof(int)", "(int)1", "1, 2", ",", ";", "{", "}", "[0]", "@", "$", "`", "#", "##", "1 ## 2",
              "__VA_ARGS__", "M(", "M(1", "M()", "M(1)(", "<stdio.h>", "include <stdio.h>", "1 // 2", "1 /* 2 */ 3", "0x7fffffffffffffff + 1",
              "1 << 100", "-9223372036854775807 - 2", "'ab'", "L'\\400'", "u8'a'", "1 \\ 2", "if", "else", "endif", "elif 1", "defined defined"]
SKIP_EXPRS_QUICK = ["1/0", "100/N", "", "(", ")", "1 +", "F(1)", "__has_include(<c13_none.h>)", "__has_feature(x)", "defined", "defined(",
                    "\"s\"", "1.0", "0x", "1 2", "= 1", "@", "#", "M(", "18446744073709551616", "'ab'", "1 ? 2", ",", "sizeof(int)"]
# %s = the expression; every context defines `int zz;` exactly once, so the unit is a valid program whatever the expression is
SKIP_CONTEXTS = [
    ("elif_after_if1", "#if 1\nint zz;\n#elif %s\nint zz = ;\n#endif\n"),
    ("elif_after_if_expr", "#if N == 0 && defined(N)\nint zz;\n#elif %s\n#else\n#error else\n#endif\n"),
    ("elif_after_ifdef", "#ifdef N\nint zz;\n#elif %s\n#endif\n"),
    ("elif_after_ifndef", "#ifndef U\nint zz;\n#elif %s\n#else\n#endif\n"),
    ("elif_after_taken_elif", "#if 0\n#elif 1\nint zz;\n#elif %s\n#endif\n"),
    ("elif_twice_after_taken", "#if 1\nint zz;\n#elif %s\n#elif %s\n#else\n#endif\n"),
    ("elif_after_ifdef_elif", "#ifdef U\n#elif !defined(U)\nint zz;\n#elif %s\n#else\n#endif\n"),
    ("elif_after_empty_taken_group", "#if 1\n#elif %s\n#endif\nint zz;\n"),
    ("if_in_skipped_if0", "#if 0\n#if %s\n#endif\n#endif\nint zz;\n"),
    ("elif_in_skipped_if0", "#if 0\n#if 1\n#elif %s\n#else\n#endif\n#endif\nint zz;\n"),
    ("if_in_skipped_else", "#if 1\nint zz;\n#else\n#if %s\n#elif %s\n#endif\n#endif\n"),
    ("if_in_skipped_elif_group", "#if 1\nint zz;\n#elif 0\n#if %s\n#endif\n#endif\n"),
    ("if_in_skipped_ifdef", "#ifdef U\n#if %s\n#else\n#endif\n#endif\nint zz;\n"),
    ("if_in_untaken_then_taken_else", "#if 0\n#if %s\n#endif\n#else\nint zz;\n#endif\n"),
    ("if_in_skipped_after_taken", "#if 1\nint zz;\n#elif 1\n#if %s\n#elif %s\n#endif\n#endif\n"),
    ("ifdef_in_skipped", "#if 0\n#ifdef %s\n#endif\n#ifndef %s\n#endif\n#endif\nint zz;\n"),
    ("if_deep_in_skipped", "#if 0\n#if 0\n#if %s\n#endif\n#elif %s\n#endif\n#endif\nint zz;\n"),
    ("elif_in_function_body", "int f(void) {\n#if 1\n  return 1;\n#elif %s\n  return 2;\n#endif\n}\nint zz;\n"),
    ("elif_in_included_file", "#define C13_SKIP_EXPR %s\n#if 1\nint zz;\n#elif C13_SKIP_EXPR\n#endif\n"),
]


def grid_pp_skipped_expr(tier):
    exprs = SKIP_EXPRS_QUICK if tier == "quick" else SKIP_EXPRS
    cases = []
    for cname, ctx_ in SKIP_CONTEXTS:
        for k, e in enumerate(exprs):
            if cname == "elif_in_included_file" and ("#" in e or e.lstrip().startswith("(") or "//" in e or "/*" in e):
                continue      # a replacement list starting with ( would define a function-like macro ...
            body = ctx_.replace("%s", e)
            cases.append(("%s_e%d" % (cname, SKIP_EXPRS.index(e)), "#define N 0\n#define M(x) x\n" + body, [], "valid"))
    return cases


# ---- atomic operations over object types of every size ---------------------------------------------------------
# (code, declarations, type, size, class) class: i integer, b _Bool, f floating, p pointer, s struct/union
ATOMIC_TYPES = [
    ("bool", "", "_Bool", 1, "b"), ("char", "", "char", 1, "i"), ("uchar", "", "unsigned char", 1, "i"), ("short", "", "short", 2, "i"),
    ("int", "", "int", 4, "i"), ("uint", "", "unsigned", 4, "i"), ("long", "", "long", 8, "i"), ("enum", "enum E { E0, E1 };", "enum E", 4, "i"),
    ("float", "", "float", 4, "f"), ("double", "", "double", 8, "f"), ("ldouble", "", "long double", 16, "f"),
    ("ptr", "", "int *", 8, "p"), ("fnptr", "typedef int (*FP)(void);", "FP", 8, "p"),
    ("s1", "struct A1 { char c; };", "struct A1", 1, "s"), ("s2", "struct A2 { char c[2]; };", "struct A2", 2, "s"),
    ("s3", "struct A3 { char c[3]; };", "struct A3", 3, "s"), ("s4", "struct A4 { int a; };", "struct A4", 4, "s"),
    ("s5", "struct A5 { char c[5]; };", "struct A5", 5, "s"), ("s8", "struct A8 { int a; float b; };", "struct A8", 8, "s"),
    ("s12", "struct A12 { int a[3]; };", "struct A12", 12, "s"), ("s16", "struct A16 { long a, b; };", "struct A16", 16, "s"),
    ("sld", "struct ALD { long double v; };", "struct ALD", 16, "s"), ("s24", "struct A24 { long a[3]; };", "struct A24", 24, "s"),
    ("u8", "union AU { int a; double d; };", "union AU", 8, "s"), ("arr", "", "ARR", 8, "a"),
]
ATOMIC_COMPOUND = ["+=", "-=", "*=", "/=", "%=", "&=", "|=", "^=", "<<=", ">>="]
# how the object is declared / reached
ATOMIC_PLACES = [
    ("global", "_Atomic %(T)s a;", "", "a"),
    ("global_paren", "_Atomic(%(T)s) a;", "", "a"),
    ("local", "", "  _Atomic %(T)s a = z;\n", "a"),
    ("pointer", "_Atomic %(T)s *q;", "", "(*q)"),
    ("member", "struct W { char pad; _Atomic %(T)s m; } w;", "", "w.m"),
    ("element", "_Atomic %(T)s v[3];", "", "v[k]"),
    ("plain", "%(T)s a;", "", "a"),             # not atomic-qualified: the builtins / macros still apply
]


def grid_atomic_ops(tier):
    cases = []
    places = ATOMIC_PLACES if tier == "thorough" else [p for p in ATOMIC_PLACES if p[0] in ("global", "local", "pointer", "plain")]
    for code, decl, T, size, cls in ATOMIC_TYPES:
        if cls == "a":
            continue
        for pname, gdecl, ldecl, lv in places:
            ops = []
            atomic = pname != "plain"
            if atomic:
                ops += [("asg" + str(k), "%s %s y;" % (lv, op)) for k, op in enumerate(ATOMIC_COMPOUND)]
                ops += [("preinc", "++%s;" % lv), ("predec", "--%s;" % lv), ("postinc", "r = %s++ != 0;" % lv if cls != "s" else "%s++;" % lv),
                        ("postdec", "%s--;" % lv), ("load_store", "%s = y; z = %s;" % (lv, lv)),
                        ("asg_value", "z = (%s += y);" % lv if cls != "s" else "z = (%s = y);" % lv)]
            ops += [("cas", "r = __builtin_compare_and_swap(&%s, &z, y);" % lv),
                    ("exch", "z = __builtin_atomic_exchange(&%s, y);" % lv),
                    ("exch_unused", "__builtin_atomic_exchange(&%s, y);" % lv)]
            if pname in ("global", "plain", "pointer"):
                ops += [("std_fetch_add", "z = atomic_fetch_add(&%s, y);" % lv), ("std_fetch_and", "z = atomic_fetch_and(&%s, y);" % lv),
                        ("std_exchange", "z = atomic_exchange(&%s, y);" % lv),
                        ("std_cas_strong", "r = atomic_compare_exchange_strong(&%s, &z, y);" % lv),
                        ("std_load_store", "atomic_store(&%s, y); z = atomic_load(&%s);" % (lv, lv)),
                        ("std_init", "atomic_init(&%s, y);" % lv)]
            for oname, stmt in ops:
                std = oname.startswith("std_")
                if std and not atomic and tier == "quick":
                    continue
                # which units lie in the supported language: scalar objects of 1, 2, 4 or 8 bytes, with an operator that
                # applies to the type class; everything else may be rejected (with a located diagnostic)
                m = {"asg0": "ifbp", "asg1": "ifbp", "asg2": "ifb", "asg3": "ifb", "preinc": "ifbp", "predec": "ifbp", "postinc": "ifbp",
                     "postdec": "ifbp", "load_store": "ifbps", "asg_value": "ifbps", "cas": "ifbp", "exch": "ifbp", "exch_unused": "ifbp",
                     "std_fetch_add": "ip", "std_fetch_and": "i", "std_exchange": "ifbp", "std_cas_strong": "ifbp", "std_load_store": "ifbp",
                     "std_init": "ifbp"}.get(oname, "ib")
                ok = cls in m and size in (1, 2, 4, 8)
                if oname in ("load_store", "asg_value") and cls == "s":
                    ok = True                                  # plain assignment of any size
                if std and not atomic:
                    ok = False                                 # C11 wants an atomic object here; gcc rejects
                ytype = "long" if cls == "p" and oname in ("asg0", "asg1", "std_fetch_add", "asg_value") else T
                if oname in ("asg8", "asg9") and cls in "ib":
                    ytype = "int"
                text = ("%s%s\n%s\nint k;\nint f(%s y0) {\n  int r = 0;\n  %s y = y0;\n  %s z = %s;\n%s  %s\n  return r;\n}\n"
                        % ("#include <stdatomic.h>\n" if std else "", decl, gdecl % {"T": T}, ytype, ytype, T,
                           "y" if ytype == T else ("{0}" if cls == "s" else "0"), ldecl % {"T": T}, stmt))
                cases.append(("%s_%s_%s" % (code, pname, oname), text, [], "valid" if ok else "any"))
    return cases


GRID_FAMILIES = [("call_shapes", grid_call_shapes), ("pp_selfref", grid_pp_selfref), ("pp_skipped_expr", grid_pp_skipped_expr),
                 ("atomic_ops", grid_atomic_ops)]

GRID_CHUNK = 500      # cases per work item


def rep_case(fam, *ns):
    """-> (bytes, opts)"""
    r = fam[2](*ns)
    if isinstance(r, tuple):
        return r[0].encode(), list(r[1])
    return r.encode(), []


# families whose cost in chibicc grows faster than n^2 are enumerated up to a stated smaller maximum (a slow answer is
# not a verdict; the CPU limit must not be approached by the enumeration itself)
REP_NMAX = {"pp_nested_invocation": 257}


def rep_points(kind, famname, tier):
    if kind == "rep":
        return [(n,) for n in REP_N[tier] if n <= REP_NMAX.get(famname, 1 << 30)]
    return [(a, b) for a in REP2_N[tier] for b in REP2_N[tier]]


_GCC_VERDICT = {}


def gcc_accepts(data, opts, wd):
    """second oracle for 'this generated unit is a valid program' (only asked when chibicc rejects one)"""
    key = hashlib.blake2b(data + repr(opts).encode(), digest_size=16).digest()
    if key not in _GCC_VERDICT:
        p = os.path.join(wd, "gccref.c")
        with open(p, "wb") as f:
            f.write(data)
        gopts = [o for o in opts if o[:2] in ("-D", "-U", "-I")]
        for i, o in enumerate(opts):
            if o == "-include":
                gopts += ["-include", opts[i + 1]]
        st, out, err = core.run_limited(["gcc", "-std=gnu11", "-fsyntax-only", "-w", "-ftrack-macro-expansion=0"] + gopts + ["gccref.c"],
                                        cwd=wd, timeout=300)
        _GCC_VERDICT[key] = (st == 0)
    return _GCC_VERDICT[key]


# ---------------------------------------------------------------------------------------------------------
# running and judging

def build_runner(workdir):
    exe = os.path.join(workdir, "c13_run")
    rc, o, e = core.sh(["gcc", "-O2", "-o", exe, RUNNER_SRC])
    if rc != 0:
        raise core.HarnessError("c13_run.c does not build:\n" + e[-2000:])
    return exe


def run_batch(runner, chibicc, wd, cases, asmdir="-", cpu=CPU_S, wall=WALL_S, mem=MEM_MB, trace=1, throttle=False):
    """cases: [(id, bytes, [opts])] -> [(id, status, err bytes, asmhash, asmnew, trace text, peak rss KB, screened)]"""
    parts = []
    for cid, data, opts in cases:
        parts.append(("R %s %d %d\n" % (cid, len(data), len(opts))).encode())
        for o in opts:
            parts.append(o.encode() + b"\n")
        parts.append(data)
        parts.append(b"\n")
    extra = [str(HEAVY_MAX), str(SCREEN_CPU_S), str(SCREEN_MEM_MB)] if throttle else []
    p = subprocess.run([runner, chibicc, str(trace), str(cpu), str(wall), str(mem), asmdir] + extra, input=b"".join(parts),
                       stdout=subprocess.PIPE, stderr=subprocess.PIPE, cwd=wd)
    if p.returncode != 0:
        raise core.HarnessError("c13_run failed rc=%s: %s" % (p.returncode, p.stderr[-500:]))
    out, pos, res = p.stdout, 0, []
    while pos < len(out):
        nl = out.index(b"\n", pos)
        f = out[pos:nl].split(b" ")
        if f[0] != b"S" or len(f) != 9:
            raise core.HarnessError("c13_run protocol error: %r" % out[pos:nl + 1])
        errlen, trlen = int(f[3]), int(f[6])
        pos = nl + 1
        err = out[pos:pos + errlen]
        pos += errlen
        tr = out[pos:pos + trlen].decode()
        pos += trlen
        res.append((f[1].decode(), f[2].decode(), err, f[4].decode(), f[5] == b"1", tr, int(f[7]), f[8] == b"1"))
    if len(res) != len(cases):
        raise core.HarnessError("c13_run returned %d of %d results" % (len(res), len(cases)))
    return res


_LINECOUNT = {}


def file_lines(path):
    """number of lines of a file as chibicc sees it, or None if it does not exist"""
    if path not in _LINECOUNT:
        try:
            with open(path, "rb") as f:
                _LINECOUNT[path] = count_lines(f.read())
        except OSError:
            _LINECOUNT[path] = None
    return _LINECOUNT[path]


def count_lines(data):
    data = data.split(b"\0")[0] if b"\0" in data else data
    n = data.count(b"\n")
    if data and not data.endswith(b"\n"):
        n += 1
    return n


_LOC = re.compile(rb"^([^\n:]+):(\d+): ")
_LINEDIR = re.compile(rb"#[ \t]*(?:line\b|\d)")


def judge_diag(err, data, wd, loose):
    """exit != 0: returns None if stderr starts with a located diagnostic, else (class, detail)."""
    if not err.strip():
        return ("silent-failure", "")
    first = err.split(b"\n", 1)[0]
    m = _LOC.match(err)
    if not m:
        if loose or first.startswith(b"<"):
            return None
        if _LINEDIR.search(data) and re.match(rb"^[^\n:]+:-\d+: ", err):
            return None                    # presumed line after #line (C18 judges its value, not C13)
        return ("diag-no-location", norm_msg(first))
    name, line = m.group(1).decode("utf-8", "replace"), int(m.group(2))
    if name.startswith("<"):               # <built-in>, <command line>
        return None
    if _LINEDIR.search(data):              # after #line / `# N` the reported line is the presumed one
        return None
    if name == "v.c":
        nlines = count_lines(data)
    else:
        nlines = file_lines(name if os.path.isabs(name) else os.path.join(wd, name))
        if nlines is None:
            return ("diag-nonexistent-file", caret_msg(err))
    if line < 1:
        return ("diag-line-out-of-range", "line%d%s" % (line, "-input-has-NUL" if b"\0" in data else ""))
    if line > nlines + 1:
        return ("diag-line-out-of-range", "beyond-eof-" + caret_msg(err))
    return None


def caret_msg(err):
    m = re.search(rb"^ *\^ (.*)$", err, re.M)
    return norm_msg(m.group(1)) if m else "?"


def norm_msg(b):
    s = b.decode("utf-8", "replace")[:80]
    s = re.sub(r"'[^']*'|`[^']*'|\"[^\"]*\"", "_", s)
    s = re.sub(r"\d+", "N", s)
    s = re.sub(r"[^A-Za-z0-9_#<>.,:+-]+", "-", s).strip("-")
    return s or "?"


def judge(status, err, asmhash, data, opts, wd, loose=False):
    """-> (outcome, anomaly or None); outcome in accepted/rejected/crash/timeout"""
    if status == "T" or status in ("S24", "S9"):
        return "timeout", ("timeout", status)
    if status[0] == "S":
        return "crash", ("signal", status)
    if b"internal error" in err:
        m = re.search(rb"internal error at ([\w.]+):(\d+)", err)
        return "rejected", ("internal-error", (m.group(1).decode(), int(m.group(2))) if m else ("?", 0))
    if b"Assertion" in err and b"failed" in err:
        return "rejected", ("assertion", norm_msg(err.split(b"\n", 1)[0]))
    if status == "E0":
        if asmhash == "0" * 16 and not any(o in ("-E", "-M", "--help", "-hashmap-test") for o in opts):
            return "accepted", ("exit0-no-output", "")
        return "accepted", None
    return "rejected", judge_diag(err, data, wd, loose or bool(opts))


def norm_as_msg(aserr):
    for line in aserr.splitlines():
        m = re.search(r"(Error|Fatal error): (.*)", line)
        if m:
            return norm_msg(m.group(2).encode())
    return "no-message"


def assemble(path):
    rc, o, e = core.sh(["as", "-o", "/dev/null", path])
    return rc, e


def null_operand(path):
    """`(null)` outside string data is printf("%s", NULL) in the code generator: the output is not a translation
    of the input even where `as` happens to read it as a symbol named null.  -> mnemonic or None"""
    with open(path, "rb") as f:
        for line in f:
            if b"(null)" in line:
                w = line.split()
                if w and w[0] not in (b".ascii", b".string", b".asciz"):
                    return w[0].decode("ascii", "replace")
    return None


def _work(item):
    """One work item = the neighbourhood `spec` of one seed.  Returns counts and anomalies."""
    chibicc, runner, wd, name, valid, src, spec = item
    asmdir = os.path.join(wd, "asm")      # novelty of an output text is judged per item: deterministic counts
    os.makedirs(asmdir, exist_ok=True)
    for f in os.listdir(os.path.join(SEEDS, "aux")):
        shutil.copy(os.path.join(SEEDS, "aux", f), wd)
    seen, cases, hashes = set(), [], []
    ngen = 0
    if spec[0] == "seed":
        cases = [("o%d" % i, src, o) for i, o in enumerate(OPTION_SETS)]
        ngen = len(cases)
        hashes.append(int.from_bytes(hashlib.blake2b(src, digest_size=8).digest(), "big"))
    elif spec[0] == "probe":
        cases = [("p%d" % i, src, o) for i, o in enumerate(OPTION_PROBES)]
        ngen = len(cases)
    elif spec[0] == "grid":
        fam = GRID_FAMILIES[spec[1]]
        allc = fam[1](spec[2])
        expect = {}
        for cid, text, opts, exp in allc[spec[3] * GRID_CHUNK:(spec[3] + 1) * GRID_CHUNK]:
            data = text.encode()
            ngen += 1
            cases.append((cid, data, opts))
            expect[cid] = exp
            hashes.append(int.from_bytes(hashlib.blake2b(data + repr(opts).encode(), digest_size=8).digest(), "big"))
    elif spec[0] in ("rep", "rep2"):
        fam = (REP_FAMILIES if spec[0] == "rep" else REP2_FAMILIES)[spec[1]]
        for ns in rep_points(spec[0], fam[0], spec[2]):
            data, opts = rep_case(fam, *ns)
            ngen += 1
            cases.append(("n" + "x".join(map(str, ns)), data, opts))
            hashes.append(int.from_bytes(hashlib.blake2b(data + repr(opts).encode(), digest_size=8).digest(), "big"))
    else:
        for vid, data in gen_variants(src, spec):
            ngen += 1
            h = hashlib.blake2b(data, digest_size=8).digest()
            if h in seen or data == src:
                continue
            seen.add(h)
            hashes.append(int.from_bytes(h, "big"))
            cases.append((vid, data, []))
    res = run_batch(runner, chibicc, wd, cases, asmdir, throttle=True) if cases else []
    counts = {"accepted": 0, "rejected": 0, "crash": 0, "timeout": 0}
    anomalies, msgs, eof_diag, asm_checked, asm_skipped = [], set(), 0, 0, 0
    rep_judged_valid = rep_ref_rejected = rep_beyond_limit_rejected = 0
    grid_valid = grid_any = grid_any_rejected = 0
    not_judged = 0
    gridname = fam[0] if spec[0] == "grid" else None
    for (cid, data, opts), (rid, status, err, ah, anew, tr, rss, screened) in zip(cases, res):
        if rid != cid:
            raise core.HarnessError("c13_run result order mismatch")
        outcome, an = judge(status, err, ah, data, opts, wd, loose=spec[0] == "probe")
        counts[outcome] += 1
        if screened and (outcome == "timeout" or outcome == "crash" and mem_exhausted(rss, SCREEN_MEM_MB)):
            not_judged += 1                # ran into a screening limit: no verdict (see HEAVY_MAX)
            continue
        memx = outcome == "crash" and mem_exhausted(rss, MEM_MB) and "overflow=1" not in tr
        if outcome == "rejected":
            m = re.search(rb"^ *\^ (.*)$", err, re.M)
            if m:
                msgs.add(m.group(1)[:100].decode("utf-8", "replace"))
            m = _LOC.match(err)
            if m and m.group(1) == b"v.c" and int(m.group(2)) == count_lines(data) + 1:
                eof_diag += 1
        if outcome == "accepted" and anew:
            p = os.path.join(asmdir, ah + ".s")
            if b"asm" in data:          # inline asm text is the user's, not the compiler's
                asm_skipped += 1
            else:
                rc, e = assemble(p)
                asm_checked += 1
                if rc != 0:
                    an = ("as-reject", norm_as_msg(e))
                else:
                    mn = null_operand(p)
                    if mn:
                        an = ("asm-null-operand", mn)
            open(p, "w").close()        # keep the name as a "seen" marker, drop the text
        if an:
            anomalies.append({"seed": name, "valid": valid, "vid": cid, "cls": an[0], "detail": an[1], "data": data,
                              "opts": opts, "err": err[:600].decode("utf-8", "replace"), "trace": tr,
                              "status": status, "memx": memx, "grid": gridname})
            if spec[0] == "grid":
                grid_valid += expect[cid] == "valid"
                grid_any += expect[cid] != "valid"
        elif spec[0] == "grid":
            # units with expectation "valid" are valid programs of the supported language: a rejection (even with a located
            # diagnostic) is reported, provided gcc accepts the same unit
            if expect[cid] != "valid":
                grid_any += 1
                grid_any_rejected += outcome != "accepted"
            elif outcome == "accepted":
                grid_valid += 1
            elif not gcc_accepts(data, opts, wd):
                rep_ref_rejected += 1
            else:
                grid_valid += 1
                anomalies.append({"seed": name, "valid": valid, "vid": cid, "cls": "valid-rejected",
                                  "detail": caret_msg(err), "data": data, "opts": opts,
                                  "err": err[:600].decode("utf-8", "replace"), "trace": "", "status": status})
        elif valid and spec[0] == "seed" and outcome != "accepted":
            anomalies.append({"seed": name, "valid": valid, "vid": cid, "cls": "valid-rejected",
                              "detail": caret_msg(err), "data": data, "opts": opts,
                              "err": err[:600].decode("utf-8", "replace"), "trace": "", "status": status})
        elif spec[0] in ("rep", "rep2"):
            # generated units are valid programs: inside the C11 minimum translation limit of the repeated construct
            # a rejection (even with a located diagnostic) is reported, provided gcc accepts the same unit
            limit = fam[1]
            inside = limit is None or (limit > 0 and max(int(x) for x in cid[1:].split("x")) <= limit)
            if outcome == "accepted":
                rep_judged_valid += 1
            elif not inside:
                rep_beyond_limit_rejected += 1
            elif not gcc_accepts(data, opts, wd):
                rep_ref_rejected += 1
            else:
                rep_judged_valid += 1
                anomalies.append({"seed": name, "valid": valid, "vid": cid, "cls": "valid-rejected",
                                  "detail": caret_msg(err), "data": data, "opts": opts,
                                  "err": err[:600].decode("utf-8", "replace"), "trace": "", "status": status})
    return {"name": name, "spec": spec, "generated": ngen, "run": len(cases), "counts": counts, "anomalies": anomalies,
            "msgs": msgs, "hashes": hashes, "eof_diag": eof_diag, "asm_checked": asm_checked,
            "asm_skipped": asm_skipped, "rep_judged_valid": rep_judged_valid, "rep_ref_rejected": rep_ref_rejected,
            "rep_beyond_limit_rejected": rep_beyond_limit_rejected, "grid_valid": grid_valid, "grid_any": grid_any,
            "grid_any_rejected": grid_any_rejected, "not_judged": not_judged,
            "seed_outcomes": [(c[0], r[1]) for c, r in zip(cases, res)] if spec[0] == "seed" else None}


# ---------------------------------------------------------------------------------------------------------
# naming the crash site

class Symbols:
    def __init__(self, chibicc, tree):
        rc, o, e = core.sh(["nm", "-n", chibicc])
        self.addrs, self.names = [], []
        for line in o.splitlines():
            f = line.split()
            if len(f) == 3 and f[1] in "tT":
                self.addrs.append(int(f[0], 16))
                self.names.append(f[2])
        self.tree = tree
        self.bias = 0
        with open(chibicc, "rb") as f:
            hdr = f.read(18)
        if hdr[16:18] == b"\x02\x00":       # ET_EXEC: the runner reports offsets from the lowest mapping
            rc, o, e = core.sh(["readelf", "-lW", chibicc])
            m = re.search(r"^\s*LOAD\s+0x[0-9a-f]+\s+0x([0-9a-f]+)", o, re.M)
            self.bias = int(m.group(1), 16) if m else 0

    def func(self, rel, is_ret):
        a = rel + self.bias - (1 if is_ret else 0)
        i = bisect.bisect_right(self.addrs, a) - 1
        return self.names[i] if i >= 0 else "?"

    def frames(self, trace):
        rels = [int(l[2:], 16) for l in trace.splitlines() if l.startswith("f ")]
        inexe = "inexe=1" in trace
        return [self.func(r, not (i == 0 and inexe)) for i, r in enumerate(rels)]

    def enclosing_function(self, fname, line):
        """name of the function whose body contains fname:line in the tree (for `internal error at f:l`)"""
        try:
            src = open(os.path.join(self.tree, os.path.basename(fname)), errors="replace").read().split("\n")
        except OSError:
            return "?"
        for i in range(min(line, len(src)) - 1, -1, -1):
            m = re.match(r"^[A-Za-z_][\w \*]*?\b(\w+)\s*\([^;]*$", src[i])
            if m and not src[i].startswith((" ", "\t", "}")):
                return m.group(1)
        return "?"


GENERIC_HELPERS = ("error", "error_at", "error_tok", "warn_tok", "verror_at", "equal", "skip", "consume")


def crash_site(sym, trace):
    """-> (class override or None, site)"""
    fr = sym.frames(trace)
    if not fr:
        return None, "unknown-site"
    if "overflow=1" in trace:
        cyc = sorted(set(f for f in fr if fr.count(f) >= 3)) or sorted(set(fr[:4]))
        return "stack-overflow", "+".join(cyc[:3])
    if fr[0] in GENERIC_HELPERS and len(fr) > 1:
        return None, fr[0] + "<-" + fr[1]      # a NULL token handed to a reporting/matching helper: name the caller
    return None, fr[0]


def outer_frames(sym, trace):
    fr = sym.frames(trace)
    if fr and "main" not in fr and "cc1" not in fr:
        # the frame walk was cut off inside a deep recursion: which frames it holds depends on the instant of
        # the signal, so name the recursion cycle (as for a stack overflow) instead of the outermost frames
        cyc = sorted(set(f for f in fr if fr.count(f) >= 3)) or sorted(set(fr))
        return "recursion:%s" % "+".join(cyc[:3])
    outer = [f for f in reversed(fr) if f not in ("main", "cc1", "_start")][:3]
    return ">".join(outer) or "unknown-site"


_GRID_SUFFIX = re.compile(r"\|in:[\w-]+$")


def signature(sym, an):
    """Anomalies of GRID units carry the family as construct class (`|in:<family>`): what such a unit contains is known
    by construction (e.g. a call_shapes unit holds no GNU empty struct), so a root cause that needs something else is
    told apart even where the faulting function is the same."""
    sig = signature0(sym, an)
    if an.get("grid") and an["cls"] != "valid-rejected":
        sig += "|in:" + an["grid"]
    return sig


def signature0(sym, an):
    cls, detail = an["cls"], an["detail"]
    if cls == "memory-exhausted":
        return "C13|memory-exhausted|%s" % outer_frames(sym, an["trace"])
    if cls == "signal":
        n = int(an["status"][1:])
        over, site = crash_site(sym, an["trace"])
        return "C13|%s|%s" % (over or SIGNAMES.get(n, "SIG%d" % n), site)
    if cls == "timeout":
        return "C13|hang|%s" % outer_frames(sym, an["trace"])
    if cls == "internal-error":
        return "C13|internal-error|%s:%s" % (detail[0], sym.enclosing_function(detail[0], detail[1]))
    if cls == "valid-rejected":
        return "C13|valid-rejected|%s|%s" % (an["seed"], detail)
    if cls in ("silent-failure", "exit0-no-output"):
        return "C13|%s|%s|%s" % (cls, an["status"], "options" if an["opts"] else edit_class(an["vid"]))
    return "C13|%s|%s" % (cls, detail)


STACK_ATTEMPTS = 8


def prepare_wd(wd):
    os.makedirs(wd, exist_ok=True)
    for f in os.listdir(os.path.join(SEEDS, "aux")):
        shutil.copy(os.path.join(SEEDS, "aux", f), wd)


def recapture_stack(sym, runner, chibicc, wd, data, opts, status):
    """The ptrace observer occasionally misses the stack of a dying child (empty or `notrace` trace).  The crash is
    real, but its signature must not depend on that: the case is re-run alone (same limits, same auxiliary files)
    until a run that dies from the same signal yields a stack.  -> trace text or None"""
    prepare_wd(wd)
    for attempt in range(STACK_ATTEMPTS):
        r = run_batch(runner, chibicc, wd, [("c", data, opts)], "-")[0]
        if r[1] == status and sym.frames(r[5]):
            return r[5]
    return None


def _memx_confirm(item):
    """re-run of a case that died at the memory limit, with MEMX_FACTOR x the memory -> (status, trace, runaway?)"""
    chibicc, runner, wd, data, opts = item
    prepare_wd(wd)
    r = run_batch(runner, chibicc, wd, [("c", data, opts)], "-", cpu=CONFIRM_CPU_S, wall=CONFIRM_WALL_S,
                  mem=MEM_MB * MEMX_FACTOR)[0]
    runaway = r[1] in ("S24", "S9") or r[1][0] == "S" and mem_exhausted(r[6], MEM_MB * MEMX_FACTOR)
    shutil.rmtree(wd, ignore_errors=True)
    return r[1], r[5], runaway


def case_signatures(chibicc, tree, runner, wd, data, opts, asmdir, sym=None, confirm=True):
    """Full analysis of one case (used by the replay script): the list of signatures it violates."""
    sym = sym or Symbols(chibicc, tree)
    cid, status, err, ah, anew, tr, rss, scr = run_batch(runner, chibicc, wd, [("c", data, opts)], asmdir)[0]
    outcome, an = judge(status, err, ah, data, opts, wd)
    sigs = []
    if outcome == "timeout" and confirm:
        cid, status, err, ah, anew, tr, rss, scr = run_batch(runner, chibicc, wd, [("c", data, opts)], asmdir,
                                                             cpu=CONFIRM_CPU_S, wall=CONFIRM_WALL_S)[0]
        outcome, an = judge(status, err, ah, data, opts, wd)
        if status == "T":
            an = None                      # starved, not hung
        elif outcome == "crash" and mem_exhausted(rss, MEM_MB):
            an = ("memory-exhausted", "")  # slower than the CPU limit, but it is memory that runs out in the end
    elif outcome == "crash" and confirm and mem_exhausted(rss, MEM_MB) and "overflow=1" not in tr:
        r2 = run_batch(runner, chibicc, wd, [("c", data, opts)], "-", cpu=CONFIRM_CPU_S, wall=CONFIRM_WALL_S,
                       mem=MEM_MB * MEMX_FACTOR)[0]
        if r2[1] in ("S24", "S9") or r2[1][0] == "S" and mem_exhausted(r2[6], MEM_MB * MEMX_FACTOR):
            an = ("memory-exhausted", "")
    if outcome == "accepted" and ah != "0" * 16 and b"asm" not in data:
        p = os.path.join(asmdir, ah + ".s")
        if os.path.exists(p) and os.path.getsize(p):
            rc, e = assemble(p)
            if rc != 0:
                an = ("as-reject", norm_as_msg(e))
            elif null_operand(p):
                an = ("asm-null-operand", null_operand(p))
    if an:
        if an[0] == "signal" and not sym.frames(tr):
            tr = recapture_stack(sym, runner, chibicc, os.path.join(wd, "retrace"), data, opts, status) or tr
        sigs.append(signature(sym, {"cls": an[0], "detail": an[1], "status": status, "trace": tr, "opts": opts,
                                    "vid": "x", "seed": "?"}))
    return sigs, status, err


REPLAY = """# files: v.c (input), opts.txt (one cc1 option per line), sig.txt (expected signature), aux headers
exec python3 "$VERIF/checks/c13.py" --replay-case . "$CHIBICC" "$CHIBICC_DIR"
"""


def replay_case(d, chibicc, tree):
    import tempfile
    tmp = tempfile.mkdtemp(prefix="vp_c13r_")
    try:
        runner = build_runner(tmp)
        wd = os.path.join(tmp, "w")
        asmdir = os.path.join(tmp, "asm")
        os.makedirs(wd)
        os.makedirs(asmdir)
        for f in os.listdir(d):
            if f.endswith(".h"):
                shutil.copy(os.path.join(d, f), wd)
        data = open(os.path.join(d, "v.c"), "rb").read()
        opts = [l for l in open(os.path.join(d, "opts.txt")).read().split("\n") if l]
        want = open(os.path.join(d, "sig.txt")).read().strip()
        sigs, status, err = case_signatures(chibicc, tree, runner, wd, data, opts, asmdir)
        print("expected %s\nobserved %s status=%s\n%s" % (want, sigs, status, err[:300].decode("utf-8", "replace")))
        if want.startswith("C13|valid-rejected|"):
            return 1 if status != "E0" else 0
        # a death that goes away with 4x the memory is reported as out-of-memory-<signal>; the replay reproduces the
        # death under the standard limit
        return 1 if _GRID_SUFFIX.sub("", want).replace("C13|out-of-memory-", "C13|", 1) in sigs else 0
    finally:
        shutil.rmtree(tmp, ignore_errors=True)


# ---------------------------------------------------------------------------------------------------------

def diagnostic_sites(tree):
    """format strings of all error_tok/error_at/error calls in the tree -> [(file, fmt, regex)]"""
    sites = []
    for f in ("tokenize.c", "preprocess.c", "parse.c", "type.c", "codegen.c"):
        try:
            src = open(os.path.join(tree, f), errors="replace").read()
        except OSError:
            continue
        for m in re.finditer(r"\berror_(?:tok|at)\s*\(\s*[^,]+,\s*((?:\"(?:\\.|[^\"\\])*\"\s*)+)", src):
            fmt = "".join(re.findall(r"\"((?:\\.|[^\"\\])*)\"", m.group(1)))
            rx = re.escape(fmt)
            rx = re.sub(r"%[sd]", ".*", rx.replace("\\%", "%"))
            sites.append((f, fmt, re.compile("^" + rx + "$")))
    return sites


def load_seeds():
    seeds = []
    for sub, valid in (("valid", True), ("invalid", False)):
        d = os.path.join(SEEDS, sub)
        for f in sorted(os.listdir(d)):
            if f.endswith(".c"):
                seeds.append((("v_" if valid else "i_") + f[:-2], valid, open(os.path.join(d, f), "rb").read()))
    return seeds


def _confirm(item):
    chibicc, runner, wd, an, cpu, wall, mem = item
    os.makedirs(wd, exist_ok=True)
    for f in os.listdir(os.path.join(SEEDS, "aux")):
        shutil.copy(os.path.join(SEEDS, "aux", f), wd)
    r = run_batch(runner, chibicc, wd, [("c", an["data"], an["opts"])], "-", cpu=cpu, wall=wall, mem=mem)[0]
    return r[1], r[5], r[6]


def run(ctx):
    tier = ctx.tier
    runner = build_runner(ctx.work)
    sym = Symbols(ctx.chibicc, ctx.tree)
    if len(sym.addrs) < 100:
        raise core.HarnessError("nm gives no symbol table for the built chibicc")
    seeds = load_seeds()
    alpha_idx = ([FULL_ALPHABET.index(a) for a in QUICK_ALPHABET] if tier == "quick"
                 else list(range(len(FULL_ALPHABET))))

    items = []
    num_positions, num_alpha_sizes = 0, []
    for name, valid, src in seeds:
        ntok = len(lex(src)[0])
        items.append((name, valid, src, ("seed",), len(OPTION_SETS)))
        per_pos = 3 + 2 * len(alpha_idx)
        if tier == "quick":
            items.append((name, valid, src, ("tok1", tuple(alpha_idx)), ntok * per_pos))
        else:
            for part in core.chunks(alpha_idx, 40):
                items.append((name, valid, src, ("tok1", tuple(part)), ntok * (3 + 2 * len(part))))
        items.append((name, valid, src, ("byte", tier), len(src) * (len(BYTE_ALPHABET[tier]) + 1)))
        toks = lex(src)[0]
        npos = sum(1 for t in toks if is_number(t))
        if npos:
            nalpha = len(num_alphabet(tier, [v for v in map(int_value, toks) if v is not None]))
            items.append((name, valid, src, ("num", tier), npos * nalpha))
            num_positions += npos
            num_alpha_sizes.append(nalpha)
        if ntok <= DEV2_MAXTOK[tier]:
            n1 = ntok * (3 + 2 * len(DEV2_ALPHABET)) + len(DEV2_ALPHABET)
            nsl = 4
            for k in range(nsl):
                items.append((name, valid, src, ("tok2", k, nsl), n1 * n1 // nsl))
    items.append(("probe", True, PROBE_UNIT, ("probe",), len(OPTION_PROBES)))
    # repetition dimension: one item per family (all its n); scheduled first (the n = 1000 units are the slowest cases)
    for k, fam in enumerate(REP_FAMILIES):
        items.append(("rep_" + fam[0], True, b"", ("rep", k, tier), 10 ** 6 + len(rep_points("rep", fam[0], tier))))
    for k, fam in enumerate(REP2_FAMILIES):
        items.append(("rep_" + fam[0], True, b"", ("rep2", k, tier), 10 ** 6 + len(rep_points("rep2", fam[0], tier))))
    grid_sizes = {}
    for k, fam in enumerate(GRID_FAMILIES):
        allc = fam[1](tier)
        if len(set(c[0] for c in allc)) != len(allc):
            raise core.HarnessError("duplicate case id in grid family " + fam[0])
        grid_sizes[fam[0]] = len(allc)
        for j in range((len(allc) + GRID_CHUNK - 1) // GRID_CHUNK):
            items.append(("grid_" + fam[0], True, b"", ("grid", k, tier, j),
                          5 * 10 ** 5 + min(GRID_CHUNK, len(allc) - j * GRID_CHUNK)))     # scheduled right after the repetition items
    if len(set(f[0] for f in REP_FAMILIES + REP2_FAMILIES)) != len(REP_FAMILIES) + len(REP2_FAMILIES):
        raise core.HarnessError("duplicate repetition family name")
    only = os.environ.get("C13_ONLY")      # debugging aid: run only items whose name contains one of these words
    if only:
        items = [it for it in items if any(w in it[0] for w in only.split(","))]
        ctx.incomplete("C13_ONLY=%s: only %d work items were run" % (only, len(items)))
    # largest first for load balance; VERIF_SEED only permutes the order of equal-sized items
    items.sort(key=lambda it: (-it[4], hashlib.sha1((it[0] + repr(it[3]) + str(ctx.seed)).encode()).hexdigest()))
    args = [(ctx.chibicc, runner, os.path.join(ctx.work, "w%d" % i), it[0], it[1], it[2], it[3])
            for i, it in enumerate(items)]

    results = []
    done_items = 0
    from concurrent.futures import ProcessPoolExecutor
    with ProcessPoolExecutor(max_workers=core.NPROC) as ex:
        futs = []
        for a in args:
            futs.append(ex.submit(_work, a))
        for i, f in enumerate(futs):
            while not f.done() and not ctx.out_of_time(reserve=60):
                try:
                    f.result(timeout=2)
                except Exception:
                    pass
            if not f.done():
                for g in futs[i:]:
                    if g.done():
                        results.append(g.result())
                        done_items += 1
                    else:
                        g.cancel()
                ctx.incomplete("deadline: %d of %d neighbourhood items finished (an item is one seed x one edit "
                               "family; see items_done)" % (done_items, len(futs)))
                break
            results.append(f.result())
            done_items += 1

    # ---- driver-level probes of option spellings that lack their argument --------------------------------
    dwd = ctx.mkdir("driver")
    with open(os.path.join(dwd, "v.c"), "wb") as f:
        f.write(PROBE_UNIT)
    driver_runs = 0
    for o in DRIVER_PROBES:
        st, out, err = core.run_limited([ctx.chibicc] + o + ["-S", "-o", "v.s", "v.c"], cwd=dwd, limits=True,
                                        cpu=CPU_S, timeout=WALL_S)
        driver_runs += 1
        bad = None
        if st == "timeout":
            bad = "hang"
        elif st < 0:
            bad = SIGNAMES.get(-st, "SIG%d" % -st)
        elif st != 0 and not err.strip():
            bad = "silent-failure"
        if bad:
            ctx.violation("C13|driver-%s|option%s" % (bad, "".join(o) or "-none"),
                          "driver invoked as `chibicc %s -S -o v.s v.c`: %s; stderr %r" % (" ".join(o), bad, err[:200]),
                          files={"v.c": PROBE_UNIT, "opts.txt": "".join(x + "\n" for x in o)},
                          replay=("timeout 20 $CHIBICC $(cat opts.txt) -S -o v.s v.c >out.txt 2>err.txt; rc=$?\n"
                                  "[ $rc -ge 124 ] && exit 1\n[ $rc -ne 0 ] && [ ! -s err.txt ] && exit 1\nexit 0"))

    # ---- aggregate ------------------------------------------------------------------------------------
    tot = {"accepted": 0, "rejected": 0, "crash": 0, "timeout": 0}
    nrun = ngen = eof_diag = asm_checked = asm_skipped = 0
    distinct, msgs, anomalies = set(), set(), []
    rep_tot = {"rep_judged_valid": 0, "rep_ref_rejected": 0, "rep_beyond_limit_rejected": 0, "grid_valid": 0, "grid_any": 0,
               "grid_any_rejected": 0, "not_judged": 0}
    grid_runs = {}
    by_family = {}
    seed_status = {}
    for r in results:
        for k in tot:
            tot[k] += r["counts"][k]
        nrun += r["run"]
        ngen += r["generated"]
        eof_diag += r["eof_diag"]
        asm_checked += r["asm_checked"]
        asm_skipped += r["asm_skipped"]
        for k in rep_tot:
            rep_tot[k] += r[k]
        distinct.update(r["hashes"])
        msgs |= r["msgs"]
        anomalies += r["anomalies"]
        by_family[r["spec"][0]] = by_family.get(r["spec"][0], 0) + r["run"]
        if r["spec"][0] == "grid":
            grid_runs[r["name"][5:]] = grid_runs.get(r["name"][5:], 0) + r["run"]
        if r["seed_outcomes"]:
            seed_status[r["name"]] = r["seed_outcomes"]
    if nrun == 0 or tot["accepted"] == 0 or tot["rejected"] == 0:
        raise core.HarnessError("vacuous run: %s" % tot)
    if ctx.exhaustive and (by_family.get("num", 0) < 1000 or by_family.get("rep", 0) < 500 or by_family.get("rep2", 0) < 100
                           or rep_tot["rep_judged_valid"] < (by_family["rep"] + by_family["rep2"]) // 2):
        raise core.HarnessError("number / repetition dimension degenerate: %s %s" % (by_family, rep_tot))
    if ctx.exhaustive and (grid_runs != grid_sizes or rep_tot["grid_valid"] < by_family["grid"] // 2 or rep_tot["grid_any"] < 100
                           or rep_tot["grid_any_rejected"] < 50):
        raise core.HarnessError("grid dimension degenerate: %s %s %s" % (grid_runs, grid_sizes, rep_tot))
    nvalid = sum(1 for s in seeds if s[1])
    invalid_accepted = sorted(n for n, st in seed_status.items() if n.startswith("i_") and st[0][1] == "E0")

    sites = diagnostic_sites(ctx.tree)
    fmts = sorted(set(s[1] for s in sites))
    reached = sorted(set(fmt for f, fmt, rx in sites if any(rx.match(m) for m in msgs)))
    if len(fmts) < 20 or len(reached) < 10:
        raise core.HarnessError("diagnostic site scan degenerate: %d sites, %d reached" % (len(fmts), len(reached)))

    # ---- crashes that disappear with 4x the memory are out-of-memory deaths; timeouts get 10x ----------
    # deaths at the memory limit first: unbounded memory use or just a big input?  (one wide run at a time)
    memx_groups = {}
    for a in anomalies:
        if a["cls"] == "signal" and a.get("memx"):
            memx_groups.setdefault(signature(sym, dict(a, cls="memory-exhausted")), []).append(a)
    memx_runs = memx_cases = 0
    for k, psig in enumerate(sorted(memx_groups)):
        group = sorted(memx_groups[psig], key=lambda a: (len(a["data"]), a["data"], a["opts"]))
        verdicts = []
        for j, a in enumerate(group[:MEMX_SAMPLES]):
            if ctx.time_left() < CONFIRM_CPU_S + 60:
                break                      # no time for the wide run: the death at the memory limit was observed all the same
            verdicts.append(_memx_confirm((ctx.chibicc, runner, os.path.join(ctx.work, "mx%d_%d" % (k, j)), a["data"], a["opts"]))[2])
            memx_runs += 1
        if all(verdicts):
            for a in group:
                a["cls"] = "memory-exhausted"
                memx_cases += 1
        else:
            for a in group:
                a["memx"] = False          # judged like any other death (4x memory below)
    ctx.cover(memory_exhausted_cases=memx_cases, memory_exhausted_wide_reruns=memx_runs)
    crash = [a for a in anomalies if a["cls"] == "signal" and "overflow=1" not in a["trace"]]
    conf = core.pmap(_confirm, [(ctx.chibicc, runner, os.path.join(ctx.work, "c%d" % i), a, CONFIRM_CPU_S,
                                 CONFIRM_WALL_S, MEM_MB * 4) for i, a in enumerate(crash)], nproc=4, chunksize=8)
    oom = 0
    for a, (st, tr, rss) in zip(crash, conf):
        if st != a["status"]:
            a["oom"] = True
            oom += 1
    touts = sorted((a for a in anomalies if a["cls"] == "timeout"), key=lambda a: (len(a["data"]), a["data"]))
    unconfirmed = 0
    keep = []
    budget_cases = 16 if ctx.time_left() > CONFIRM_CPU_S + 40 else 0
    conf = core.pmap(_confirm, [(ctx.chibicc, runner, os.path.join(ctx.work, "t%d" % i), a, CONFIRM_CPU_S,
                                 max(CONFIRM_CPU_S + 10, min(CONFIRM_WALL_S, int(ctx.time_left()) - 30)), MEM_MB)
                                for i, a in enumerate(touts[:budget_cases])], nproc=16)
    confirmed_hang = {}
    for a, (st, tr, rss) in zip(touts[:budget_cases], conf):
        if st in ("S24", "S9"):            # consumed 10x the CPU limit: a hang, not a slow machine
            a["trace"] = tr or a["trace"]
            confirmed_hang[signature(sym, a)] = True
            keep.append(a)
        elif st[0] == "S" and mem_exhausted(rss, MEM_MB):
            a["cls"], a["trace"], a["status"] = "memory-exhausted", tr or a["trace"], st     # ... and then memory ran out
            keep.append(a)
        else:
            unconfirmed += 1
    for a in touts[budget_cases:]:
        if signature(sym, a) in confirmed_hang:
            keep.append(a)
        else:
            unconfirmed += 1
    anomalies = [a for a in anomalies if a["cls"] != "timeout" and not any(a is k for k in keep)] + keep

    # ---- report: smallest reproducer per signature -----------------------------------------------------
    aux = {f: open(os.path.join(SEEDS, "aux", f)).read() for f in sorted(os.listdir(os.path.join(SEEDS, "aux")))}
    # The ptrace observer occasionally misses the stack of a dying child (empty trace): such a crash is real, but its
    # signature must be derived deterministically, so those cases are re-run alone until a stack is captured.
    retraced = lost = 0
    for k, a in enumerate(anomalies):
        if a["cls"] in ("signal", "memory-exhausted") and not sym.frames(a["trace"]):
            tr = recapture_stack(sym, runner, ctx.chibicc, os.path.join(ctx.work, "retrace%d" % k), a["data"], a["opts"],
                                 a["status"])
            if tr:
                a["trace"] = tr
                retraced += 1
            else:
                lost += 1
    ctx.cover(crash_stacks_recaptured=retraced, crash_stacks_not_capturable=lost)
    bysig = {}
    for a in anomalies:
        sig = signature(sym, a)
        if a.get("oom"):
            sig = sig.replace("C13|", "C13|out-of-memory-", 1)
        bysig.setdefault(sig, []).append(a)
    for sig in sorted(bysig):
        group = sorted(bysig[sig], key=lambda a: (len(a["data"]), a["data"], a["opts"]))
        a = group[0]
        fr = sym.frames(a["trace"])[:6]
        desc = ("%d inputs; smallest: seed %s edit %s opts %s status %s%s; stderr: %s; input: %r"
                % (len(group), a["seed"], a["vid"], a["opts"], a["status"],
                   (" stack " + "<".join(fr)) if fr else "", a["err"][:160].replace("\n", "\\n"), a["data"][:200]))
        files = dict(aux)
        files.update({"v.c": a["data"], "opts.txt": "".join(o + "\n" for o in a["opts"]), "sig.txt": sig + "\n",
                      "stderr.txt": a["err"], "stack.txt": "\n".join(sym.frames(a["trace"])[:40]) + "\n"})
        for _ in group:
            ctx.violation(sig, desc, files=files, replay=REPLAY)

    ctx.cover(evaluations=nrun, distinct_nontrivial=len(distinct), generated_variants=ngen,
              rule=("a case is one (input bytes, option list); non-trivial = its bytes differ from every other case "
                    "counted (64-bit content hash) - seeds themselves plus every deviation-1/2 token edit, numeric-value "
                    "edit and byte edit that changes the seed, plus every repetition unit (family x n) and every grid unit "
                    "(call_shapes: int^i double^d x tails over 12 argument types x return types; pp_selfref; pp_skipped_expr: "
                    "contexts x expressions; atomic_ops: types x places x operations); each case is one real `chibicc -cc1` process judged by wait status, "
                    "stderr location and `as`"),
              number_positions=num_positions, number_alphabet_fixed=len(num_alphabet(tier, [])),
              number_alphabet_per_seed_min_max=[min(num_alpha_sizes), max(num_alpha_sizes)],
              number_alphabet=("thorough: NUM_VALUES + negations + NUM_HEX + (m-1, m, m+1, negated too) for every integer "
                               "literal m of the seed; quick: {0, 1, -1, 2^31, 2^32-1, 2^32, 2^64-1} + (m-1, m, m+1)"),
              repetition_families=len(REP_FAMILIES), repetition_two_phase_families=len(REP2_FAMILIES),
              repetition_counts=REP_N[tier], repetition_two_phase_counts=REP2_N[tier], repetition_family_max=REP_NMAX,
              repetition_units_accepted_or_confirmed_valid=rep_tot["rep_judged_valid"],
              repetition_units_rejected_beyond_c11_limit=rep_tot["rep_beyond_limit_rejected"],
              repetition_units_rejected_also_by_gcc=rep_tot["rep_ref_rejected"],
              grid_families=grid_sizes, grid_units_valid_expected_accepted_or_confirmed=rep_tot["grid_valid"],
              grid_units_no_acceptance_expected=rep_tot["grid_any"], grid_units_no_acceptance_expected_rejected=rep_tot["grid_any_rejected"],
              grid_call_types=[t[0] for t in CALL_TYPES], grid_call_prefixes=len(CALL_PREFIX[tier]), grid_call_tail_max=3 if tier == "thorough" else 2,
              grid_call_return_types=sorted(set(CALL_RET[tier] + ["s24"])),
              grid_skipped_expr_contexts=len(SKIP_CONTEXTS), grid_skipped_expr_expressions=len(SKIP_EXPRS if tier == "thorough" else SKIP_EXPRS_QUICK),
              grid_atomic_types=[t[0] for t in ATOMIC_TYPES if t[4] != "a"], grid_atomic_sizes=sorted(set(t[3] for t in ATOMIC_TYPES if t[4] != "a")),
              resource_cases_not_judged=rep_tot["not_judged"],
              resource_limits={"cpu_s": CPU_S, "mem_mb": MEM_MB, "first_stage_mem_mb": 256, "runs_above_first_stage": "one at a time (flock)", "heavy_max_per_item": HEAVY_MAX, "screen_cpu_s": SCREEN_CPU_S,
                               "screen_mem_mb": SCREEN_MEM_MB, "memx_factor": MEMX_FACTOR},
              seeds_valid=nvalid, seeds_invalid=len(seeds) - nvalid, token_alphabet=len(alpha_idx),
              byte_alphabet=len(BYTE_ALPHABET[tier]), option_sets=len(OPTION_SETS), option_probes=len(OPTION_PROBES), driver_probes=driver_runs,
              runs_by_family=by_family, accepted=tot["accepted"], rejected_with_diagnostic=tot["rejected"],
              died_by_signal=tot["crash"], timeouts_first_pass=tot["timeout"], timeouts_unconfirmed=unconfirmed,
              out_of_memory_deaths=oom, distinct_asm_outputs_assembled=asm_checked, asm_skipped_inline_asm=asm_skipped,
              diagnostics_at_eof_line=eof_diag, diag_sites_total=len(fmts), diag_sites_reached=len(reached),
              diag_sites_unreached=[f for f in fmts if f not in reached],
              invalid_seeds_accepted_no_verdict=invalid_accepted, items_total=len(items), items_done=done_items,
              bounds_completed={"deviation0": True, "deviation1_tokens": len(alpha_idx), "byte_edits": True,
                                "deviation2_max_tokens": DEV2_MAXTOK[tier], "numeric_positions": "all",
                                "repetition_max_n": max(REP_N[tier])} if ctx.exhaustive else "see notes")
    for name in ("v_switch", "i_pp_paste_invalid"):
        src = dict((s[0], s[2]) for s in seeds)[name]
        vs = list(gen_variants(src, ("tok1", tuple(alpha_idx[:3]))))
        ctx.sample({"seed": name, "edit": vs[len(vs) // 2][0], "variant": vs[len(vs) // 2][1].decode("latin1")})
    vs = list(gen_variants(dict((s[0], s[2]) for s in seeds)["v_num_switch_unsigned"], ("num", tier)))
    ctx.sample({"seed": "v_num_switch_unsigned", "edit": vs[len(vs) // 2][0], "variant": vs[len(vs) // 2][1].decode("latin1")})
    fam = [f for f in REP2_FAMILIES if f[0] == "pp_churn_same_name"][0]
    ctx.sample({"family": fam[0], "n": [2, 3], "unit": rep_case(fam, 2, 3)[0].decode()})
    fam = [f for f in REP_FAMILIES if f[0] == "expr_call_nested_pending_args"][0]
    ctx.sample({"family": fam[0], "n": [3], "c11_minimum_limit": fam[1], "unit": rep_case(fam, 3)[0].decode()})
    ctx.assume("the assembler, the kernel's wait status and /proc/<pid>/maps are trusted")
    ctx.assume("inputs further than the stated deviations from the seed corpus are not explored; rejection of valid "
               "programs is judged only for the valid seeds (no verdict from gcc on edited programs)")
    ctx.assume("a diagnostic on line (last line + 1) is accepted as 'existing': chibicc places its EOF token there")
    ctx.assume("RLIMIT_AS 2 GB / CPU 5 s per run; a first-pass timeout counts only if it persists with 10x limits; a death at "
               "the memory limit is `memory-exhausted` only if the smallest inputs of its class exhaust 2x the memory too")
    ctx.assume("after %d timeouts / memory exhaustions inside one work item its remaining cases run with %d s / %d MB; cases "
               "that hit those limits get no verdict (resource_cases_not_judged)" % (HEAVY_MAX, SCREEN_CPU_S, SCREEN_MEM_MB))
    ctx.assume("grid units: atomic read-modify-write on objects that are not scalars of 1, 2, 4 or 8 bytes lies outside the "
               "supported language (a located diagnostic is accepted there)")
    fam = dict(GRID_FAMILIES)["call_shapes"](tier)
    ctx.sample({"family": "call_shapes", "case": fam[len(fam) // 2][0], "unit": fam[len(fam) // 2][1]})
    ctx.assume("repetition units beyond the C11 5.2.4.1 minimum translation limit of the repeated construct may be "
               "rejected (with a located diagnostic); inside the limit a rejection counts only when gcc accepts the unit")


if __name__ == "__main__":
    if len(sys.argv) == 5 and sys.argv[1] == "--replay-case":
        sys.exit(replay_case(os.path.abspath(sys.argv[2]), sys.argv[3], sys.argv[4]))
    print("usage: c13.py --replay-case <dir> <chibicc> <tree>")
    sys.exit(2)
