/* C03 (b): generic driver.  The generated unit defines FN(stab)[] (long f(long sel)) and FN(nstab); selectors and the
 * model's expected results come from the binary file argv[1]: n, then per case: nsel, sel[nsel], want[nsel] (longs). */
#include <stdio.h>
#include <stdlib.h>
#include <setjmp.h>
#include <signal.h>
extern long (*cc_stab[])(long), (*ref_stab[])(long);
extern int cc_nstab, ref_nstab;
static sigjmp_buf jb; static volatile int in_cc;
static void on_sig(int s) { if (in_cc) siglongjmp(jb, s); _exit(70); }
int main(int argc, char **argv) {
  FILE *f = fopen(argc > 1 ? argv[1] : "table.bin", "rb");
  long n, evals = 0, judged = 0, odis = 0, nontrivial = 0;
  if (!f || fread(&n, sizeof n, 1, f) != 1 || n != cc_nstab || n != ref_nstab) { fprintf(stderr, "table mismatch\n"); return 72; }
  signal(SIGSEGV, on_sig); signal(SIGBUS, on_sig); signal(SIGILL, on_sig); signal(SIGFPE, on_sig);
  for (long i = 0; i < n; i++) {
    long ns;
    if (fread(&ns, sizeof ns, 1, f) != 1 || ns > 4096) return 72;
    long *sel = malloc(sizeof(long) * 2 * ns), *want = sel + ns;
    if (fread(sel, sizeof(long), 2 * ns, f) != (size_t)(2 * ns)) return 72;
    long nbad = 0; int distinct = 0;
    for (long k = 0; k < ns; k++) {
      evals++;
      long r = ref_stab[i](sel[k]);
      if (r != want[k]) { odis++; printf("O %ld sel=%ld model=%ld ref=%ld\n", i, sel[k], want[k], r); continue; }
      judged++;
      if (want[k] != want[0]) distinct = 1;
      long c; int sg;
      if ((sg = sigsetjmp(jb, 1)) == 0) { in_cc = 1; c = cc_stab[i](sel[k]); in_cc = 0; }
      else { in_cc = 0; if (nbad++ < 1) printf("V %ld sel=%ld want=%ld got=signal\n", i, sel[k], want[k]); continue; }
      if (c != want[k] && nbad++ < 1) printf("V %ld sel=%ld want=%ld got=%ld\n", i, sel[k], want[k], c);
    }
    if (nbad) printf("N %ld %ld\n", i, nbad);
    nontrivial += distinct;
    free(sel);
  }
  printf("S evals=%ld judged=%ld odis=%ld nontrivial=%ld\n", evals, judged, odis, nontrivial);
  return 0;
}
