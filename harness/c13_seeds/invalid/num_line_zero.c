#line 0
int a = ;
