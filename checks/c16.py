"""C16 atomic read-modify-write operations are indivisible (linearizable) - stateless model checking of emitted code.

System under test: the instruction sequences `chibicc -S` emits for tiny bodies with one atomic operation each.
  rewriter   (here)              before every instruction with a memory operand: flag/register-preserving call of
                                 __vp_<kind><size> with the effective address in %r11; an unlocked cmpxchg is split
                                 into its architectural read / compare / write steps
  runtime    harness/c16_rt.[cS]  virtual threads = coroutines in one OS thread; an access is a scheduling point iff
                                 it touches the registered atomic object or lies outside the running thread's stack;
                                 DFS over ALL schedules with replay from the initial state, preemption bound b or
                                 unbounded; every 1000th schedule re-executed and compared event by event.
                                 Guard bytes (0xA5) directly before and after every atomic object and every
                                 expected-value object, in every storage, examined after every operation; bodies are
                                 entered through a trampoline that keeps the callee-saved registers and %rsp in static
                                 memory, compares them after the return and restores them; an instrumented write
                                 outside the thread's private memory and the objects of the program (all re-initialised
                                 for every run) stops the run before it executes
  oracle     (here)              in this order: unlocked RMW on the atomic object; a side-effecting operand not
                                 evaluated exactly once (C11 7.1.4, 6.5.16.2); modified guard bytes; callee-saved register
                                 not preserved; brute-force linearizability of each distinct call/return history
                                 (<= 6 operations) against a sequential specification written from C11 6.5.16.2, 6.5.2.4,
                                 6.5.3.1, 7.17.7 (final object value included), refined by the failure report of
                                 compare-exchange: a failed one must report a value the object can hold, a failed strong
                                 one never the expected value; a history the specification explains in which the
                                 expected-value object was stored into AFTER the successful lock cmpxchg of its
                                 compare-exchange (C11 7.17.7.4: read before the operation, written only on failure;
                                 the stub of a lock cmpxchg hands the accumulator to the runtime, which therefore knows
                                 the outcome at the instruction; every body names its expected-value object with
                                 vp_expected()); livelock; fault/hang/wild write of the code under test

Enumerated (every combination inside the stated bounds, no sampling):
  types      signed/unsigned 1, 2, 4, 8 byte integers, _Bool, int *, float, double                       (TYPES)
  lvalues    *p  g  s.m  p->m  a[i]  automatic object  member of an automatic struct                     (FORMS)
             (guards: the rest of the arena / two guard objects defined around g / the other members and the padding of
             the struct / the other array elements / two automatic char arrays around the automatic object)
  operations op= (+ - * / % & | ^ << >>; + - * / for floating types), pre/post ++/--, atomic_fetch_{add,sub,or,xor,and}
             [_explicit], atomic_exchange[_explicit] (operand converted by the body / long / int expression),
             atomic_flag_test_and_set[_explicit], atomic_compare_exchange_{strong,weak} (desired value converted by the
             body / int expression), a compare-exchange retry loop, a Treiber-stack push; the remaining macros of
             <stdatomic.h> with an object or value operand: atomic_load/store[_explicit], atomic_init,
             atomic_flag_clear[_explicit] (alone and mixed with read-modify-write operations)              (ops_for)
  operands   every operand POSITION of every operation - A: the expression designating the object (p of *p and p->m,
             i of a[i]); E: the address of the expected-value object; D: the value operand (right operand of op=,
             operand of fetch_*/exchange/store/init, desired value of compare_exchange) - filled with every operand
             KIND: a load from thread-private memory (default), an integer constant (D), the result of a
             chibicc-compiled helper with 1 / 5 / 7 integer parameters, of one with double+float parameters, of
             vp_clobber() (poisons every caller-saved GP and SSE register and the flags), an expression with two nested
             atomic operations on a private _Atomic long, and two kinds WITH A SIDE EFFECT: inc (`*q++`, `(q++)->m`,
             `a[i++]`, `q++` for the expected address, `a++` for the value) and cnt (a call that counts its
             invocations); the body reports the number of evaluations of each such operand, exactly one is required.
             quick: one position at a time and call5/clob/nest/inc/cnt in all positions at once on *p, clob/nest/inc/cnt
             designators on p->m and a[i]; thorough: the same on five lvalue forms with every kind in all positions at
             once, plus the full cross product of the pure kinds (7 x 7 x 8) and of the side-effecting kinds (3 x 3 x 4)
             on *p for one operation per family on int, long, int *, double                              (operand_keys)
  expected   storage of the expected-value object of every compare-exchange form: automatic object between two
             automatic char arrays (default, every program), member of an automatic struct between two members,
             element of an automatic array, last automatic object of the body, thread-private static memory; quick: on
             *p; thorough: on five lvalue forms and, on *p, crossed with every kind of the expected-address operand
                                                                                                          (STORAGES)
  shared     the expected-value object is SHARED, i.e. the successful compare-exchange hands it to other threads:
  expected   (a) Treiber push with the link field of the node being published as the expected-value object, weak-loop
             and strong spelling (and the spelling with a local one), against a thread that pops, pushes another node
             and pushes the popped node again (argument = result of the thread's previous operation): 2 threads x (1, 3)
             and (2, 3) operations, 3 threads x (1, 2, 1); one popping thread per program (no ABA of its own);
             linearizability judged on the stack contents;  (b) cas_sh / cas_wh: strong / weak compare-exchange on every
             type and lvalue form whose expected-value object lives in shared memory (vp_shared), against one or two
             `claim` operations that store into it once they read the desired value from the atomic object;
             specification state = (atomic object, expected-value object), both final values judged   (STACK_PUSHES, SHX_OPS)
  ++/--      _Bool objects (++ saturates, -- toggles: the value of b++ at 1 is 1), float at +-2^24 and double at
             +-2^53 (adding 1 rounds back: the value of x++ is the value the atomic step read, of ++x the value it
             wrote), besides the small values; += / -= at the same points                                  (values)
  sizes      objects of 3, 5, 6, 7, 12, 16 bytes (structures, long double): exchange, compare-exchange, and for long
             double op= and ++/--: compiled one by one; refused with a diagnostic = counted (no promise of atomicity),
             compiler dies (signal, internal error) = deviation, compiled = counted as unexplored; the same texts on
             4- and 8-byte structures and double must compile                                     (WIDE_TYPES)
  programs   1x2, 2x1, 2x2, 3x1 (3x2) threads x operations, all schedules or preemption-bounded (plan()); the second
             compare-exchange of a 1x2 program has a stale expected value, so the failure (write-back) path runs
             with every operand kind and every storage (vacuity guard: operand_kinds[*].schedules_with_failed_cas > 0)
  floating   values travel through the long interface in quarters and are chosen so that every result is an exact
             multiple of 0.25: the specification needs no rounding; compare-exchange compares representations.
             Representation forms (cas_sr, cas_wr, xchg_r, casloop_r): expected/desired/returned values are object
             representations - quiet NaNs with payloads of both signs (bit-identical NaN must be exchanged, a retry
             loop on a NaN must terminate), -0.0 against +0.0 (must fail and report -0.0)                  (RAW_OPS)
Signature: C16|<op family>[/float]|<lvalue form>[;<operand positions filled with a non-default kind, S = non-default
           storage of the expected-value object>]|<deviation class>   (lvalue form = "anyform" for the deviation class
           expected-object-written-after-successful-compare-exchange, which does not depend on it)
"""
import json, os, re, struct, sys, itertools

if __name__ == "__main__":
    sys.path.insert(0, os.path.dirname(os.path.dirname(os.path.abspath(__file__))))
from vlib import core

LEVEL = "model_checking"
# VERIF_C16_BUDGET_SCALE stretches the deadlines on a machine shared with many other jobs (the enumeration is the same)
_SCALE = float(os.environ.get("VERIF_C16_BUDGET_SCALE", "1") or 1)
BUDGET = {"quick": int(900 * _SCALE), "thorough": int(6000 * _SCALE)}   # deadlines, not expected times
HARNESS = os.path.join(core.VERIF, "harness")

# =====================================================================================================
# 1. alphabet: types, lvalue forms, operations
# =====================================================================================================
#        name  C type            bytes signed kind
TYPES = [("i1", "signed char", 1, True, "int"), ("u1", "unsigned char", 1, False, "int"),
         ("i2", "short", 2, True, "int"), ("u2", "unsigned short", 2, False, "int"),
         ("i4", "int", 4, True, "int"), ("u4", "unsigned int", 4, False, "int"),
         ("i8", "long", 8, True, "int"), ("u8", "unsigned long", 8, False, "int"),
         ("b1", "_Bool", 1, False, "bool"), ("p8", "int *", 8, False, "ptr"),
         ("f4", "float", 4, True, "flt"), ("f8", "double", 8, True, "flt")]
TINFO = {t[0]: t for t in TYPES}
PTR_SCALE = 4
FLT_SCALE = 4           # floating values travel through the long interface in quarters: FROM(a) = (T)a / 4

FORMS = ["deref", "global", "gmember", "pmember", "aindex"]      # *p   g   s.m   p->m   a[i]
AUTO_FORMS = ["auto", "automember"]                              # object in the automatic storage of a parent thread

COMPOUND = {"add": "+", "sub": "-", "mul": "*", "div": "/", "mod": "%", "and": "&", "or": "|", "xor": "^",
            "shl": "<<", "shr": ">>"}
FETCH = ["add", "sub", "or", "xor", "and"]


FLT_OPS = ["add", "sub", "mul", "div", "preinc", "postinc", "predec", "postdec", "xchg", "xchg_x", "xchg_i",
           "cas_s", "cas_w", "cas_i", "casloop"]
# floating objects, values handed over and returned as object REPRESENTATIONS (NaN payloads, negative zero):
RAW_OPS = ["cas_sr", "cas_wr", "xchg_r", "casloop_r"]
RAW_AS = {"cas_sr": "cas_s", "cas_wr": "cas_w", "xchg_r": "xchg", "casloop_r": "xchg"}   # sequential specification
# the macros of <stdatomic.h> that are not read-modify-write operations but have object / value operands
PLAIN_OPS = ["load", "load_x", "store", "store_x", "init"]
CAS_OPS = ("cas_s", "cas_w", "cas_i", "cas_sr", "cas_wr")
# compare-exchange whose expected-value object lives in SHARED memory (vp_shared) and is handed over by the successful
# compare-exchange: the partner operation `claim` writes it as soon as it reads the desired value from the atomic object
SHX_OPS = ["cas_sh", "cas_wh"]
LATE_STORE = "expected-object-written-after-successful-compare-exchange"
FILL_RAW = 0xA5A5A5A5A5A5A5A5                                       # contents of the shared expected-value object before any operation
# Treiber stack: push with a local expected-value object / with the link field of the node being published as the
# expected-value object, weak loop and strong spelling; pop (one popping thread per program: no ABA)
STACK_PUSHES = ["push", "pushn", "pushs"]


def ops_for(tn):
    kind = TINFO[tn][4]
    if kind == "bool":
        return (["and", "or", "xor", "add", "sub", "preinc", "postinc", "predec", "postdec", "xchg", "xchg_x", "cas_s", "cas_w",
                 "tas", "tas_x", "clear", "clear_x"] + PLAIN_OPS)
    if kind == "ptr":
        return ["add", "sub", "preinc", "postinc", "predec", "postdec", "xchg", "xchg_x", "cas_s", "cas_w", "casloop"] + PLAIN_OPS
    if kind == "flt":
        return list(FLT_OPS) + RAW_OPS + PLAIN_OPS
    return (list(COMPOUND) + PLAIN_OPS + ["preinc", "postinc", "predec", "postdec"] + ["f" + f for f in FETCH] +
            ["f" + f + "_x" for f in FETCH] + ["xchg", "xchg_x", "xchg_l", "cas_s", "cas_w", "casloop"] +
            (["xchg_i", "cas_i"] if TINFO[tn][2] == 8 else []))


def family(op):
    if op in COMPOUND:
        return "compound"
    if op in ("preinc", "postinc", "predec", "postdec"):
        return "incdec"
    if op in ("xchg_i", "cas_i"):                                 # operand of type int, converted by the operation
        return "exchange-int-operand" if op == "xchg_i" else "cas-int-operand"
    if op in RAW_OPS:
        return {"cas_sr": "cas", "cas_wr": "cas", "xchg_r": "exchange", "casloop_r": "casloop"}[op] + "-representation"
    if op in PLAIN_OPS or op in ("clear", "clear_x"):
        return "load" if op.startswith("load") else "store"
    if op.startswith("f"):
        return "fetch"
    if op.startswith("xchg") or op in ("tas", "tas_x"):
        return "exchange"
    if op in SHX_OPS:
        return "cas-shared-expected"
    if op.startswith("cas_"):
        return "cas"
    return op                                                     # casloop, push


# ---- operand dimension -------------------------------------------------------------------------------
# Every operation has up to three operand positions:
#   A  the expression that designates the object (pointer p of *p and p->m, index i of a[i])
#   E  the address of the expected-value object (compare_exchange strong/weak, CAS loop)
#   D  the value operand (right operand of op=, operand of fetch_*/exchange/store/init, desired value of compare_exchange)
# and every position is filled with an operand kind:
#   priv   (default) a load from thread-private memory: the parameters p and a, the address of a local
#   const  (D only)  an integer constant expression
#   call1/call5/call7  result of a chibicc-compiled helper with 1/5/7 integer parameters (5: the fifth argument is a
#          pointer to private scratch memory; 7: one argument travels on the stack)
#   callf  result of a chibicc-compiled helper with double and float parameters (SSE argument registers)
#   clob   result of vp_clobber() (harness/c16_rt.S): returns its argument, poisons EVERY caller-saved GP and SSE
#          register and RFLAGS, as the psABI allows any callee to do
#   nest   an expression with two nested atomic operations (atomic_fetch_add then atomic_fetch_sub, i.e. two inner
#          compare-exchange loops) on a thread-private _Atomic long
#   inc    an expression with a SIDE EFFECT on a private object: A: `*q++`, `(q++)->m`, `a[i++]`; E: `q++` (q points to
#          the expected-value object); D: `a++`
#   cnt    the result of hc(&n, x), a helper that counts its invocations in the private counter n
# The side-effecting kinds carry a second oracle: C11 7.1.4 - a library function implemented as a macro evaluates each
# argument exactly once (and 6.5.16.2/6.5.2.4/6.5.3.1: the operand of op=, ++, -- is evaluated once).  The body hands
# the number of evaluations of every such operand to the runtime (vp_body_end); a number other than 1 is a deviation
# of its own.  They are not combined with the retry loops written in the body (casloop), whose operands are
# evaluated once per iteration by construction.
# All helpers touch only private memory, so they add no scheduling points; each wrapper returns the wrapped value
# unchanged, so the sequential specification of the operation is the same for every kind.
PURE_KINDS = ["call1", "call5", "call7", "callf", "clob", "nest"]
SIDE_KINDS = ["inc", "cnt"]
KINDS = PURE_KINDS + SIDE_KINDS
POSITIONS = "AED"
A_FORMS = ("deref", "pmember", "aindex")                          # forms whose designator has a sub-expression
# S: the storage of the expected-value object.  Guard bytes lie directly before and after it in every storage; they
# are checked by the runtime when the body ends (G= of the history).
#   local   (default) automatic object declared between two automatic char arrays
#   member  member of an automatic struct, between two other members
#   elem    element 1 of an automatic array of 3
#   last    the last automatic object the body declares (chibicc puts it next to the saved frame pointer; the runtime
#           checks the callee-saved registers and %rsp after every body: R= of the history)
#   static  thread-private static memory handed out by the runtime (vp_static)
STORAGES = ["member", "elem", "last", "static"]
ARRAY_LEN = 6                                                      # a[1] is the object; a[i++] evaluated 3 times stays inside

HELPERS = """static L h1(L a) { return a; }
static L h5(L a, L b, L c, L d, L e) { return a + b + c + d - 6 + (e == 0); }
static L h7(L a, L b, L c, L d, L e, L f, L g) { return a + b + c + d + e + f + g - 21; }
static L hf(L a, double x, float y, double z) { return a + (L)(x + y + z) - 7; }
static L hc(L *n, L x) { ++*n; return x; }
L vp_clobber(L);
"""


def ok_parse(okey):
    return dict(x.split("=") for x in okey.split(",") if x)


def ok_key(ok):
    return ",".join("%s=%s" % (pos, ok[pos]) for pos in POSITIONS + "S" if ok.get(pos, "priv") not in ("priv", "local"))


def has_expected(op):
    return op in CAS_OPS or op in ("casloop", "casloop_r")          # (SHX_OPS: the storage is fixed - shared memory)


def positions(op, form):
    """operand positions that exist for (op, form)"""
    pos = ""
    if form in A_FORMS:
        pos += "A"
    if op in RAW_OPS:                                             # representations travel through memory, not operands
        return pos
    if op in ("cas_s", "cas_w", "cas_i", "casloop"):
        pos += "E"
    if family(op) != "incdec" and op not in ("tas", "tas_x", "load", "load_x", "clear", "clear_x"):
        pos += "D"
    return pos


def key_allowed(op, form, okey):
    ok = ok_parse(okey)
    for pos, kind in ok.items():
        if pos == "S":
            if not has_expected(op) or kind not in STORAGES:
                return False
            if kind == "last" and ok.get("E", "priv") != "priv":
                return False                                      # the operand kinds declare objects of their own
        elif pos not in positions(op, form):
            return False
        elif kind in SIDE_KINDS and op in ("casloop", "casloop_r"):
            return False
    return True


def kind_wrap(kind, pos, x):
    """-> (declarations, expression of type long with the value of the long expression x)"""
    if kind == "priv":
        return "", x
    if kind == "call1":
        return "", "h1(%s)" % x
    if kind == "call5":
        return "L scr%s[2]; " % pos, "h5(%s, 1, 2, 3, (L)scr%s)" % (x, pos)
    if kind == "call7":
        return "", "h7(%s, 1, 2, 3, 4, 5, 6)" % x
    if kind == "callf":
        return "", "hf(%s, 1.5, 2.5f, 3.5)" % x
    if kind == "clob":
        return "", "vp_clobber(%s)" % x
    if kind == "nest":
        return "_Atomic L nv%s = 1000; " % pos, "(%s + (atomic_fetch_add(&nv%s, 3), atomic_fetch_sub(&nv%s, 3)) - 1003)" % (x, pos, pos)
    if kind == "cnt":
        return "L n%s = 0; " % pos, "hc(&n%s, %s)" % (pos, x)
    raise core.HarnessError("unknown operand kind " + kind)


AUTO_DECL = {"auto": "char go0[8]; _Atomic T_%(tn)s x; char go1[8]; vp_guard(5, go0, 8, &x, 0); vp_guard(6, go1, 8, &x, 0); "
                     "vp_auto_begin(&x, sizeof x); ",
             "automember": "struct S_%(tn)s s; vp_guard(4, &s, sizeof s, &s.m, sizeof s.m); vp_auto_begin(&s.m, sizeof s.m); "}


def lvalue(tn, form, akind="priv"):
    """-> (declarations inside the body, lvalue expression, expression counting the evaluations of the designator or None)"""
    if akind != "priv" and form not in A_FORMS:
        raise core.HarnessError("form %s has no designator operand" % form)
    if akind == "inc":
        return {"deref": ("_Atomic T_%s *qA = p; " % tn, "(*qA++)", "(qA - (_Atomic T_%s *)p)" % tn),
                "pmember": ("struct S_%s *qA = p; " % tn, "(qA++)->m", "(qA - (struct S_%s *)p)" % tn),
                "aindex": ("int iA = 1; ", "ga_%s[iA++]" % tn, "(iA - 1)")}[form]
    cnt = "nA" if akind == "cnt" else None
    d, pa = kind_wrap(akind, "A", "(L)p")
    if akind != "priv":
        pa = "(void *)" + pa
    else:
        pa = "p"
    if form == "aindex":
        if akind == "priv":
            return "int i = 1; ", "ga_%s[i]" % tn, None
        d, ia = kind_wrap(akind, "A", "1L")
        return d, "ga_%s[%s]" % (tn, ia), cnt
    if form in AUTO_DECL:
        return AUTO_DECL[form] % {"tn": tn}, "x" if form == "auto" else "s.m", None
    return {"deref": (d, "(*(_Atomic T_%s *)%s)" % (tn, pa), cnt),
            "global": ("", "g_%s" % tn, None),
            "gmember": ("", "gs_%s.m" % tn, None),
            "pmember": (d, "((struct S_%s *)%s)->m" % (tn, pa), cnt)}[form]


def expected_object(T, storage, var):
    """-> (declarations incl. registration of the guard bytes and of the object itself, lvalue of the expected-value
    object, its address)"""
    d, lv, addr = expected_object0(T, storage, var)
    return d + "vp_expected(%s, sizeof(%s)); " % (addr, T), lv, addr


def expected_object0(T, storage, var):
    if storage == "local":
        return ("char ge0[8]; %s %s; char ge1[8]; vp_guard(2, ge0, 8, &%s, 0); vp_guard(3, ge1, 8, &%s, 0); " % (T, var, var, var),
                var, "&" + var)
    if storage == "member":
        return ("struct { char g0[8]; %s x; char g1[8]; } sx; vp_guard(1, &sx, sizeof sx, &sx.x, sizeof sx.x); " % T,
                "sx.x", "&sx.x")
    if storage == "elem":
        return "%s ax[3]; vp_guard(1, ax, sizeof ax, &ax[1], sizeof ax[1]); " % T, "ax[1]", "&ax[1]"
    if storage == "last":
        return "char ge0[8]; %s %s; vp_guard(2, ge0, 8, &%s, 0); " % (T, var, var), var, "&" + var
    if storage == "static":
        return "%s *px = vp_static(sizeof(%s)); " % (T, T), "(*px)", "px"
    raise core.HarnessError("unknown storage " + storage)


def literal(v):
    v = s64(v)
    return "(%dL)" % v if v > -(1 << 63) else "(-9223372036854775807L - 1)"


def body_name(tn, form, op, okey="", const=None):
    n = "f_%s_%s_%s" % (op, tn, form)
    if okey:
        n += "__" + okey.replace("=", "").replace(",", "_")
    if const is not None:                                         # the constant is part of the body's identity
        n += "_c%s" % str(s64(const)).replace("-", "m")
    return n


def body_text(tn, form, op, okey="", const=None):
    """C text of one body:  long f(void *p, long a, long *e).  okey: operand kinds of the positions that are not
    'priv' and the storage of the expected-value object ("A=call5,D=nest,S=member"); const = the constant (a long)
    for D=const."""
    kind = TINFO[tn][4]
    T = "T_%s" % tn
    ok = ok_parse(okey)
    if not key_allowed(op, form, okey):
        raise core.HarnessError("%s/%s does not take the operand key %s" % (op, form, okey))
    decl, lv, cntA = lvalue(tn, form, ok.get("A", "priv"))
    cntE = cntD = None
    dkind = ok.get("D", "priv")
    if dkind == "const":
        aexpr = literal(const)
    elif dkind == "inc":
        decl += "L a0 = a; "
        aexpr, cntD = "a++", "(a - a0)"
    else:
        d, aexpr = kind_wrap(dkind, "D", "a")
        decl += d
        cntD = "nD" if dkind == "cnt" else None
    conv = "FROM(%s)" % aexpr                                      # the operand converted to T by the body
    rhs = aexpr if kind == "ptr" else conv                         # pointer +/- integer
    pre = ""
    guarded = form in AUTO_FORMS

    def eaddr(addr):
        """the expected-address operand for the address expression addr -> (declarations, operand, count expression)"""
        ek = ok.get("E", "priv")
        if ek == "priv":
            return "", addr, None
        if ek == "inc":
            return "%s *qE = %s; " % (T, addr), "qE++", "(qE - (%s))" % addr
        d, x = kind_wrap(ek, "E", "(L)" + addr)
        return d, "(%s *)%s" % (T, x), ("nE" if ek == "cnt" else None)
    X = "memory_order_seq_cst"
    if op in COMPOUND:
        expr = "TO(%s %s= %s)" % (lv, COMPOUND[op], rhs)
    elif op in ("preinc", "predec"):
        expr = "TO(%s%s)" % ("++" if op == "preinc" else "--", lv)
    elif op in ("postinc", "postdec"):
        expr = "TO(%s%s)" % (lv, "++" if op == "postinc" else "--")
    elif op in ("xchg", "xchg_x", "xchg_l", "xchg_i"):
        if op == "xchg":
            expr = "TO(atomic_exchange(&%s, %s))" % (lv, conv)
        elif op == "xchg_l":
            expr = "TO(atomic_exchange(&%s, %s))" % (lv, aexpr)
        elif op == "xchg_i":
            expr = "TO(atomic_exchange(&%s, (int)%s + 0))" % (lv, aexpr)
        else:
            expr = "TO(atomic_exchange_explicit(&%s, %s, %s))" % (lv, conv, X)
    elif op == "tas":
        expr = "TO(atomic_flag_test_and_set(&%s))" % lv
    elif op == "tas_x":
        expr = "TO(atomic_flag_test_and_set_explicit(&%s, %s))" % (lv, X)
    elif op in ("load", "load_x"):
        expr = "TO(atomic_load(&%s))" % lv if op == "load" else "TO(atomic_load_explicit(&%s, %s))" % (lv, X)
    elif op in ("store", "store_x", "init", "clear", "clear_x"):
        pre = {"store": "atomic_store(&%s, %s); " % (lv, conv), "store_x": "atomic_store_explicit(&%s, %s, %s); " % (lv, conv, X),
               "init": "atomic_init(&%s, %s); " % (lv, conv), "clear": "atomic_flag_clear(&%s); " % lv,
               "clear_x": "atomic_flag_clear_explicit(&%s, %s); " % (lv, X)}[op]
        expr = "0L"
    elif op in ("cas_s", "cas_w", "cas_i"):
        sd, xl, xa = expected_object(T, ok.get("S", "local"), "xx")
        d, ea, cntE = eaddr(xa)
        pre = "L rr; %s%s = FROM(*e); %srr = atomic_compare_exchange_%s(&%s, %s, %s); *e = TO(%s); " % (
            sd, xl, d, "weak" if op == "cas_w" else "strong", lv, ea, "(int)%s + 0" % aexpr if op == "cas_i" else conv, xl)
        expr = "rr"
        guarded = True
    elif op in ("cas_sr", "cas_wr"):
        # the expected and the desired value are object representations (low bytes of *e and of a): no conversion
        sd, xl, xa = expected_object(T, ok.get("S", "local"), "xx")
        pre = ("L rr; L o = 0; %s dd = *(%s *)&a; %s%s = *(%s *)e; rr = atomic_compare_exchange_%s(&%s, %s, dd); *(%s *)&o = %s; *e = o; "
               % (T, T, sd, xl, T, "weak" if op == "cas_wr" else "strong", lv, xa, T, xl))
        expr = "rr"
        guarded = True
    elif op == "xchg_r":
        pre = "L o = 0; %s dd = *(%s *)&a; %s ov = atomic_exchange(&%s, dd); *(%s *)&o = ov; " % (T, T, T, lv, T)
        expr = "o"
    elif op == "casloop_r":
        # exchange written as a compare-exchange loop: terminates only if equal representations compare equal
        sd, xl, xa = expected_object(T, ok.get("S", "local"), "old")
        pre = ("L o = 0; %s dd = *(%s *)&a; %s%s = %s; do { } while (!atomic_compare_exchange_weak(&%s, %s, dd)); *(%s *)&o = %s; "
               % (T, T, sd, xl, lv, lv, xa, T, xl))
        expr = "o"
        guarded = True
    elif op in SHX_OPS:
        # the expected-value object lives in shared memory; it belongs to this thread until the compare-exchange has
        # succeeded (C11 7.17.7.4: not written on success), afterwards to whoever reads the desired value from the
        # atomic object (operation claim): it is not read here after a success either
        pre = ("L rr; %s *px = vp_shared(sizeof(%s)); vp_expected(px, sizeof(%s)); *px = FROM(*e); "
               "rr = atomic_compare_exchange_%s(&%s, px, %s); if (!rr) *e = TO(*px); " % (T, T, T, "weak" if op == "cas_wh" else "strong", lv, conv))
        expr = "rr"
        guarded = True
    elif op == "claim":
        pre = "L rr = 0; %s *px = vp_shared(sizeof(%s)); if (atomic_load(&%s) == %s) { *px = FROM(*e); rr = 1; } " % (T, T, lv, conv)
        expr = "rr"
    elif op == "casloop":
        # the initial read is a separate expression: it always uses the plain designator
        sd, xl, xa = expected_object(T, ok.get("S", "local"), "old")
        d, ea, cntE = eaddr(xa)
        lv0 = lv if "A" not in ok else (lvalue(tn, form)[1] if form != "aindex" else "ga_%s[1]" % tn)
        if dkind == "priv":
            pre = "%s new; %s%s = %s; %sdo { new = %s + %s; } while (!atomic_compare_exchange_weak(&%s, %s, new)); " % (
                T, sd, xl, lv0, d, xl, rhs, lv, ea)
        else:                                                      # the desired value is computed inside the operand
            pre = "%s new; %s%s = %s; %sdo { } while (!atomic_compare_exchange_weak(&%s, %s, (new = %s + %s))); " % (
                T, sd, xl, lv0, d, lv, ea, xl, rhs)
        expr = "TO(new)"
        guarded = True
    elif op.startswith("f"):
        f = op[1:].split("_")[0]
        if op.endswith("_x"):
            expr = "TO(atomic_fetch_%s_explicit(&%s, %s, %s))" % (f, lv, rhs, X)
        else:
            expr = "TO(atomic_fetch_%s(&%s, %s))" % (f, lv, rhs)
    else:
        raise core.HarnessError("unknown op " + op)
    name = body_name(tn, form, op, okey, const)
    end = ""
    if guarded or cntA or cntE or cntD:
        end = "vp_body_end(%s, %s, %s); " % (cntA or "-1L", cntE or "-1L", cntD or "-1L")
    if form in AUTO_FORMS:
        end += "vp_auto_end(r, *e); "
    # r is declared first: with S=last the expected-value object is the last object the body declares
    return name, "L %s(void *p, L a, L *e) { L r; %s%sr = %s; %sreturn r; }\n" % (name, decl, pre, expr, end)


def info_text(tn, form):
    name = "info_%s_%s" % (tn, form)
    T = "T_%s" % tn
    extra = ""
    if form == "deref":
        rows = ("(char *)arena + 16", "sizeof(%s)" % T, "arena", "32", "(char *)arena + 16")
    elif form == "global":
        rows = ("&g_%s" % tn, "sizeof(%s)" % T, "&g_%s" % tn, "sizeof(%s)" % T, "arena")
        # the guard objects defined directly before and after the atomic object (what = 6: how many, 10+3k: address,
        # 11+3k: size, 12+3k: region tag of the runtime)
        extra = ("case 6: return 2; case 10: return (L)gpre_%s; case 11: return sizeof gpre_%s; case 12: return 5; "
                 "case 13: return (L)gpost_%s; case 14: return sizeof gpost_%s; case 15: return 6; " % (tn, tn, tn, tn))
    elif form == "gmember":
        rows = ("&gs_%s.m" % tn, "sizeof(%s)" % T, "&gs_%s" % tn, "sizeof gs_%s" % tn, "arena")
    elif form == "pmember":
        rows = ("&((struct S_%s *)arena)->m" % tn, "sizeof(%s)" % T, "arena", "sizeof(struct S_%s)" % tn, "arena")
    elif form == "aindex":
        rows = ("&ga_%s[1]" % tn, "sizeof(%s)" % T, "ga_%s" % tn, "sizeof ga_%s" % tn, "arena")
    else:
        raise core.HarnessError(form)
    return name, ("L %s(void *arena, L what) { switch (what) { case 0: return (L)(%s); case 1: return (L)(%s); "
                  "case 2: return (L)(%s); case 3: return (L)(%s); case 5: return (L)(%s); %s} return 0; }\n"
                  % ((name,) + rows + (extra,)))


PRELUDE = """#include <stdatomic.h>
typedef long L;
void vp_auto_begin(void *, long);
void vp_auto_end(long, long);
void vp_guard(long, void *, long, void *, long);
void *vp_static(long);
void vp_body_end(long, long, long);
void vp_expected(void *, long);
void *vp_shared(long);
"""

TREIBER = """struct node_t { struct node_t *next; long val; };
struct tstack { _Atomic(struct node_t *) top; struct node_t nodes[8]; };
L f_push_p8_treiber(void *p, L a, L *e) {
  struct tstack *s = p; struct node_t *n = &s->nodes[a]; n->val = a;
  char ge0[8]; struct node_t *old; char ge1[8]; vp_guard(2, ge0, 8, &old, 0); vp_guard(3, ge1, 8, &old, 0);
  vp_expected(&old, sizeof old);
  if (!a) return 0;
  old = s->top;
  do { n->next = old; } while (!atomic_compare_exchange_weak(&s->top, &old, n));
  vp_body_end(-1, -1, -1);
  return 0;
}
/* the usual spelling: the link field of the new node is the expected-value object.  A failed compare-exchange refreshes
   it; once the compare-exchange has succeeded the node is published and belongs to whoever pops it */
L f_pushn_p8_treiber(void *p, L a, L *e) {
  struct tstack *s = p; struct node_t *n = &s->nodes[a];
  if (!a) return 0;
  n->val = a;
  vp_expected(&n->next, sizeof n->next);
  n->next = atomic_load(&s->top);
  while (!atomic_compare_exchange_weak(&s->top, &n->next, n))
    ;
  return 0;
}
L f_pushs_p8_treiber(void *p, L a, L *e) {
  struct tstack *s = p; struct node_t *n = &s->nodes[a];
  if (!a) return 0;
  n->val = a;
  vp_expected(&n->next, sizeof n->next);
  for (;;) {
    n->next = atomic_load(&s->top);
    if (atomic_compare_exchange_strong(&s->top, &n->next, n))
      break;
  }
  return 0;
}
/* one thread per program pops: the top it has read cannot be popped and pushed again behind its back (no ABA) */
L f_pop_p8_treiber(void *p, L a, L *e) {
  struct tstack *s = p;
  char ge0[8]; struct node_t *old; char ge1[8]; vp_guard(2, ge0, 8, &old, 0); vp_guard(3, ge1, 8, &old, 0);
  vp_expected(&old, sizeof old);
  old = atomic_load(&s->top);
  while (old && !atomic_compare_exchange_weak(&s->top, &old, old->next))
    ;
  vp_body_end(-1, -1, -1);
  return old ? old->val : 0;
}
L info_p8_treiber(void *arena, L what) {
  struct tstack *s = arena;
  switch (what) {
  case 0: return (L)&s->top; case 1: return 8; case 2: return (L)&s->top; case 3: return 8; case 5: return (L)arena;
  case 4: { L v = 0; int k = 0; for (struct node_t *n = s->top; n && k < 9; n = n->next, k++) v = v * 16 + n->val; return v; }
  }
  return 0;
}
"""


TREIBER_BODIES = ["f_push_p8_treiber", "f_pushn_p8_treiber", "f_pushs_p8_treiber", "f_pop_p8_treiber"]


def conv_macros(tn):
    kind = TINFO[tn][4]
    if kind == "flt":
        return "#define FROM(x) ((T_%s)(x) / %d)\n#define TO(x) ((L)((x) * %d))\n" % (tn, FLT_SCALE, FLT_SCALE)
    return "#define FROM(x) ((T_%s)(x))\n#define TO(x) ((L)(x))\n" % tn


def spec_of(o):
    return (o["form"], o["op"], o["ok"], o["const"])


def specs_of_programs(progs):
    """{type: ordered list of body specs the programs need}"""
    res, seen = {}, {}
    for p in progs:
        for th in p["threads"]:
            for o in th:
                if o["form"] == "treiber" or p.get("selftest"):
                    continue
                key = (p["type"], o["fn"])
                if key in seen:
                    if seen[key] != spec_of(o):
                        raise core.HarnessError("two different bodies share the name %s" % o["fn"])
                    continue
                seen[key] = spec_of(o)
                res.setdefault(p["type"], []).append(spec_of(o))
    return res


UNIT_BODIES = 400


def make_units(progs, exclude=()):
    """-> ({unit key: (src, names, infos)}, {unit key: (type, specs, chunk)})"""
    units, uspecs = {}, {}
    for tn, specs in specs_of_programs(progs).items():
        for c in range(0, max(1, len(specs)), UNIT_BODIES):
            key = "%s_%d" % (tn, c // UNIT_BODIES)
            uspecs[key] = (tn, specs[c:c + UNIT_BODIES], c // UNIT_BODIES)
            units[key] = unit_source(tn, specs[c:c + UNIT_BODIES], exclude=exclude, chunk=c // UNIT_BODIES)
    if "p8_0" not in units:
        uspecs["p8_0"] = ("p8", [], 0)
        units["p8_0"] = unit_source("p8", [], exclude=exclude)
    return units, uspecs


def default_specs(tn, forms=None, ops=None):
    forms = FORMS + AUTO_FORMS if forms is None else forms
    ops = ops_for(tn) if ops is None else ops
    return [(form, op, "", None) for form in forms for op in ops]


def unit_source(tn, specs=None, treiber=None, exclude=(), chunk=0):
    """One translation unit (several per type: chunk 0 defines the global objects and the info functions, the others
    declare them).  specs: [(form, op, operand key, const)] -> (text, [body names], [(info name, has_fin)])"""
    specs = default_specs(tn) if specs is None else specs
    T = "T_%s" % tn
    out = [PRELUDE, "typedef %s %s;\n" % (TINFO[tn][1], T), conv_macros(tn), HELPERS,
           "struct S_%s { char pad; _Atomic %s m; char tail; };\n" % (tn, T),
           # initialised definitions (no common symbols): emitted in this order, the guards adjoin the object
           ("extern char gpre_%s[8]; extern _Atomic %s g_%s; extern char gpost_%s[8];\nextern struct S_%s gs_%s;\n"
            "extern _Atomic %s ga_%s[%d];\n" if chunk else
            "char gpre_%s[8] = {1}; _Atomic %s g_%s = 0; char gpost_%s[8] = {1};\nstruct S_%s gs_%s = {1};\n"
            "_Atomic %s ga_%s[%d] = {0};\n") % (tn, T, tn, tn, tn, tn, T, tn, ARRAY_LEN)]
    opnames, infos, seen = [], [], set()
    for form in FORMS:
        if chunk == 0:
            n, t = info_text(tn, form)
            out.append(t)
            infos.append((n, 0))
    for form, op, okey, const in specs:
        n, t = body_text(tn, form, op, okey, const)
        if n in exclude or n in seen:
            continue
        seen.add(n)
        out.append(t)
        opnames.append(n)
    if (treiber if treiber is not None else (tn == "p8" and chunk == 0)) and "f_push_p8_treiber" not in exclude:
        out.append(TREIBER)
        opnames += TREIBER_BODIES
        infos.append(("info_p8_treiber", 1))
    return "".join(out), opnames, infos


# =====================================================================================================
# 2. rewriter
# =====================================================================================================
REG64 = "rax rbx rcx rdx rsi rdi rbp rsp r8 r9 r10 r11 r12 r13 r14 r15".split()
REGSIZE = {}
for r in REG64:
    REGSIZE[r] = 8
for r in "eax ebx ecx edx esi edi ebp esp".split() + ["r%dd" % i for i in range(8, 16)]:
    REGSIZE[r] = 4
for r in "ax bx cx dx si di bp sp".split() + ["r%dw" % i for i in range(8, 16)]:
    REGSIZE[r] = 2
for r in "al bl cl dl ah bh ch dh sil dil bpl spl".split() + ["r%db" % i for i in range(8, 16)]:
    REGSIZE[r] = 1
R11 = {1: "%r11b", 2: "%r11w", 4: "%r11d", 8: "%r11"}
PREFIXES = {"lock", "rep", "repe", "repz", "repne", "repnz", "data16", "rex64", "notrack"}
SUFFIX = {"b": 1, "w": 2, "l": 4, "q": 8}

NOACCESS = {"lea", "nop", "prefetcht0", "prefetcht1", "prefetcht2", "prefetchnta", "clflush"}
MOVES = {"mov", "movabs", "movss", "movsd", "movaps", "movups", "movapd", "movupd", "movdqa", "movdqu", "movq", "movd",
         "movzx", "movsx", "movsxd", "movslq", "movzbl", "movzbw", "movzbq", "movzwl", "movzwq", "movsbl", "movsbw",
         "movsbq", "movswl", "movswq", "movzb", "movzw", "movsb", "movsw"}
FIXED_SIZE = {"movss": 4, "movsd": 8, "movaps": 16, "movups": 16, "movapd": 16, "movupd": 16, "movdqa": 16,
              "movdqu": 16, "movsxd": 4, "movslq": 4, "movzbl": 1, "movzbw": 1, "movzbq": 1, "movzb": 1, "movsbl": 1,
              "movsbw": 1, "movsbq": 1, "movzwl": 2, "movzwq": 2, "movzw": 2, "movswl": 2, "movswq": 2,
              "fldt": 10, "fstpt": 10, "flds": 4, "fstps": 4, "fsts": 4, "fldl": 8, "fstpl": 8, "fstl": 8,
              "ucomiss": 4, "ucomisd": 8, "comiss": 4, "comisd": 8, "addss": 4, "subss": 4, "mulss": 4, "divss": 4,
              "addsd": 8, "subsd": 8, "mulsd": 8, "divsd": 8, "cvtss2sd": 4, "cvtsd2ss": 8, "cvttss2si": 4,
              "cvttsd2si": 8, "cvttss2sil": 4, "cvttss2siq": 4, "cvttsd2sil": 8, "cvttsd2siq": 8,
              "xorps": 16, "xorpd": 16, "andps": 16, "andpd": 16}
READ_ONLY = {"cmp", "test", "ucomiss", "ucomisd", "comiss", "comisd", "fld", "fldt", "flds", "fldl", "fild", "filds",
             "fildl", "fildq", "fildll", "push", "mul", "imul", "div", "idiv", "addss", "subss", "mulss", "divss",
             "addsd", "subsd", "mulsd", "divsd", "xorps", "xorpd", "andps", "andpd", "cvtss2sd", "cvtsd2ss",
             "cvtsi2ss", "cvtsi2sd", "cvtsi2ssl", "cvtsi2ssq", "cvtsi2sdl", "cvtsi2sdq", "cvttss2si", "cvttsd2si",
             "cvttss2sil", "cvttss2siq", "cvttsd2sil", "cvttsd2siq", "fadd", "fsub", "fmul", "fdiv", "fadds", "faddl",
             "bt", "call", "jmp"}
WRITE_ONLY = {"fstp", "fstpt", "fstps", "fstpl", "fst", "fsts", "fstl", "fistp", "fistps", "fistpl", "fistpq",
              "fistpll", "fisttp", "pop", "fnstcw", "fstcw", "stmxcsr"} | {
    "set" + c for c in "e ne a ae b be g ge l le p np s ns o no z nz c nc".split()}
RMW_DST = {"add", "sub", "and", "or", "xor", "adc", "sbb", "inc", "dec", "neg", "not", "shl", "shr", "sar", "sal",
           "rol", "ror", "rcl", "rcr", "xadd", "bts", "btr", "btc", "shld", "shrd"}
CMOV = {"cmov" + c for c in "e ne a ae b be g ge l le p np s ns o no z nz c nc".split()}


def split_operands(s):
    out, depth, cur = [], 0, ""
    for c in s:
        if c == "(":
            depth += 1
        elif c == ")":
            depth -= 1
        if c == "," and depth == 0:
            out.append(cur.strip())
            cur = ""
        else:
            cur += c
    if cur.strip():
        out.append(cur.strip())
    return out


MEM_RE = re.compile(r"^\*?(?P<seg>%[a-z]s:)?(?P<disp>[^()]*)\((?P<inner>[^()]*)\)$")


def base_mnemonic(m, table):
    """strip an AT&T size suffix if that yields a known mnemonic -> (base, suffix size or 0)"""
    if m in table:
        return m, 0
    if len(m) > 1 and m[-1] in SUFFIX and m[:-1] in table:
        return m[:-1], SUFFIX[m[-1]]
    return None, 0


ALL_KNOWN = MOVES | READ_ONLY | WRITE_ONLY | RMW_DST | CMOV | {"xchg", "cmpxchg", "stos", "movs"} | set(FIXED_SIZE)


def classify(prefixes, mnem, ops):
    """-> list of (operand text, kind letter, size) for every memory operand that is accessed, or None if the
    instruction has no memory access.  kind 'x' = opaque (unknown mnemonic)."""
    if mnem in NOACCESS:
        return []
    # string instructions with implicit operands
    sb, _ = base_mnemonic(mnem, {"stos", "movs", "cmps", "scas", "lods"})
    if sb and (not ops or all("%es:" in o or "%ds:" in o or o in ("(%rdi)", "(%rsi)") for o in ops)) and \
            (mnem not in MOVES or not ops):
        rep = any(p.startswith("rep") for p in prefixes)
        sz = 0 if rep else SUFFIX.get(mnem[-1], 0)
        return {"stos": [("(%rdi)", "w", sz)], "movs": [("(%rsi)", "r", sz), ("(%rdi)", "w", sz)],
                "cmps": [("(%rsi)", "r", sz), ("(%rdi)", "r", sz)], "scas": [("(%rdi)", "r", sz)],
                "lods": [("(%rsi)", "r", sz)]}[sb]
    mems = [(i, o) for i, o in enumerate(ops) if MEM_RE.match(o)]
    if not mems:
        return []
    base, sfx = base_mnemonic(mnem, ALL_KNOWN)
    size = FIXED_SIZE.get(mnem, 0)
    if not size:
        for o in ops:
            if o.startswith("%") and o[1:] in REGSIZE and not MEM_RE.match(o):
                if base in ("shl", "shr", "sar", "sal", "rol", "ror", "rcl", "rcr", "shld", "shrd") and o == "%cl":
                    continue                        # shift count, says nothing about the operand width
                size = REGSIZE[o[1:]]
                break
    if not size:
        size = sfx
    if base in WRITE_ONLY and base.startswith("set"):
        size = 1
    if size not in (0, 1, 2, 4, 8, 10, 16):
        size = 0
    res = []
    locked = "lock" in prefixes
    for i, o in mems:
        last = i == len(ops) - 1
        if base is None:
            kind = "x"
        elif base == "xchg":
            kind = "l"
        elif base in MOVES or base in CMOV:
            kind = "w" if (last and len(ops) > 1 and base not in CMOV) else "r"
        elif base in READ_ONLY:
            kind = "r"
            if base in ("call", "jmp"):
                size = 8
        elif base in WRITE_ONLY:
            kind = "w"
        elif base in RMW_DST or base == "cmpxchg":
            if last:
                # k: lock cmpxchg - a locked RMW; its stub also hands the accumulator to the runtime
                kind = ("k" if base == "cmpxchg" and size in (1, 2, 4, 8) else "l") if locked else "u"
            else:
                kind = "r"
        else:
            kind = "x"
        if locked and kind not in ("l", "k"):
            kind = "l" if kind == "u" else kind
        res.append((o, kind, size))
    return res


def stub_call(operand, kind, size):
    m = MEM_RE.match(operand)
    disp, inner = m.group("disp").strip(), m.group("inner")
    regs = [r.strip() for r in inner.split(",")]
    if regs and regs[0] == "%rsp":
        # the stub sequence has moved %rsp down by 128 + 8 when the lea is executed
        try:
            d = int(disp, 0) if disp else 0
        except ValueError:
            return None
        disp = str(d + 136)
    if regs and regs[0] == "%rip":
        try:
            int(disp, 0)
            return None                     # numeric %rip displacement: position dependent, not modelled
        except ValueError:
            pass
    return ["  lea -128(%rsp), %rsp", "  push %r11", "  lea %s(%s), %%r11" % (disp, inner),
            "  call __vp_%s%d" % (kind, size), "  pop %r11", "  lea 128(%rsp), %rsp"]


def rewrite(asm):
    """Insert the stub calls.  -> (text, stats)"""
    out = []
    stats = {"instrumented": 0, "kinds": {}, "unknown_mnemonics": set(), "skipped": 0, "split_cmpxchg": 0, "got_loads": 0,
             "r11_uses": len(re.findall(r"%r11", asm))}
    pending = []
    for line in asm.split("\n"):
        s = line.strip()
        if not s or s.startswith(".") or s.startswith("#") or s.endswith(":") or re.match(r"^[\w.$]+:", s):
            out.append(line)
            continue
        toks = s.split(None, 1)
        prefixes = list(pending)
        pending = []
        while toks and toks[0] in PREFIXES:
            prefixes.append(toks[0])
            toks = toks[1].split(None, 1) if len(toks) > 1 else []
        if not toks:
            pending = prefixes
            out.append(line)
            continue
        mnem = toks[0]
        ops = split_operands(toks[1]) if len(toks) > 1 else []
        acc = classify(prefixes, mnem, ops)
        if not acc:
            out.append(line)
            continue
        if any("%r11" in o or MEM_RE.match(o).group("seg") for o, k, z in acc):
            stats["skipped"] += 1
            out.append(line)
            continue
        if len(acc) == 1 and "@GOTPCREL(%rip)" in acc[0][0] and acc[0][1] == "r":
            # load of a global offset table entry (address of an external function or object): a link-time constant,
            # not memory of the program - no access, no scheduling point
            stats["got_loads"] += 1
            out.append(line)
            continue
        base, _ = base_mnemonic(mnem, {"cmpxchg"})
        if base == "cmpxchg" and "lock" not in prefixes and len(ops) == 2 and ops[0].startswith("%") and \
                ops[0][1:] in REGSIZE and REGSIZE[ops[0][1:]] in R11:
            # architectural steps of an unlocked cmpxchg, with a scheduling point before the read and before the write
            sz = REGSIZE[ops[0][1:]]
            mem = ops[1]
            ax = {1: "%al", 2: "%ax", 4: "%eax", 8: "%rax"}[sz]
            c1, c2 = stub_call(mem, "c", sz), stub_call(mem, "d", sz)
            if c1 and c2:
                out += c1
                out += ["  mov %s, %s" % (mem, R11[sz]), "  cmp %s, %s" % (R11[sz], ax), "  jne 97f"]
                out += c2
                out += ["  mov %s, %s" % (ops[0], mem), "  jmp 98f", "97:", "  mov %s, %s" % (R11[sz], ax), "98:"]
                stats["split_cmpxchg"] += 1
                stats["instrumented"] += 1
                continue
        ok = True
        seqs = []
        for o, k, z in acc:
            c = stub_call(o, k, z)
            if c is None:
                ok = False
                break
            seqs += c
            stats["kinds"][k] = stats["kinds"].get(k, 0) + 1
            if k == "x":
                stats["unknown_mnemonics"].add(mnem)
        if not ok:
            stats["skipped"] += 1
            out.append(line)
            continue
        out += seqs
        out.append(line)
        stats["instrumented"] += 1
    stats["unknown_mnemonics"] = sorted(stats["unknown_mnemonics"])
    return "\n".join(out), stats


# Hand-written bodies that go through the same rewriter, runtime and oracle in every run: they prove that the
# detector fires (lost update, unlocked RMW, unlocked cmpxchg) and that correct code using other instructions or
# mnemonics outside the vocabulary passes.  All implement `*(int *)p += a` returning the new value.
SELFTEST_ASM = """
  .text
  .globl f_st_xadd
f_st_xadd:
  mov %esi, %eax
  lock xadd %eax, (%rdi)
  add %esi, %eax
  movslq %eax, %rax
  ret
  .globl f_st_opaque
f_st_opaque:
  prefetchw (%rdi)
  mov %esi, %eax
  lock xadd %eax, (%rdi)
  add %esi, %eax
  movslq %eax, %rax
  ret
  .globl f_st_plainrmw
f_st_plainrmw:
  add %esi, (%rdi)
  mov (%rdi), %eax
  movslq %eax, %rax
  ret
  .globl f_st_loadstore
f_st_loadstore:
  mov (%rdi), %eax
  add %esi, %eax
  mov %eax, (%rdi)
  movslq %eax, %rax
  ret
  .globl f_st_nolock
f_st_nolock:
  mov (%rdi), %eax
1:
  mov %eax, %edx
  add %esi, %edx
  cmpxchg %edx, (%rdi)
  jne 1b
  mov %edx, %eax
  movslq %eax, %rax
  ret
  .globl f_st_preserve
f_st_preserve:
  push %rbx
  mov $0x1111, %rax
  mov $0x2222, %rcx
  mov $0x3333, %rdx
  mov $0x4444, %r8
  mov $0x5555, %r9
  mov $0x7777, %rbx
  movq %rsi, %xmm3
  cmp %rax, %rax
  stc
  mov (%rdi), %r10d
  jnc 9f
  jne 9f
  cmp $0x1111, %rax
  jne 9f
  cmp $0x2222, %rcx
  jne 9f
  cmp $0x3333, %rdx
  jne 9f
  cmp $0x4444, %r8
  jne 9f
  cmp $0x5555, %r9
  jne 9f
  cmp $0x7777, %rbx
  jne 9f
  movq %xmm3, %rax
  cmp %rsi, %rax
  jne 9f
  mov %esi, %eax
  lock xadd %eax, (%rdi)
  add %esi, %eax
  movslq %eax, %rax
  pop %rbx
  ret
9:
  mov $-12345, %rax
  pop %rbx
  ret
  .globl f_st_guard
f_st_guard:
  push %rbx
  sub $32, %rsp
  mov %rdi, %rbx
  mov %rsi, 24(%rsp)
  mov $2, %edi
  lea 8(%rsp), %rsi
  mov $8, %edx
  xor %ecx, %ecx
  xor %r8d, %r8d
  call vp_guard
  movb $0, 9(%rsp)
  mov $-1, %rdi
  mov $-1, %rsi
  mov $-1, %rdx
  call vp_body_end
  mov 24(%rsp), %rsi
  mov %esi, %eax
  lock xadd %eax, (%rbx)
  add %esi, %eax
  movslq %eax, %rax
  add $32, %rsp
  pop %rbx
  ret
  .globl f_st_rbx
f_st_rbx:
  mov %esi, %eax
  lock xadd %eax, (%rdi)
  add %esi, %eax
  movslq %eax, %rax
  mov $0x1234, %rbx
  ret
  .globl f_st_evals
f_st_evals:
  push %rbx
  push %r12
  sub $8, %rsp
  mov %rdi, %rbx
  mov %rsi, %r12
  mov $2, %edi
  mov $-1, %rsi
  mov $-1, %rdx
  call vp_body_end
  mov %r12d, %eax
  lock xadd %eax, (%rbx)
  add %r12d, %eax
  movslq %eax, %rax
  add $8, %rsp
  pop %r12
  pop %rbx
  ret
  .globl f_st_objguard
f_st_objguard:
  mov %esi, %eax
  lock xadd %eax, (%rdi)
  add %esi, %eax
  movslq %eax, %rax
  movb $0, 4(%rdi)
  ret
  .globl f_st_latestore
f_st_latestore:
  push %rbx
  push %r12
  sub $24, %rsp
  mov %rdi, %rbx
  mov %rsi, %r12
  lea 8(%rsp), %rdi
  mov $4, %esi
  call vp_expected
  mov (%rbx), %eax
  mov %eax, 8(%rsp)
1:
  mov 8(%rsp), %eax
  mov %eax, %edx
  add %r12d, %edx
  lock cmpxchg %edx, (%rbx)
  mov %eax, 8(%rsp)
  jne 1b
  mov %edx, %eax
  movslq %eax, %rax
  add $24, %rsp
  pop %r12
  pop %rbx
  ret
  .section .note.GNU-stack,"",@progbits
"""
# f_st_latestore: a correct compare-exchange loop that stores the accumulator into its expected-value object after a success too
# f_st_preserve: registers, RFLAGS and SSE state survive a scheduling point (stub + coroutine switches)
# f_st_guard writes into a registered guard region of its frame, f_st_objguard into the byte after the atomic object,
# f_st_rbx returns with a changed callee-saved register, f_st_evals reports an operand evaluated twice
SELFTEST_EXPECT = {"f_st_guard": {"bytes-before-expected-object-modified"}, "f_st_rbx": {"callee-saved-rbx-not-preserved"},
                   "f_st_evals": {"operand-A-evaluated-2-times"}, "f_st_objguard": {"bytes-after-atomic-object-modified"},
                   "f_st_latestore": {LATE_STORE},
                   "f_st_preserve": {None}, "f_st_xadd": {None}, "f_st_opaque": {None}, "f_st_plainrmw": {"unlocked-rmw-on-atomic-object"},
                   "f_st_loadstore": {None, "not-linearizable"}, "f_st_nolock": {"unlocked-cmpxchg-on-atomic-object"}}


def selftest_programs():
    progs = []
    for fn in sorted(SELFTEST_EXPECT):
        for cfg in ("2x1", "2x2", "3x1"):
            n, k = CONFIGS[cfg]
            args = [[1, 8], [2, 16], [4, 32]]
            progs.append({"id": "selftest/%s/%s" % (fn, cfg), "type": "i4", "form": "deref", "op": "add", "cfg": cfg,
                          "variant": 0, "bound": -1, "obj": "info_i4_deref", "mode": 0, "init": 10, "partner": None,
                          "selftest": fn,
                          "ok": "",
                          "threads": [[{"op": "add", "fn": fn, "arg": args[t][i], "exp": 0, "form": "deref", "ok": "", "const": None}
                                       for i in range(k)] for t in range(n)]})
    return progs


# =====================================================================================================
# 3. building the explorer binary
# =====================================================================================================
def _build_unit(args):
    chibicc, include, wd, tn, src = args
    if tn == "selftest":
        asm = src
    else:
        c = os.path.join(wd, "u_%s.c" % tn)
        with open(c, "w") as f:
            f.write(src)
        st, o, e = core.run_limited([chibicc, "-S", "-I" + include, "-o", os.path.join(wd, "u_%s.s" % tn), c], cwd=wd, timeout=120)
        if st != 0:
            return tn, "cc-fail", (o + e)[-2000:], None
        asm = open(os.path.join(wd, "u_%s.s" % tn)).read()
    text, stats = rewrite(asm)
    rw = os.path.join(wd, "u_%s_rw.s" % tn)
    with open(rw, "w") as f:
        f.write(text + "\n")
    st, o, e = core.run_limited(["gcc", "-c", "-o", os.path.join(wd, "u_%s.o" % tn), rw], cwd=wd, timeout=300)
    if st != 0:
        return tn, "as-fail", (o + e)[-2000:], stats
    return tn, "ok", "", stats


def build_binary(chibicc, include, wd, units):
    """units: {tn: (src, opnames, infos)} -> (binary path, op index, obj index, rewriter stats)"""
    os.makedirs(wd, exist_ok=True)
    res = core.pmap(_build_unit, [(chibicc, include, wd, tn, units[tn][0]) for tn in sorted(units)])
    allstats = {}
    for tn, st, msg, stats in res:
        if st == "cc-fail":
            raise CompileFailure(tn, msg)
        if st != "ok":
            raise core.HarnessError("rewritten assembly of unit %s does not assemble: %s" % (tn, msg))
        allstats[tn] = stats
    ops, objs = [], []
    for tn in sorted(units):
        ops += units[tn][1]
        objs += units[tn][2]
    tab = ["typedef long (*body_fn)(void *, long, long *);\ntypedef long (*info_fn)(void *, long);\n",
           "struct vp_opdesc { const char *name; body_fn fn; };\n",
           "struct vp_objdesc { const char *name; info_fn info; int has_fin; };\n"]
    tab += ["long %s(void *, long, long *);\n" % n for n in ops]
    tab += ["long %s(void *, long);\n" % n for n, _ in objs]
    tab.append("struct vp_opdesc vp_ops[] = {\n" + "".join('  {"%s", %s},\n' % (n, n) for n in ops) + "  {0, 0}};\n")
    tab.append("struct vp_objdesc vp_objs[] = {\n" + "".join('  {"%s", %s, %d},\n' % (n, n, h) for n, h in objs) + "  {0, 0, 0}};\n")
    tab.append("int vp_nops = %d, vp_nobjs = %d;\n" % (len(ops), len(objs)))
    with open(os.path.join(wd, "table.c"), "w") as f:
        f.write("".join(tab))
    binary = os.path.join(wd, "c16_rt")
    core.sh(["gcc", "-O2", "-g0", "-mgeneral-regs-only", "-fno-stack-protector", "-no-pie", "-fno-pie", "-w",
             "-Wl,-z,noexecstack", "-o", binary, os.path.join(HARNESS, "c16_rt.c"), os.path.join(HARNESS, "c16_rt.S"),
             "table.c"] + ["u_%s.o" % tn for tn in sorted(units)], cwd=wd, check=True)
    return binary, {n: i for i, n in enumerate(ops)}, {n: i for i, (n, _) in enumerate(objs)}, allstats


class CompileFailure(Exception):
    def __init__(self, tn, msg):
        Exception.__init__(self, "%s: %s" % (tn, msg))
        self.tn, self.msg = tn, msg


# =====================================================================================================
# 4. sequential specification + linearizability
# =====================================================================================================
def f32_exact(v):
    return struct.unpack("<f", struct.pack("<f", v))[0] == v


def wrap(tn, v):
    """normalise a value of type T (the model's state domain: Python int, or float for the floating types)"""
    _, _, size, signed, kind = TINFO[tn]
    if kind == "bool":
        return 1 if v else 0
    if kind == "flt":
        v = float(v)
        if v != v or v in (float("inf"), float("-inf")) or (size == 4 and not f32_exact(v)) or (v * FLT_SCALE) != int(v * FLT_SCALE):
            raise core.HarnessError("floating value %r of a generated program is not exact in %s quarters" % (v, tn))
        return v
    bits = 8 * size
    v &= (1 << bits) - 1
    if signed and v >> (bits - 1):
        v -= 1 << bits
    return v


def from_long(tn, v):
    """FROM(v): the value of type T a body makes of the long v"""
    if TINFO[tn][4] == "flt":
        return wrap(tn, s64(v) / float(FLT_SCALE))
    return wrap(tn, v)


def from_int(tn, v):
    """the value of type T that the conversion of (int)v gives"""
    v = wrap("i4", v)
    return wrap(tn, float(v) if TINFO[tn][4] == "flt" else v)


def raw(tn, v):
    """object representation of the T value v as an unsigned integer"""
    size = TINFO[tn][2]
    if TINFO[tn][4] == "flt":
        return int.from_bytes(struct.pack("<f" if size == 4 else "<d", v), "little")
    return v & ((1 << (8 * size)) - 1)


def as_long(tn, v):
    """value of TO(v) for a v of type T, as a Python int in signed-64 range"""
    v = wrap(tn, v)
    if TINFO[tn][4] == "flt":
        return int(v * FLT_SCALE)
    if v >= 1 << 63:
        v -= 1 << 64
    return v


def cdiv(a, b):
    q = abs(a) // abs(b)
    return q if (a < 0) == (b < 0) else -q


def binop(tn, op, old, a):
    """old op a, both of type T already (for pointers a is the integer operand)"""
    kind = TINFO[tn][4]
    if kind == "ptr":
        return wrap(tn, old + PTR_SCALE * a if op == "add" else old - PTR_SCALE * a)
    if kind == "flt":
        r = {"add": old + a, "sub": old - a, "mul": old * a, "div": old / a if op == "div" else 0.0}[op]
        if op in ("add", "sub") and TINFO[tn][2] == 4:
            # the exact sum of two floats of these magnitudes is a double; one rounding to nearest-even gives the float
            # sum (2^24 + 1 -> 2^24).  For double, Python's own addition is the IEEE operation (2^53 + 1 -> 2^53).
            r = struct.unpack("<f", struct.pack("<f", r))[0]
        return wrap(tn, r)
    if op == "add":
        r = old + a
    elif op == "sub":
        r = old - a
    elif op == "mul":
        r = old * a
    elif op == "div":
        r = cdiv(old, a)
    elif op == "mod":
        r = old - cdiv(old, a) * a
    elif op == "and":
        r = old & a
    elif op == "or":
        r = old | a
    elif op == "xor":
        r = old ^ a
    elif op == "shl":
        r = old << a
    elif op == "shr":
        r = old >> a
    return wrap(tn, r)


def operand(tn, a):
    """the right operand as the bodies deliver it: FROM(a), except pointer +/- integer"""
    return s64(a) if TINFO[tn][4] == "ptr" else from_long(tn, a)


def apply_op(tn, op, state, a, exp, variant="c11"):
    """Sequential specification.  -> list of possible (new state, return value as long, expected-after as long).
    variant 'fetch-returns-new' models the known header defect so that it can be told apart from a genuine
    atomicity failure."""
    if op in STACK_PUSHES:
        return [(state + (a,) if a else state, 0, exp)]          # push(0): nothing was popped, nothing is pushed
    if op == "pop":
        return [(state[:-1], state[-1], exp)] if state else [(state, 0, exp)]
    if op in SHX_OPS:
        # state = (value of the atomic object, representation of the shared expected-value object).  The body stores
        # the expected value, compares, and on failure (only then) the object's value goes to the expected-value object
        obj, xr = state
        x = from_long(tn, exp)
        if raw(tn, obj) == raw(tn, x):
            res = [((from_long(tn, a), raw(tn, x)), 1, exp)]
            if op == "cas_wh":
                res.append(((obj, raw(tn, x)), 0, as_long(tn, x)))
            return res
        return [((obj, raw(tn, obj)), 0, as_long(tn, obj))]
    if op == "claim":
        obj, xr = state
        if obj == from_long(tn, a):
            return [((obj, raw(tn, from_long(tn, exp))), 1, exp)]
        return [(state, 0, exp)]
    op = RAW_AS.get(op, op)                                         # representation forms: tn is the integer type of that size
    if op in ("load", "load_x"):
        return [(state, as_long(tn, state), exp)]
    if op in ("store", "store_x", "init"):
        return [(from_long(tn, a), 0, exp)]
    if op in ("clear", "clear_x"):
        return [(0, 0, exp)]
    if op == "tas_x":
        op = "tas"
    one = 1.0 if TINFO[tn][4] == "flt" else 1
    if op in COMPOUND:
        n = binop(tn, op, state, operand(tn, a))
        return [(n, as_long(tn, n), exp)]
    if op in ("preinc", "predec", "postinc", "postdec"):
        n = binop(tn, "add" if op.endswith("inc") else "sub", state, one)
        return [(n, as_long(tn, n if op.startswith("pre") else state), exp)]
    if op == "casloop":
        n = binop(tn, "add", state, operand(tn, a))
        return [(n, as_long(tn, n), exp)]
    if op in ("xchg", "xchg_x", "xchg_l"):
        return [(from_long(tn, a), as_long(tn, state), exp)]
    if op == "xchg_i":
        return [(from_int(tn, a), as_long(tn, state), exp)]
    if op == "tas":
        return [(1, as_long(tn, state), exp)]
    if op in ("cas_s", "cas_w", "cas_i"):
        x = from_long(tn, exp)
        if raw(tn, state) == raw(tn, x):                       # C11 7.17.7.4: compared as by memcmp
            res = [(from_int(tn, a) if op == "cas_i" else from_long(tn, a), 1, as_long(tn, x))]
            if op == "cas_w":
                res.append((state, 0, as_long(tn, x)))          # C11 7.17.7.4p4: weak may fail spuriously
            return res
        return [(state, 0, as_long(tn, state))]
    if op.startswith("f"):
        n = binop(tn, op[1:].split("_")[0], state, operand(tn, a))
        return [(n, as_long(tn, n if variant == "fetch-returns-new" else state), exp)]
    raise core.HarnessError("no specification for " + op)


def parse_history(text):
    """'c0.0 c1.0 r1.0=5:0 r0.0=7:0 F=12 G=- R=- X=- U=- W=- [F2=7]' -> (events, final, flags {G, R, X, U, W: text or None,
    F2: final contents of the shared expected-value object or None})"""
    ev = []
    final = None
    flags = {"G": None, "R": None, "X": None, "U": None, "W": None, "F2": None}
    for tok in text.split():
        if tok[0] == "c" and tok[1].isdigit():
            t, i = tok[1:].split(".")
            ev.append(("c", int(t), int(i)))
        elif tok[0] == "r" and tok[1].isdigit():
            k, v = tok[1:].split("=")
            t, i = k.split(".")
            r, e = v.split(":")
            ev.append(("r", int(t), int(i), int(r), int(e)))
        elif tok.startswith("F="):
            final = int(tok[2:])
        elif tok.startswith("F2="):
            flags["F2"] = int(tok[3:])
        elif tok[:2] in ("G=", "R=", "X=", "U=", "W="):
            flags[tok[0]] = tok[2:] if tok[2:] != "-" else None
    return ev, final, flags


def spec_type(prog):
    """the type whose value domain the sequential specification uses: programs of the representation forms on a
    floating object are specified on the unsigned integer of the same size (C11 7.17.7.4: compare-exchange compares
    and copies object representations)"""
    tn = prog["type"]
    if prog["op"] in RAW_OPS:
        return "u%d" % TINFO[tn][2]
    return tn


def reachable_values(tn, prog):
    """every value (as long) the object can hold in any sequential execution of any subset of the operations"""
    ops = [o for th in prog["threads"] for o in th]
    seen = set()

    def rec(state, left):
        seen.add(as_long(tn, state))
        for i in left:
            for ns, r, e in apply_op(tn, ops[i]["op"], state, ops[i]["arg"], ops[i]["exp"]):
                rec(ns, left - {i})
    rec(from_long(tn, prog["init"]), frozenset(range(len(ops))))
    return seen


def failure_report_class(tn, prog, events):
    """C11 7.17.7.4: a compare-exchange that fails stores the value it found in the object into the expected-value
    object.  Classes of a history that no linearization explains: a failed compare-exchange reports a value the object
    can never hold; a failed STRONG compare-exchange reports the expected value itself (the weak form may do so:
    spurious failure)."""
    if prog["obj"].endswith("treiber") or prog.get("shx"):
        return None
    held = None
    for ev in events:
        if ev[0] != "r":
            continue
        o = prog["threads"][ev[1]][ev[2]]
        if o["op"] not in CAS_OPS or ev[3] != 0:
            continue
        if held is None:
            held = reachable_values(tn, prog)
        if ev[4] not in held:
            return "failed-compare-exchange-reports-value-the-object-never-held"
        if o["op"] in ("cas_s", "cas_i", "cas_sr") and ev[4] == as_long(tn, from_long(tn, o["exp"])):
            return "strong-compare-exchange-fails-reporting-the-expected-value"
    return None


def linearizable(tn, prog, events, final, variant="c11", retmask=None, final2=None):
    """Is there a total order of the operations, consistent with real time, that the sequential specification
    explains (return values, expected-value objects, final object value)?  Brute force, <= 6 operations."""
    ops = {}
    order = []
    for k, e in enumerate(events):
        if e[0] == "c":
            ops[(e[1], e[2])] = {"call": k}
            order.append((e[1], e[2]))
        else:
            ops[(e[1], e[2])].update(ret=k, r=e[3], e=e[4])
    for key in order:
        if "ret" not in ops[key]:
            return False
    before = {a: [b for b in order if ops[b]["ret"] < ops[a]["call"]] for a in order}
    treiber = prog["obj"].endswith("treiber")
    init = () if treiber else from_long(tn, prog["init"])
    shx = bool(prog.get("shx"))
    if shx:
        init = (init, FILL_RAW & ((1 << (8 * TINFO[tn][2])) - 1))

    def same(x, y):
        return x == y if retmask is None else (x & retmask) == (y & retmask)

    def rec(done, state):
        if len(done) == len(order):
            if treiber:
                v = 0
                for a in reversed(state):
                    v = v * 16 + a
                return v == final
            if shx:
                return raw(tn, state[0]) == final & ((1 << 64) - 1) and final2 is not None and state[1] == final2 & ((1 << 64) - 1)
            return raw(tn, state) == final & ((1 << 64) - 1)
        for a in order:
            if a in done or any(b not in done for b in before[a]):
                continue
            o = prog["threads"][a[0]][a[1]]
            # "prev": the operation received the result of the thread's previous operation (which has returned)
            arg = ops[(a[0], a[1] - 1)]["r"] if o.get("carry") else o["arg"]
            for ns, r, e in apply_op(tn, o["op"], state, arg, o["exp"], variant):
                if same(r, ops[a]["r"]) and s64(e) == ops[a]["e"]:
                    if rec(done | {a}, ns):
                        return True
        return False
    return rec(frozenset(), init)


def judge(prog, htext):
    """-> None (history explained by the C11 specification) or a deviation class string"""
    tn = prog["type"]
    if htext == "LIVELOCK":
        return "livelock"
    if htext.startswith("CRASH-"):                      # fault or hang of the code under test (see c16_rt.c)
        return {"CRASH-SEGV": "crash-sigsegv", "CRASH-BUS": "crash-sigbus", "CRASH-ILL": "crash-sigill",
                "CRASH-FPE": "crash-sigfpe", "CRASH-HANG": "hang-without-scheduling-point",
                "CRASH-WILD": "write-outside-the-objects-of-the-program"}.get(htext, "crash")
    tn = spec_type(prog)
    events, final, flags = parse_history(htext)
    if flags["U"]:
        return "unlocked-%s-on-atomic-object" % re.sub(r"\d+$", "", flags["U"])
    if flags["X"]:                                      # e.g. A2: the object designator was evaluated twice
        return "operand-%s-evaluated-%s-times" % (flags["X"][0], {"9": "many"}.get(flags["X"][1:], flags["X"][1:]))
    if flags["G"]:                                      # E-after: guard bytes after an expected-value object
        who, side = flags["G"].split("-")
        return "bytes-%s-%s-object-modified" % (side, {"E": "expected", "O": "atomic"}[who])
    if flags["R"]:
        return "callee-saved-%s-not-preserved" % flags["R"]
    f2 = flags["F2"]
    if linearizable(tn, prog, events, final, final2=f2):
        # C11 7.17.7.4: the expected-value object is written only when the comparison fails.  Judged after the
        # history, so that a program in which the late store destroys something is reported by what it destroys
        return LATE_STORE if flags["W"] else None
    size = TINFO[tn][2]
    if linearizable(tn, prog, events, final, variant="fetch-returns-new", final2=f2):
        return "returns-new-value-but-atomic"
    if size < 8 and linearizable(tn, prog, events, final, retmask=(1 << (8 * size)) - 1, final2=f2):
        return "return-value-upper-bits-but-atomic"
    frc = failure_report_class(tn, prog, events)
    if frc:
        return frc
    # sequential history (no two operations overlap)?
    seq = all(events[i][0] == "c" and events[i + 1][0] == "r" for i in range(0, len(events) - 1, 2))
    return "sequential-semantics" if seq else "not-linearizable"


# =====================================================================================================
# 5. programs
# =====================================================================================================
def values(tn, op, variant):
    """-> (init, args[3][2], exps[3][2]) or None if this variant does not exist for (type, op).
    Only values whose result C11 defines: no signed overflow, no out-of-range conversion to a signed type, no
    shift of/into the sign bit."""
    _, _, size, signed, kind = TINFO[tn]
    bits = 8 * size
    M = (1 << bits) - 1
    top = 1 << (bits - 1)
    z = [[0, 0], [0, 0], [0, 0]]
    if op in PLAIN_OPS:                                   # stored values: those of exchange; load ignores its argument
        op = "xchg"
    if op == "tas_x":
        op = "tas"
    if op in ("clear", "clear_x"):
        return (1, z, z) if variant == 0 else None
    if op in RAW_OPS:
        # object representations: NaNs with payloads of both signs (quiet: a plain copy never alters them), both zeros
        if size == 4:
            NA, NB, PZ, NZ, ONE = 0x7fc00001, 0xffc00123, 0, 0x80000000, 0x3f800000
        else:
            NA, NB, PZ, NZ, ONE = 0x7ff8000000000001, 0xfff8000000000123, 0, 0x8000000000000000, 0x3ff0000000000000
        if op in ("cas_sr", "cas_wr"):
            if variant == 0:      # the object holds a NaN bit-identical to the expected value: must be exchanged
                return NA, [[NB, ONE], [ONE, NA], [PZ, NZ]], [[NA, NA], [NA, NB], [NA, ONE]]
            if variant == 1:      # -0.0 against +0.0: equal values, different representations: must fail and report -0.0
                return NZ, [[ONE, PZ], [NA, ONE], [NB, NZ]], [[PZ, NZ], [PZ, NZ], [NZ, PZ]]
            return None
        if variant == 0:
            return NA, [[NB, PZ], [NZ, ONE], [NA, NB]], z
        if variant == 1:
            return NZ, [[PZ, NA], [NB, NZ], [ONE, PZ]], z
        return None
    if kind == "bool":
        if family(op) == "incdec" and variant in (0, 1):
            # _Bool: ++ saturates (1 stays 1, the value of b++ is then 1), -- toggles (0 - 1 converts to 1)
            return 1 - variant, z, z
        if variant != 0:
            return None
        if op in ("add", "sub"):
            return 0, [[1, 0], [0, 1], [1, 1]], z
        if op in ("cas_s", "cas_w"):
            return 0, [[1, 0], [1, 0], [1, 0]], [[0, 1], [0, 1], [0, 1]]
        return {"and": 1, "or": 0, "xor": 0, "xchg": 0, "xchg_x": 0, "tas": 0}[op], [[1, 0], [0, 1], [1, 1]], z
    if kind == "ptr":
        if variant != 0:
            return None
        base = 0x10000
        if op in ("cas_s", "cas_w"):
            return base, [[base + 8, base + 40], [base + 16, base + 48], [base + 24, base + 56]], \
                [[base, base + 16], [base, base + 24], [base, base + 8]]
        if op in ("xchg", "xchg_x"):
            return base, [[base + 8, base + 40], [base + 16, base + 48], [base + 24, base + 56]], z
        return base, [[1, 8], [2, 16], [4, 32]], z
    if op == "xchg_i":
        # operand of type int (negative values included): C11 7.17.7.3 converts it to the object's type
        if variant != 0:
            return None
        return (-FLT_SCALE if kind == "flt" else -1), [[1, -5], [-3, 6], [2, -7]], z
    if op == "cas_i":
        if variant != 0:
            return None
        q = FLT_SCALE if kind == "flt" else 1
        return 5 * q, [[-10, 20], [-11, 21], [-12, 22]], [[5 * q, -11 * q], [5 * q, -12 * q], [5 * q, -10 * q]]
    if kind == "flt":
        # all values in quarters (FLT_SCALE); every intermediate result is a small multiple of 0.25: exact in float
        if op in ("add", "sub", "casloop", "preinc", "postinc", "predec", "postdec"):
            down = op in ("sub", "predec", "postdec")
            if variant == 2:
                # where adding 1 rounds: 2^24 (float), 2^53 (double), negative for the downward operations.  The new
                # value equals the old one; `x++` must still yield what the atomic step read, `++x` what it wrote
                if op == "casloop":
                    return None
                big = (1 << (24 if size == 4 else 53)) * FLT_SCALE
                return (-big if down else big), [[1, 4], [2, 4], [4, 1]], z
            return [42, 13 if down else -13][variant], [[1, 8], [2, 16], [4, 32]], z
        if op in ("mul", "div"):
            if variant == 2:
                return None
            init = 6 if op == "mul" else 1800       # 450.0 = 2 * 3^2 * 5^2: every quotient below is a multiple of 0.25
            return (init if variant == 0 else -init), [[8, 4], [12, 8], [20, 4]], z
        if op in ("xchg", "xchg_x"):
            if variant == 0:
                return 7, [[1, 4], [2, 5], [3, 6]], z
            if variant == 1:
                return -1, [[1, -5], [-3, 6], [2, -7]], z
            return None
        if op in ("cas_s", "cas_w"):
            if variant == 0:
                return 5, [[10, 20], [11, 21], [12, 22]], [[5, 11], [5, 12], [5, 10]]
            if variant == 1:
                return -1, [[-2, -10], [-3, -11], [-4, -12]], [[-1, -3], [-1, -4], [-1, -2]]
            return None
        raise core.HarnessError("no values for %s %s" % (tn, op))
    if op in ("add", "sub", "fadd", "fsub", "fadd_x", "fsub_x", "casloop", "preinc", "postinc", "predec", "postdec"):
        down = op in ("sub", "fsub", "fsub_x", "predec", "postdec")
        if signed:
            init = [10, 3 if down else -3, (top >> 1) if not down else -(top >> 1)][variant]
        else:
            init = [100, 2 if down else M - 2, top][variant]
        return init, [[1, 8], [2, 16], [4, 32]], z
    if op == "mul":
        if variant == 0:
            return 1, [[2, 1], [3, 2], [5, 1]], z
        if variant == 1 and not signed:
            return (top >> 2) + 1, [[3, 5], [5, 7], [7, 3]], z
        if variant == 1:
            return -1, [[2, 1], [3, 2], [5, 1]], z
        return None
    if op == "div":
        if variant == 0:
            return 120, [[2, 1], [3, 2], [5, 1]], z
        if variant == 1:
            return (-120 if signed else M), [[2, 1], [3, 2], [5, 1]], z
        return None
    if op == "mod":
        if variant == 0:
            return 119, [[7, 4], [5, 3], [3, 2]], z
        if variant == 1:
            return (-119 if signed else M - 1), [[7, 4], [5, 3], [3, 2]], z
        return None
    if op in ("and", "fand", "fand_x"):
        if variant == 0:
            return wrap(tn, M), [[wrap(tn, ~1), wrap(tn, ~8)], [wrap(tn, ~2), wrap(tn, ~16)], [wrap(tn, ~4), wrap(tn, ~32)]], z
        if variant == 1:
            return wrap(tn, M), [[wrap(tn, ~top), wrap(tn, ~1)], [wrap(tn, ~(top >> 1)), wrap(tn, ~2)],
                                 [wrap(tn, ~(top >> 2)), wrap(tn, ~4)]], z
        return None
    if op in ("or", "for", "for_x", "xor", "fxor", "fxor_x"):
        init = 0 if "x" != op.replace("f", "").replace("_x", "")[0] else 0x55
        if variant == 0:
            return init, [[1, 8], [2, 16], [4, 32]], z
        if variant == 1:
            return init, [[wrap(tn, top), 1], [wrap(tn, top >> 1), 2], [wrap(tn, top >> 2), 4]], z
        return None
    if op == "shl":
        if variant == 0:
            return 1, [[1, 1], [2, 0], [1, 1]], z
        if variant == 1 and not signed:
            return M, [[1, 1], [2, 0], [1, 1]], z
        return None
    if op == "shr":
        if variant == 0:
            return top >> 1, [[1, 1], [2, 0], [1, 1]], z
        if variant == 1 and not signed:
            return M, [[1, 1], [2, 0], [1, 1]], z
        return None
    if op == "xchg_l":
        # operand handed over as long (no cast in the body): C11 7.17.7.3 converts it to the object's type
        if variant == 0 and signed:
            return -1, [[1, -5], [-3, 6], [2, -7]], z
        if variant == 0:
            return 7, [[(1 << bits) % (1 << 64) + 1, 4], [(3 << bits) % (1 << 64) + 2, 5], [(5 << bits) % (1 << 64) + 3, 6]], z
        return None
    if op in ("xchg", "xchg_x"):
        if variant == 0:
            return 7, [[1, 4], [2, 5], [3, 6]], z
        if variant == 1:
            if signed:
                return -1, [[1, -5], [-3, 6], [2, -7]], z           # old and new values of both signs
            return M, [[M - 1, M - 4], [M - 2, M - 5], [M - 3, M - 6]], z
        if variant == 2 and not signed and bits < 64:
            # operand does not fit the object: conversion to an unsigned type is defined (modulo 2^N)
            return M, [[(1 << bits) + 1, (3 << bits) + 4], [(1 << bits) + 2, (5 << bits) + 5], [(1 << bits) + 3, (7 << bits) + 6]], z
        return None
    if op in ("cas_s", "cas_w"):
        if variant == 0:
            return 5, [[10, 20], [11, 21], [12, 22]], [[5, 11], [5, 12], [5, 10]]
        if variant == 1:
            if signed:
                return -1, [[-2, -10], [-3, -11], [-4, -12]], [[-1, -3], [-1, -4], [-1, -2]]
            return M, [[M - 1, top], [M - 2, top + 1], [M - 3, top + 2]], [[M, M - 2], [M, M - 3], [M, M - 1]]
        return None
    raise core.HarnessError("no values for %s %s" % (tn, op))


CONFIGS = {"2x1": (2, 1), "2x2": (2, 2), "3x1": (3, 1), "1x2": (1, 2), "3x2": (3, 2),
           # threads with different numbers of operations (value: threads x most operations, for the shard weights)
           "2x1-2": (2, 2), "2x1-3": (2, 3), "2x2-3": (2, 3), "3x1-2-1": (3, 2)}


def make_program(tn, form, op, cfg, variant, bound, partner=None, okey=""):
    """partner: op name executed by the threads other than thread 0 (mixed programs); default homogeneous.
    okey: operand kinds ("A=call5,D=nest"), the same in every thread."""
    nthreads, nops = CONFIGS[cfg]
    vals = values(tn, op, variant)
    if vals is None:
        return None
    init, args, exps = vals
    isconst = ok_parse(okey).get("D") == "const"
    threads = []
    for t in range(nthreads):
        top = op if (partner is None or t == 0) else partner
        if top != op:
            pv = values(tn, top, 0)
            pargs, pexps = pv[1], pv[2]
        else:
            pargs, pexps = args, exps
        tform = form
        if form in AUTO_FORMS and t != 0:
            tform = "deref"
        th = []
        for i in range(nops):
            const = None
            arg = pargs[t][i]
            if isconst:                                     # three constants per operation, dealt round robin
                ci = (t + i) % 3
                arg = pargs[ci][0]
                const = s64(arg)
            th.append({"op": top, "fn": body_name(tn, tform, top, okey, const), "arg": arg, "exp": pexps[t][i],
                       "form": tform, "ok": okey, "const": const})
        threads.append(th)
    return {"id": "%s/%s/%s/%s/v%d/b%s%s%s" % (op, tn, form, cfg, variant, "inf" if bound < 0 else bound,
                                                "/vs-" + partner if partner else "", "/" + okey if okey else ""),
            "type": tn, "form": form, "op": op, "cfg": cfg, "variant": variant, "bound": bound, "ok": okey,
            "obj": "info_%s_%s" % (tn, "deref" if form in AUTO_FORMS else form), "mode": 1 if form in AUTO_FORMS else 0,
            "init": init, "threads": threads, "partner": partner}


def operand_keys(tn, op, form, tier):
    """The operand-kind combinations explored for (type, op, form), default excluded.
    quick:    deref: every position x every kind, D=const, call5/clob/nest/inc/cnt in all positions at once, every
              storage of the expected-value object; p->m and a[i]: designator given by clob, nest, inc, cnt
    thorough: every form: every position x every kind, D=const, every kind in all positions at once, every storage;
              deref: every storage x every kind of the expected-address operand; deref on int/long/pointer/double for
              one operation per family: the full cross product of the pure kinds and of the side-effecting kinds"""
    pos = positions(op, form)
    keys = []
    quick = tier == "quick"
    if quick and form != "deref":
        keys = ["A=" + k for k in ["clob", "nest"] + SIDE_KINDS] if form in ("pmember", "aindex") else []
        return [k for k in keys if key_allowed(op, form, k)]
    for q in pos:
        for k in KINDS + (["const"] if q == "D" else []):
            keys.append("%s=%s" % (q, k))
    if len(pos) > 1:
        for k in (["call5", "clob", "nest"] + SIDE_KINDS if quick else KINDS):
            keys.append(",".join("%s=%s" % (q, k) for q in pos))
    if has_expected(op):
        keys += ["S=" + st for st in STORAGES]
        if not quick and form == "deref" and "E" in pos:
            keys += ["E=%s,S=%s" % (k, st) for st in STORAGES for k in KINDS]
    if not quick and form == "deref" and tn in CROSS_TYPES and op in CROSS_OPS:
        for alphabet in (PURE_KINDS, SIDE_KINDS):
            for combo in itertools.product(*[["priv"] + alphabet + (["const"] if q == "D" else []) for q in pos]):
                k = ok_key(dict(zip(pos, combo)))
                if k:
                    keys.append(k)
    out = []
    for k in keys:
        if k not in out and key_allowed(op, form, k):
            out.append(k)
    return out


CROSS_TYPES = ("i4", "i8", "p8", "f8")
CROSS_OPS = ("add", "fadd", "xchg", "cas_s", "cas_w", "casloop")


def treiber_program(cfg, bound):
    nthreads, nops = CONFIGS[cfg]
    ids = [[1, 4], [2, 5], [3, 6]]
    return {"id": "push/p8/treiber/%s/v0/b%s" % (cfg, "inf" if bound < 0 else bound), "type": "p8", "form": "treiber",
            "op": "push", "cfg": cfg, "variant": 0, "bound": bound, "obj": "info_p8_treiber", "mode": 0, "init": 0,
            "ok": "",
            "threads": [[{"op": "push", "fn": "f_push_p8_treiber", "arg": ids[t][i], "exp": 0, "form": "treiber", "ok": "",
                          "const": None} for i in range(nops)]
                        for t in range(nthreads)], "partner": None}


def stack_program(spelling, cfg, bound):
    """Treiber stack with a popping thread.  Thread 0 pushes node 3 (after node 1 in 2x2-3) with the push under
    `spelling`; thread 1 pops, pushes node 2 and pushes the node it popped again (argument 'prev': the result of its
    pop; nothing if the stack was empty); in 3x1-2-1 a third thread pushes node 2.  Only thread 1 pops, so the
    program has no ABA hazard of its own; all pushes of a program use the same spelling.  The history that the
    link-field spellings need: push(3) succeeds | pop()=3, push(2), push(3) | a late store of thread 0 into node 3."""
    def o(op, arg, carry=False):
        return {"op": op, "fn": "f_%s_p8_treiber" % op, "arg": arg, "exp": 0, "form": "treiber", "ok": "", "const": None, "carry": carry}
    P = spelling
    threads = {"2x1-3": [[o(P, 3)], [o("pop", 0), o(P, 2), o(P, 0, True)]],
               "2x2-3": [[o(P, 1), o(P, 3)], [o("pop", 0), o(P, 2), o(P, 0, True)]],
               "3x1-2-1": [[o(P, 3)], [o("pop", 0), o(P, 0, True)], [o(P, 2)]]}[cfg]
    return {"id": "%s+pop/p8/treiber/%s/v0/b%s" % (P, cfg, "inf" if bound < 0 else bound), "type": "p8", "form": "treiber",
            "op": P, "cfg": cfg, "variant": 0, "bound": bound, "obj": "info_p8_treiber", "mode": 0, "init": 0, "ok": "",
            "threads": threads, "partner": None, "stack": True}


def shx_program(tn, form, op, cfg, variant):
    """Thread 0: one compare-exchange (op in SHX_OPS) that succeeds unless another operation came first, expected-value
    object in shared memory; thread 1: one or two `claim` operations (desired value seen in the atomic object -> store
    a new value into the expected-value object).  State of the specification: (atomic object, expected-value object)."""
    vals = values(tn, "cas_s", variant)
    if vals is None:
        return None
    init, args, exps = vals
    if from_long(tn, exps[0][0]) != from_long(tn, init):
        raise core.HarnessError("shared-expected program: the compare-exchange of thread 0 would not succeed")
    desired = args[0][0]
    newx = [args[1][0], args[2][0]][:CONFIGS[cfg][1]]
    if any(from_long(tn, x) == from_long(tn, init) for x in newx):
        raise core.HarnessError("shared-expected program: the claimed value must differ from the expected value")
    cform = "deref" if form in AUTO_FORMS else form
    threads = [[{"op": op, "fn": body_name(tn, form, op), "arg": desired, "exp": exps[0][0], "form": form, "ok": "", "const": None}],
               [{"op": "claim", "fn": body_name(tn, cform, "claim"), "arg": desired, "exp": x, "form": cform, "ok": "", "const": None}
                for x in newx]]
    return {"id": "%s/%s/%s/%s/v%d/binf" % (op, tn, form, cfg, variant), "type": tn, "form": form, "op": op, "cfg": cfg,
            "variant": variant, "bound": -1, "ok": "", "obj": "info_%s_%s" % (tn, cform), "mode": 1 if form in AUTO_FORMS else 0,
            "init": init, "threads": threads, "partner": None, "shx": True}


def s64(v):
    v &= (1 << 64) - 1
    return v - (1 << 64) if v >> 63 else v


def program_line(p, opidx, objidx, schedule=None, mode="S", pid=None):
    init = p["init"] if p["form"] == "treiber" else raw(spec_type(p), from_long(spec_type(p), p["init"]))
    w = ["P", pid or p["id"], str(objidx[p["obj"]]), str(s64(init)), str(p["mode"]), str(p["bound"]), str(len(p["threads"]))]
    for th in p["threads"]:
        w.append(str(len(th)))
        for o in th:
            w += [str(opidx[o["fn"]]), "prev" if o.get("carry") else str(s64(o["arg"])), str(s64(o["exp"]))]
    if schedule is not None:
        w += [mode, schedule]
    return " ".join(w)


MIXED = [("add", "xchg"), ("add", "cas_s"), ("or", "and"), ("xchg", "cas_s"), ("postinc", "fadd"), ("casloop", "sub"),
         ("fxor", "add"), ("cas_w", "predec"), ("shl", "add"), ("mul", "xchg"), ("store", "add"), ("store", "casloop"),
         ("load", "xchg")]


def plan(tier):
    """All programs of a tier.  bound -1 = every schedule (no preemption bound)."""
    progs = []
    types = [t[0] for t in TYPES]
    quick = tier == "quick"
    for tn in types:
        for form in FORMS + AUTO_FORMS:
            for op in ops_for(tn):
                for v in (0, 1, 2):
                    if quick:
                        cfgs = [("1x2", -1), ("2x1", -1), ("2x2", -1 if v == 0 else 2), ("3x1", 3 if v == 0 else 2)]
                    else:
                        cfgs = [("1x2", -1), ("2x1", -1), ("2x2", -1), ("3x1", -1)]
                        if v == 0:
                            cfgs.append(("3x2", 3))
                    for cfg, b in cfgs:
                        if form in AUTO_FORMS and CONFIGS[cfg][1] > 1:
                            continue                      # the parent body performs exactly one operation
                        p = make_program(tn, form, op, cfg, v, b)
                        if p:
                            progs.append(p)
    # operand dimension: every operand position filled with every operand kind (see KINDS); values of variant 0,
    # for the compare-exchange families also variant 1 in the thorough tier.  The 1x2 programs run sequentially, so
    # the second compare-exchange of a thread is certain to fail (stale expected value) and to take the write-back path.
    for tn in types:
        for form in FORMS + AUTO_FORMS if not quick else FORMS:
            if not quick and form in ("gmember", "automember"):
                continue                                  # designators without operand: global and auto stand for them
            for op in ops_for(tn):
                for okey in operand_keys(tn, op, form, tier):
                    single = okey.count("=") == 1 or len(set(ok_parse(okey).values())) == 1
                    if quick:
                        cfgs = [("1x2", -1), ("2x1", -1), ("2x2", 2), ("3x1", 2)]
                    elif single:
                        cfgs = [("1x2", -1), ("2x1", -1), ("2x2", -1), ("3x1", 3)]
                    else:
                        cfgs = [("1x2", -1), ("2x1", -1), ("2x2", 2)]
                    for v in (0, 1) if (op in RAW_OPS or (not quick and single and "E" in positions(op, form))) else (0,):
                        for cfg, b in cfgs:
                            if form in AUTO_FORMS and CONFIGS[cfg][1] > 1:
                                continue
                            p = make_program(tn, form, op, cfg, v, b, okey=okey)
                            if p:
                                progs.append(p)
    for tn in ("i1", "i4", "u8") if quick else [t for t in types if TINFO[t][4] == "int"]:
        for form in ("deref", "pmember") if quick else FORMS:
            for a, b in MIXED:
                for x, y in ((a, b), (b, a)):
                    for cfg, bd in ([("2x1", -1), ("2x2", 2), ("3x1", 2)] if quick else [("2x1", -1), ("2x2", -1), ("3x1", -1)]):
                        p = make_program(tn, form, x, cfg, 0, bd, partner=y)
                        if p:
                            progs.append(p)
    # Treiber push: the nodes live in the shared arena, every node access is a scheduling point (3 threads are
    # explored with a preemption bound only)
    for cfg, b in ([("1x2", -1), ("2x1", -1), ("2x2", 3), ("3x1", 3)] if quick else
                   [("1x2", -1), ("2x1", -1), ("2x2", -1), ("3x1", 5), ("3x2", 2)]):
        progs.append(treiber_program(cfg, b))
    # Treiber stack with a popping thread, every push spelling (local expected-value object / the link field of the
    # node being published, weak loop and strong): the pop - push - push history needs 1 preemption (2 with 3 threads)
    for sp in STACK_PUSHES:
        for cfg, b in ([("2x1-3", 2), ("2x2-3", 2), ("3x1-2-1", 2)] if quick else [("2x1-3", -1), ("2x2-3", 3), ("3x1-2-1", 3)]):
            progs.append(stack_program(sp, cfg, b))
    # expected-value object in shared memory, written by another thread once the compare-exchange has succeeded
    for tn in types:
        for form in (("deref", "global", "auto") if quick else FORMS + AUTO_FORMS):
            for op in SHX_OPS:
                for v in (0, 1):
                    for cfg in ("2x1", "2x1-2"):
                        p = shx_program(tn, form, op, cfg, v)
                        if p:
                            progs.append(p)
    return progs


# =====================================================================================================
# 6. running
# =====================================================================================================
def _run_batch(args):
    binary, lines, timeout = args
    st, out, err = core.run_limited([binary, "%d" % max(1, timeout)], input=("\n".join(lines) + "\n").encode(),
                                    timeout=timeout + 30, cpu=None, mem=None)
    if isinstance(out, bytes):
        out, err = out.decode("utf-8", "replace"), err.decode("utf-8", "replace")
    return st, out, err


def run_programs(binary, lines, ids, timeout):
    """Run program lines; a process that reports a crash of the code under test (exit 4, 'CRASHED <id>') is replaced
    by a new one for the programs after the crashed one.  -> (status, out, err, number of crashes)"""
    import time
    t_end = timeout if timeout > 1e9 else time.time() + timeout     # absolute deadline (epoch seconds) or seconds from now
    outs, errs, crashes, pos = [], [], 0, 0
    st = 0
    while pos < len(lines):
        st, out, err = _run_batch((binary, lines[pos:], int(max(1, t_end - time.time()))))
        outs.append(out if isinstance(out, str) else "")
        errs.append(err if isinstance(err, str) else "")
        m = re.findall(r"^CRASHED (\S+)$", outs[-1], re.M)
        if st == 4 and m and m[-1] in ids[pos:]:
            crashes += 1
            pos += ids[pos:].index(m[-1]) + 1
            st = 0
            continue
        break
    return st, "".join(outs), "".join(errs), crashes


def parse_output(out):
    """-> {prog id: {"stats": {...}, "hist": [(count, minpre, thash, sched, text)], "trace": [lines]}}"""
    res, cur = {}, None
    for line in out.split("\n"):
        if line.startswith("PROG "):
            w = line.split()
            cur = {"stats": {}, "hist": [], "trace": []}
            for kv in w[2:]:
                if "=" in kv:
                    k, v = kv.split("=", 1)
                    cur["stats"][k] = v
            res[w[1]] = cur
        elif line.startswith("H ") and cur is not None:
            head, text = line.split(" | ", 1)
            w = head.split()
            cur["hist"].append((int(w[1]), int(w[2]), w[3], w[4], text.strip()))
        elif line.startswith("E ") and cur is not None:
            cur["trace"].append(line)
        elif line.startswith("END "):
            if cur is not None:
                cur["complete"] = True
            cur = None
    return res


def _explore_batch(args):
    """Worker: run one batch of programs and judge every distinct history.  Returns a summary (picklable)."""
    binary, progs, opidx, objidx, timeout = args
    st, out, err, crashes = run_programs(binary, [program_line(p, opidx, objidx) for p in progs], [p["id"] for p in progs], timeout)
    summ = {"status": st, "error": None, "timed_out": st == "timeout" or "\nTIMEOUT " in out, "done": [],
            "schedules": 0, "decisions": 0, "validated": 0, "distinct": 0, "by_pre": {}, "by_cfg": {}, "cas_failed": 0,
            "livelocks": 0, "guardchecks": 0, "caswatched": 0, "bad": {}, "nbad": {}, "samples": [], "selftest": {}, "crashes": crashes, "by_ok": {},
            "cas_failed_by_ok": {}}
    if st != "timeout" and (st != 0 or "HARNESS-ERROR" in out):
        m = re.search(r"HARNESS-ERROR.*", out)
        summ["error"] = "explorer failed (status %s): %s %s" % (st, m.group(0) if m else "", err[-300:])
        return summ
    byid = {p["id"]: p for p in progs}
    verify = []
    for pid, r in parse_output(out).items():
        if not r.get("complete"):
            continue
        p = byid[pid]
        summ["done"].append(pid)
        if p.get("selftest"):                       # hand-written bodies: verdict sets only, not counted as coverage
            summ["selftest"][pid] = {judge(p, h[4]) for h in r["hist"]}
            continue
        n = int(r["stats"]["schedules"])
        summ["schedules"] += n
        summ["decisions"] += int(r["stats"]["decisions"])
        summ["validated"] += int(r["stats"]["validated"])
        summ["livelocks"] += int(r["stats"]["livelocks"])
        summ["guardchecks"] += int(r["stats"].get("guardchecks", 0))
        summ["caswatched"] += int(r["stats"].get("caswatched", 0))
        summ["by_cfg"][p["cfg"]] = summ["by_cfg"].get(p["cfg"], 0) + n
        for kv in r["stats"]["by_pre"].strip(",").split(","):
            k, v = kv.split(":")
            summ["by_pre"][int(k)] = summ["by_pre"].get(int(k), 0) + int(v)
        summ["distinct"] += len(r["hist"])
        oks = (p["ok"] or "plain").split(",")
        for k in oks:
            c = summ["by_ok"].setdefault(k, [0, 0, 0])
            c[0] += 1
            c[1] += n
        for h in r["hist"]:
            if p["op"] in CAS_OPS and re.search(r"r\d\.\d=0:", h[4]):
                summ["cas_failed"] += h[0]
                for k in oks:
                    summ["by_ok"][k][2] += h[0]
            dev = judge(p, h[4])
            if dev:
                sig = sig_of(p, dev)
                verify.append((p, h))
                summ["nbad"][sig] = summ["nbad"].get(sig, 0) + h[0]
                key = (h[1], len(h[3]), p["id"])
                if sig not in summ["bad"] or key < summ["bad"][sig][3]:
                    summ["bad"][sig] = (p, dev, h, key)
        if len(summ["samples"]) < 1 and r["hist"]:
            summ["samples"].append({"program": pid, "init": p["init"],
                                    "threads": [[(o["fn"], o["arg"], o["exp"]) for o in th] for th in p["threads"]],
                                    "schedules": n, "by_preemptions": r["stats"]["by_pre"],
                                    "histories": [{"count": h[0], "min_preemptions": h[1], "schedule": h[3], "history": h[4]}
                                                  for h in sorted(r["hist"], key=lambda h: -h[1])[:2]]})
    # determinism proof for every violating history: its witness schedule is replayed in a fresh process, twice,
    # and must give the identical event trace (also identical to the one hashed during the search)
    if verify:
        # a schedule that ends in a crash of the code under test ends its process: one process per run, two runs
        # (at most 20 crashing schedules per batch are replayed)
        res2, st2, out2, keep, ncrash = {}, 0, "", [], 0
        for p, h in verify:
            if h[4].startswith("CRASH-"):
                ncrash += 1
                if ncrash > 20:
                    continue
            keep.append((p, h))
        verify = keep
        for k, (p, h) in enumerate(verify):
            if h[4].startswith("CRASH-"):
                runs = [_run_batch((binary, [program_line(p, opidx, objidx, h[3], "S", "%s#%d" % (p["id"], k))], 120)) for _ in (0, 1)]
                if runs[0][0] == 4 and runs[1][0] == 4 and runs[0][1] == runs[1][1]:
                    res2.update(parse_output(runs[0][1]))
                else:
                    st2, out2 = runs[0][0], runs[0][1]
        lines = [program_line(p, opidx, objidx, h[3], "V", "%s#%d" % (p["id"], k)) for k, (p, h) in enumerate(verify)
                 if not h[4].startswith("CRASH-")]
        if lines:
            st2, out2, err2 = _run_batch((binary, lines, 600))
            if st2 == 0:
                res2.update(parse_output(out2))
        for k, (p, h) in enumerate(verify):
            r2 = res2.get("%s#%d" % (p["id"], k))
            if not r2 or not r2["hist"] or r2["hist"][0][2] != h[2] or r2["hist"][0][4] != h[4]:
                m = re.search(r"HARNESS-ERROR.*", out2)
                summ["error"] = "violating schedule %s of %s does not replay identically: %s" % (
                    h[3][:200], p["id"], m.group(0) if m else (r2["hist"][0][4] if r2 and r2["hist"] else "status %s" % st2))
                return summ
        summ["validated"] += len(verify)
        summ["violating_histories_replayed"] = len(verify)
    return summ


def explore(binary, progs, opidx, objidx, nbatches, timeout):
    """Shard programs (heaviest first, round-robin) over processes; each worker explores and judges."""
    def weight(p):
        n, k = CONFIGS[p["cfg"]]
        return (n * k) ** 3 * (1 if p["bound"] >= 0 else 8) * (50 if p["form"] == "treiber" else 1)
    order = sorted(range(len(progs)), key=lambda i: (-weight(progs[i]), progs[i]["id"]))
    batches = [[] for _ in range(nbatches)]
    for j, i in enumerate(order):
        batches[j % nbatches].append(progs[i])
    import time
    t_end = time.time() + timeout               # one deadline for all batches, whenever a worker gets to them
    return core.pmap(_explore_batch, [(binary, b, opidx, objidx, t_end) for b in batches if b])


REPLAY_SH = """python3 "$VERIF/checks/c16.py" --replay case.json"""


def replay_files(prog, sig, dev, witness, src, asm, rw, trace):
    return {"case.json": json.dumps({"program": prog, "sig": sig, "deviation": dev, "witness_schedule": witness[3],
                                     "witness_history": witness[4], "preemptions": witness[1]}, indent=1),
            "body.c": src, "body.s": asm, "body_rewritten.s": rw, "witness_trace.txt": "\n".join(trace) + "\n"}


def single_case_binary(chibicc, include, wd, prog):
    """Build an explorer that contains only what one program needs."""
    tn = prog["type"]
    if prog["form"] == "treiber":
        src = PRELUDE + TREIBER
        opnames, infos = list(TREIBER_BODIES), [("info_p8_treiber", 1)]
    else:
        specs = specs_of_programs([prog])[tn]
        src, opnames, infos = unit_source(tn, specs, treiber=False)
    binary, opidx, objidx, stats = build_binary(chibicc, include, wd, {tn: (src, opnames, infos)})
    return binary, opidx, objidx, src


def sig_of(prog, dev):
    """C16|<op family>[/float][+<partner family>]|<lvalue form>[;<operand positions filled with a call or a nested
    atomic operation, e.g. D or A+E+D>]|<deviation class>.  The operand kinds are in the description and the artefact."""
    flt = "/float" if TINFO.get(prog.get("type"), (0, 0, 0, 0, ""))[4] == "flt" else ""
    pos = "+".join(q for q in POSITIONS + "S" if q in ok_parse(prog.get("ok") or ""))
    form = prog["form"] + (";" + pos if pos else "")
    if dev == LATE_STORE:
        form = "anyform"          # the store follows the lock cmpxchg whatever designates the object and fills the operands
    return "C16|%s|%s|%s" % (family(prog["op"]) + flt + ("+" + family(prog["partner"]) if prog["partner"] else ""), form, dev)


def replay_main(path):
    """exit 1 iff the recorded violation class reproduces with $CHIBICC."""
    case = json.load(open(path))
    prog = case["program"]
    chibicc = os.environ["CHIBICC"]
    include = os.path.join(os.environ.get("CHIBICC_DIR", os.path.dirname(chibicc)), "include")
    import tempfile, shutil
    wd = tempfile.mkdtemp(prefix="vp_c16r_")
    try:
        try:
            binary, opidx, objidx, src = single_case_binary(chibicc, include, wd, prog)
        except CompileFailure as e:
            print("body does not compile any more:", e)
            return 1 if case["deviation"] == "rejected-by-compiler" else 0
        st, out, err = _run_batch((binary, [program_line(prog, opidx, objidx)], 600))
        if st != 0 and not (st == 4 and "\nCRASHED " in out):
            print("explorer status", st, out[-500:], err[-500:])
            return 0
        res = parse_output(out).get(prog["id"])
        found = None
        for h in sorted(res["hist"], key=lambda h: (h[1], h[3])):
            dev = judge(prog, h[4])
            if dev and sig_of(prog, dev) == case["sig"]:
                found = h
                break
        if not found:
            print("no history of class %s in %s schedules" % (case["sig"], res["stats"].get("schedules")))
            return 0
        st, out, err = _run_batch((binary, [program_line(prog, opidx, objidx, found[3])], 60))
        print("REPRODUCED %s\nschedule %s (%d preemptions)\nhistory  %s" % (case["sig"], found[3], found[1], found[4]))
        print(out)
        return 1
    finally:
        shutil.rmtree(wd, ignore_errors=True)


def describe(prog, dev, h):
    ops = "; ".join("T%d: " % t + ", ".join("%s(arg=%s%s)" % (o["op"], "result of the previous operation" if o.get("carry") else o["arg"],
                                                              ",exp=%d" % o["exp"] if o["op"].startswith("cas") or o["op"] == "claim" else "")
                                              for o in th) for t, th in enumerate(prog["threads"]))
    return ("%s on _Atomic %s via %s%s, init=%d, %s: %s; schedule %s (%d preemptions) gives history [%s]"
            % (dev, TINFO[prog["type"]][1], prog["form"], " with operands " + prog["ok"] if prog.get("ok") else "",
               prog["init"], ops, dev, h[3][:400], h[1], h[4]))


def timed_out_any(summs):
    return any(sm["timed_out"] for sm in summs)


def _try_body(args):
    chibicc, include, wd, tn, spec = args
    if spec[0] == "treiber":
        name, src = "f_push_p8_treiber", PRELUDE + TREIBER
    else:
        src, names, _ = unit_source(tn, [spec], treiber=False)
        name = names[0]
    c = os.path.join(wd, "try_%s.c" % name)
    with open(c, "w") as f:
        f.write(src)
    st, o, e = core.run_limited([chibicc, "-cc1", "-I" + include, "-cc1-input", c, "-cc1-output", c + ".s", c], cwd=wd, timeout=60)
    return name, tn, spec, st, src, (o + e)[-600:]


def bisect_rejected(ctx, wd, tn, specs, chunk):
    """A generated unit did not compile: find the single bodies the compiler rejects (each is a finding)."""
    cases = [(ctx.chibicc, ctx.include, wd, tn, sp) for sp in specs]
    if tn == "p8" and chunk == 0:
        cases.append((ctx.chibicc, ctx.include, wd, tn, ("treiber", "push", "", None)))
    bad = set()
    for name, tn, spec, st, src, msg in core.pmap(_try_body, cases):
        if st != 0:
            bad.add(name)
            form, op, okey = spec[0], spec[1], spec[2]
            how = "crash-signal-%d" % -st if isinstance(st, int) and st < 0 else "rejected-by-compiler"
            ctx.violation(sig_of({"op": op, "partner": None, "form": form, "type": tn, "ok": okey}, how),
                          "valid body %s (%s on _Atomic %s via %s) is not compiled: status %s: %s" % (name, op, TINFO[tn][1], form, st, msg.strip()[-300:]),
                          files={"body.c": src},
                          replay='$CHIBICC -cc1 -I"$CHIBICC_DIR/include" -cc1-input body.c -cc1-output body.s body.c >/dev/null 2>&1 && exit 0; exit 1')
    return bad


# Objects whose size no lock cmpxchg / xchg operand has (3, 5, 6, 7, 12, 16 bytes: structures, long double).  The
# explorer has no model of a wider or composite read-modify-write, so these bodies are not explored: each is compiled
# alone; a compiler that refuses it with a diagnostic has made no promise of atomicity (counted, not a deviation); a
# compiler that dies on it (signal, "internal error") is reported; one that compiles it is counted as unexplored.
WIDE_TYPES = [("s3", "struct { char c[3]; }"), ("s5", "struct { char c[5]; }"), ("s6", "struct { short c[3]; }"),
              ("s7", "struct { char c[7]; }"), ("s12", "struct { int c[3]; }"), ("s16", "struct { long c[2]; }"),
              ("ld", "long double")]
WIDE_CONTROLS = [("s4", "struct { char c[4]; }"), ("s8", "struct { int c[2]; }"), ("dbl", "double")]   # must compile
WIDE_OPS = {"xchg": "W f(W v) { return atomic_exchange(&g, v); }",
            "cas_s": "int f(W *x, W v) { return atomic_compare_exchange_strong(&g, x, v); }",
            "cas_w": "int f(W *x, W v) { return atomic_compare_exchange_weak(&g, x, v); }",
            "add": "W f(W v) { return g += v; }", "sub": "W f(W v) { return g -= v; }", "mul": "W f(W v) { return g *= v; }",
            "postinc": "W f(void) { return g++; }", "predec": "W f(void) { return --g; }"}


def wide_probes():
    out = []
    for wn, wt in WIDE_TYPES + WIDE_CONTROLS:
        for op in sorted(WIDE_OPS):
            if wn not in ("ld", "dbl") and op not in ("xchg", "cas_s", "cas_w"):
                continue
            out.append(("%s_%s" % (op, wn), op, wn,
                        "#include <stdatomic.h>\ntypedef %s W;\n_Atomic W g;\n%s\n" % (wt, WIDE_OPS[op])))
    return out


def _try_wide(args):
    chibicc, include, wd, name, src = args
    c = os.path.join(wd, "wide_%s.c" % name)
    with open(c, "w") as f:
        f.write(src)
    st, o, e = core.run_limited([chibicc, "-cc1", "-I" + include, "-cc1-input", c, "-cc1-output", c + ".s", c], cwd=wd, timeout=60)
    return name, st, (o + e)[-400:]


def run_wide_probes(ctx, wd):
    probes = wide_probes()
    res = dict((n, (st, msg)) for n, st, msg in core.pmap(_try_wide, [(ctx.chibicc, ctx.include, wd, n, src) for n, _, _, src in probes]))
    counts = {"rejected_by_compiler": 0, "compiled_not_explored": 0, "compiler_died": 0, "controls_of_supported_size_compiled": 0}
    types = dict(WIDE_TYPES + WIDE_CONTROLS)
    seen = set()
    for name, op, wn, src in probes:
        st, msg = res[name]
        if st == "timeout":
            raise core.HarnessError("compiling the probe %s timed out" % name)
        if wn in dict(WIDE_CONTROLS):
            # the same text on an object of 4 / 8 bytes: shows that a refusal above is about the size
            if st == 0:
                counts["controls_of_supported_size_compiled"] += 1
                continue
            sig = "C16|%s/control|global|%s" % (family(op), "crash-signal-%d" % -st if isinstance(st, int) and st < 0 else "rejected-by-compiler")
            if sig not in seen:
                seen.add(sig)
                ctx.violation(sig, "%s on an _Atomic object of %s is not compiled: status %s: %s" % (op, types[wn], st, msg.strip()[-300:]),
                              files={"body.c": src},
                              replay='$CHIBICC -cc1 -I"$CHIBICC_DIR/include" -cc1-input body.c -cc1-output body.s body.c >/dev/null 2>&1 && exit 0; exit 1')
            continue
        if st == 0:
            counts["compiled_not_explored"] += 1
        elif isinstance(st, int) and st > 0 and "internal error" not in msg:
            counts["rejected_by_compiler"] += 1
        else:
            counts["compiler_died"] += 1
            how = "crash-signal-%d" % -st if isinstance(st, int) and st < 0 else "internal-compiler-error"
            sig = "C16|%s/wide|global|%s" % (family(op), how)
            if sig in seen:
                continue
            seen.add(sig)
            ctx.violation(sig, "%s on an _Atomic object of %s is neither compiled nor refused with a diagnostic: status %s: %s"
                          % (op, types[wn], st, msg.strip()[-300:]), files={"body.c": src},
                          replay='$CHIBICC -cc1 -I"$CHIBICC_DIR/include" -cc1-input body.c -cc1-output body.s body.c >out.txt 2>&1; st=$?; '
                                 'cat out.txt; [ $st -gt 128 ] && exit 1; grep -q "internal error" out.txt && exit 1; exit 0')
    if counts["controls_of_supported_size_compiled"] + len(seen) == 0:
        raise core.HarnessError("vacuous: no control body of the unsupported-size probes")
    ctx.cover(bodies_on_objects_of_unsupported_size=counts, unsupported_sizes=[t[1] for t in WIDE_TYPES])


def run(ctx):
    import time
    wd = ctx.mkdir("c16")
    tier = ctx.tier
    t_start = time.time()
    # ---- generate and build -----------------------------------------------------------------------
    allprogs = plan(tier)
    units, uspecs = make_units(allprogs)
    units["selftest"] = (SELFTEST_ASM, sorted(SELFTEST_EXPECT), [])
    rejected = set()
    for attempt in range(len(units) + 1):
        try:
            binary, opidx, objidx, rstats = build_binary(ctx.chibicc, ctx.include, wd, units)
            break
        except CompileFailure as e:
            # a valid generated body rejected by the compiler is a finding of its own; continue without it
            utn, usp, uchunk = uspecs[e.tn]
            bad = bisect_rejected(ctx, wd, utn, usp, uchunk)
            if not bad:
                raise core.HarnessError("chibicc rejects unit %s but every body alone compiles: %s" % (e.tn, e.msg))
            rejected |= bad
            units[e.tn] = unit_source(utn, usp, exclude=rejected, chunk=uchunk)
    else:
        raise core.HarnessError("generated units keep failing to compile")
    st_stats = rstats.pop("selftest")
    if "prefetchw" not in st_stats["unknown_mnemonics"] or st_stats["split_cmpxchg"] != 1:
        raise core.HarnessError("rewriter self-test: vocabulary/split handling changed: %s" % st_stats)
    run_wide_probes(ctx, wd)
    ctx.cover(bodies_rejected_by_compiler=len(rejected), build_s=round(time.time() - t_start, 1))
    if any(s["r11_uses"] and s["split_cmpxchg"] for s in rstats.values()):
        raise core.HarnessError("the compiler now uses %r11, which the split of an unlocked cmpxchg needs as scratch register")
    ctx.cover(compiler_uses_of_r11=sum(s["r11_uses"] for s in rstats.values()))
    unknown = sorted({m for s in rstats.values() for m in s["unknown_mnemonics"]})
    kinds = {}
    for s in rstats.values():
        for k, v in s["kinds"].items():
            kinds[k] = kinds.get(k, 0) + v
    ctx.cover(bodies=len(opidx), rewriter_instrumented=sum(s["instrumented"] for s in rstats.values()),
              rewriter_kinds=kinds, rewriter_unmodelled_operands=sum(s["skipped"] for s in rstats.values()),
              rewriter_got_loads_not_instrumented=sum(s["got_loads"] for s in rstats.values()),
              rewriter_unknown_mnemonics=unknown, rewriter_split_unlocked_cmpxchg=sum(s["split_cmpxchg"] for s in rstats.values()))
    if kinds.get("l", 0) + kinds.get("k", 0) == 0:
        raise core.HarnessError("vacuous: no locked read-modify-write instruction in any emitted body")

    # ---- explore ----------------------------------------------------------------------------------
    progs = [p for p in allprogs if all(o["fn"] in opidx for th in p["threads"] for o in th) and p["obj"] in objidx]
    progs += selftest_programs()
    t_explore = time.time()
    byid = {p["id"]: p for p in progs}
    if len(byid) != len(progs):
        raise core.HarnessError("duplicate program ids")
    timeout = int(max(30, ctx.time_left() - 90))
    summs = explore(binary, progs, opidx, objidx, core.NPROC * 4, timeout)
    for sm in summs:
        if sm["error"]:
            raise core.HarnessError(sm["error"])
    done = set()
    schedules = decisions = validated = distinct = cas_failed = livelocks = 0
    by_pre, cfgcount, bad, nbad, by_ok = {}, {}, {}, {}, {}
    crashes = guardchecks = caswatched = 0
    timed_out = False
    vrep = 0
    for sm in summs:
        guardchecks += sm["guardchecks"]
        caswatched += sm["caswatched"]
        done.update(sm["done"])
        timed_out = timed_out or sm["timed_out"]
        schedules += sm["schedules"]; decisions += sm["decisions"]; validated += sm["validated"]
        distinct += sm["distinct"]; cas_failed += sm["cas_failed"]; livelocks += sm["livelocks"]
        for k, v in sm["by_pre"].items():
            by_pre[k] = by_pre.get(k, 0) + v
        for k, v in sm["by_cfg"].items():
            cfgcount[k] = cfgcount.get(k, 0) + v
        for sig, v in sm["nbad"].items():
            nbad[sig] = nbad.get(sig, 0) + v
        for sig, w in sm["bad"].items():
            if sig not in bad or w[3] < bad[sig][3]:
                bad[sig] = w
        vrep += sm.get("violating_histories_replayed", 0)
        crashes += sm["crashes"]
        for k, v in sm["by_ok"].items():
            c = by_ok.setdefault(k, [0, 0, 0])
            for j in range(3):
                c[j] += v[j]
    ctx.cover(explore_s=round(time.time() - t_explore, 1))
    # self-test: the detector must fire on the hand-written broken bodies and stay quiet on the correct ones
    st_seen = {}
    for sm in summs:
        for pid, devs in sm["selftest"].items():
            st_seen.setdefault(byid[pid]["selftest"], set()).update(devs)
    for fn, expect in SELFTEST_EXPECT.items():
        if fn in st_seen and st_seen[fn] != expect:
            raise core.HarnessError("self-test body %s: expected verdicts %s, got %s" % (fn, expect, st_seen[fn]))
        if fn not in st_seen and not timed_out_any(summs):
            raise core.HarnessError("self-test body %s was not explored" % fn)
    ctx.cover(selftest_bodies_verified=len(st_seen))
    if timed_out or len(done) < len(progs):
        ctx.incomplete("deadline: %d of %d programs explored completely" % (len(done), len(progs)))
    if schedules == 0 or distinct < 2:
        raise core.HarnessError("vacuous exploration: %d schedules, %d distinct histories" % (schedules, distinct))
    if not timed_out and cas_failed == 0:
        raise core.HarnessError("vacuous: no schedule in which a compare-exchange failed")
    if by_pre.get(1, 0) == 0:
        raise core.HarnessError("vacuous: no schedule with a preemption")
    if caswatched == 0:
        raise core.HarnessError("vacuous: no successful compare-exchange with a registered expected-value object")
    if guardchecks < schedules:
        raise core.HarnessError("vacuous: %d guard regions examined in %d schedules" % (guardchecks, schedules))
    # operand dimension: every position x kind must have been explored, and for the expected/desired positions of
    # compare-exchange some schedules must have taken the failure (write-back) path
    want = ["%s=%s" % (q, k) for q in POSITIONS for k in KINDS] + ["D=const", "plain"] + ["S=" + st for st in STORAGES]
    if not timed_out and not bad:
        for k in want:
            if by_ok.get(k, [0, 0, 0])[1] == 0:
                raise core.HarnessError("vacuous: no schedule explored for operand kind %s" % k)
            if by_ok[k][2] == 0:
                raise core.HarnessError("vacuous: no failed compare-exchange with operand kind %s" % k)

    # A mixed program (two different operations) whose deviation class is already reported for one of its
    # operations alone, on the same lvalue form, has the same root cause: counted, not reported again.
    implied = 0
    for sig in sorted(bad):
        p, dev = bad[sig][0], bad[sig][1]
        if p["partner"] and any(sig_of({"op": o, "partner": None, "form": p["form"], "type": p["type"]}, dev) in bad
                                for o in (p["op"], p["partner"])):
            implied += nbad[sig]
            del bad[sig]
    ctx.cover(violating_schedules_in_mixed_programs_implied_by_single_op_class=implied)
    # The same for the operand dimension: a deviation class that the operation shows on the same lvalue form with
    # plain operands, or with only one of the operand positions filled, has the same root cause.
    implied = 0
    for sig in sorted(bad):
        p, dev = bad[sig][0], bad[sig][1]
        if not p.get("ok"):
            continue
        pos = [q for q in POSITIONS + "S" if q in ok_parse(p["ok"])]
        simpler = [""] + (["%s=x" % q for q in pos] if len(pos) > 1 else [])
        if any(sig_of({"op": p["op"], "partner": None, "form": p["form"], "type": p["type"], "ok": k}, dev) in bad for k in simpler):
            implied += nbad[sig]
            del bad[sig]
    ctx.cover(violating_schedules_with_operand_kinds_implied_by_simpler_operand_class=implied)
    import fnmatch
    for sig in sorted(bad):
        p, dev, h, _ = bad[sig]
        if any(pat == sig or fnmatch.fnmatchcase(sig, pat) for pat in getattr(ctx, "findings", [])):
            ctx.violation(sig, describe(p, dev, h))          # listed finding: counted by ctx, no artefact needed
            continue
        rwd = os.path.join(wd, "v_%d" % len(os.listdir(wd)))
        try:
            b1, oi, ob, src = single_case_binary(ctx.chibicc, ctx.include, rwd, p)
        except CompileFailure as e:
            raise core.HarnessError("single-case rebuild failed: %s" % e)
        tn = p["type"]
        # the schedule was found in the big binary; replay it there twice (same code addresses)
        line = program_line(p, opidx, objidx, h[3])
        o1 = _run_batch((binary, [line], 120))
        o2 = _run_batch((binary, [line], 120))
        okst = 4 if h[4].startswith("CRASH-") else 0
        if o1[0] != okst or o2[0] != okst or "HARNESS-ERROR" in o1[1]:
            raise core.HarnessError("replay of violating schedule failed: %s %s" % (p["id"], o1[1][-300:]))
        r1, r2 = parse_output(o1[1])[p["id"]], parse_output(o2[1])[p["id"]]
        if r1["trace"] != r2["trace"] or r1["hist"][0][2] != h[2] or r1["hist"][0][4] != h[4]:
            raise core.HarnessError("nondeterministic replay of violating schedule %s of %s" % (h[3], p["id"]))
        validated += 2
        asm = open(os.path.join(rwd, "u_%s.s" % tn)).read()
        rw = open(os.path.join(rwd, "u_%s_rw.s" % tn)).read()
        ctx.violation(sig, describe(p, dev, h) + " [%d violating schedules in this class]" % nbad[sig],
                      files=replay_files(p, sig, dev, h, src, asm, rw, r1["trace"]), replay=REPLAY_SH)
    ctx.cover(states=schedules, transitions=decisions, traces_validated_against_impl=validated,
              programs=len(done), distinct_histories_judged=distinct, livelocked_schedules=livelocks, violating_histories_replayed_identically=vrep,
              schedules_by_preemptions={str(k): by_pre[k] for k in sorted(by_pre)}, schedules_by_config=cfgcount,
              schedules_with_failed_cas=cas_failed, violating_schedules_by_sig=nbad,
              schedules_ending_in_crash_of_code_under_test=crashes, guard_regions_examined=guardchecks,
              successful_compare_exchanges_with_watched_expected_object=caswatched,
              operand_kinds={k: {"programs": v[0], "schedules": v[1], "schedules_with_failed_cas": v[2]} for k, v in sorted(by_ok.items())})
    ctx.cover(rule="every program = (type in %s) x (lvalue form in %s) x (operation of ops_for(type)) x (operand kinds: "
                   "each operand position A=object designator, E=expected address, D=value operand filled with one of "
                   "priv(default), const(D only), %s, of which %s have a side effect and must be evaluated exactly once; "
                   "combinations per tier in operand_keys()) x (storage of the expected-value object: local(default), %s) x "
                   "(threads x ops in 1x2, 2x1, 2x2, 3x1, 3x2) x (value variant; floating objects also NaN payloads and "
                   "negative zero as representations), ALL schedules or all schedules within the stated preemption bound; "
                   "guard bytes directly before and after every atomic object and every expected-value object are "
                   "examined after every operation, callee-saved registers after every body; a history is judged against "
                   "the C11 sequential specification by exhaustive linearization; every store into the expected-value "
                   "object (named by each body) after the successful lock cmpxchg of its compare-exchange is a deviation; "
                   "expected-value object in SHARED memory: Treiber push spellings %s x (2 threads x (1,3) and (2,3) ops, "
                   "3 threads x (1,2,1) ops, one thread pops, pushes and pushes the popped node again), %s on every type x "
                   "lvalue form against 1 or 2 claim operations writing the handed-over expected-value object; ++/-- also "
                   "on _Bool and at 2^24 (float) / 2^53 (double); objects of unsupported size %s compiled one by one"
                   % ([t[0] for t in TYPES], FORMS + AUTO_FORMS, KINDS, SIDE_KINDS, STORAGES, STACK_PUSHES, SHX_OPS,
                      [t[0] for t in WIDE_TYPES]),
              shared_expected_object_forms=STACK_PUSHES[1:] + SHX_OPS, stack_program_configs=["2x1-3", "2x2-3", "3x1-2-1"],
              incdec_value_points=["small", "_Bool 0/1", "float +-2^24", "double +-2^53"],
              types=[t[1] for t in TYPES], operand_positions=list(POSITIONS), operand_kinds_alphabet=["priv", "const"] + KINDS,
              side_effecting_operand_kinds=SIDE_KINDS, expected_object_storages=["local"] + STORAGES,
              representation_value_forms=RAW_OPS, macros_without_rmw=PLAIN_OPS + ["clear", "clear_x"],
              bodies_by_operand_key_count=len({o["ok"] for p in progs for th in p["threads"] for o in th}))
    for sm in summs[:: max(1, len(summs) // 5)][:5]:
        for x in sm["samples"]:
            ctx.sample(x)
    ctx.assume("the scheduler is sequentially consistent: every instruction executes indivisibly and becomes visible "
               "at once; x86-TSO store-buffer effects are not modelled")
    ctx.assume("scheduling points: every access that touches the atomic object or lies outside the running virtual "
               "thread's stack, plus the boundary between two operations of one thread; private stack accesses commute")
    ctx.assume("at most 3 threads and 6 operations per program; operands are fixed per program (values chosen so that "
               "C11 defines every result and so that any lost or reordered update changes a return value or the final value)")
    ctx.assume("gcc assembles the rewritten output; the assembler, linker and CPU are trusted; operands that mention "
               "%r11 or a segment register are not instrumented (counted in rewriter_unmodelled_operands)")
    ctx.assume("a retry loop that runs for 10^4 scheduling points is a livelock verdict; exploration of that program "
               "stops at the first such schedule; the same holds for a fault (SIGSEGV/SIGBUS/SIGILL/SIGFPE) or a hang "
               "(3 s of CPU time without scheduling decision) while a body, a helper or an access stub is running")
    ctx.assume("a write or read-modify-write of a body to memory other than its own stack, its private static block, the "
               "arena, the aggregate of the atomic object with its guard objects or (automatic objects) the owner's stack "
               "is a verdict (write-outside-the-objects-of-the-program); reads elsewhere are permitted (constants)")
    ctx.assume("operand helpers (h1/h5/h7/hf compiled by chibicc in the same unit, vp_clobber in assembly) and the nested "
               "atomic operations touch only thread-private memory, so they add no scheduling points; nested atomic "
               "operations on a second SHARED object are not explored")
    ctx.assume("floating atomics: float and double only (no _Atomic long double); arithmetic values are exact multiples "
               "of 0.25 (no rounding); quiet NaNs with payloads and negative zero only as representations handed to "
               "compare-exchange / exchange (no signaling NaN, no arithmetic on them, no infinities)")
    ctx.assume("expected-value object: chibicc cannot know that an expected-value object is unobservable by other threads (in "
               "every body its address escapes), so a store into it after a successful compare-exchange is reported for "
               "thread-private objects too; the store is recognised by the instrumented write/RMW instructions of the "
               "thread that registered the object (writes of unknown length and opaque instructions are not judged)")
    ctx.assume("guard bytes: 8 bytes on each side of an automatic or static expected-value / atomic object (the whole "
               "aggregate for members and elements); a write further away is seen only if it hits another guard, a "
               "callee-saved register slot or makes the body fault; the memory_order operand and atomic_is_lock_free / "
               "kill_dependency / the fences are outside the operand dimension")


if __name__ == "__main__":
    if len(sys.argv) == 3 and sys.argv[1] == "--replay":
        sys.exit(replay_main(sys.argv[2]))
    print(__doc__)
    sys.exit(2)
